"""E5: access paths, per-function effect summaries (may), return-alias summaries, call graph.

Access path = root + tuple of steps.
  roots : ('param', name) ('fresh', line) ('ret', line, callee, idx) ('global', name) ('unk', text)
  steps : 'field'  "[*]" (any element)  "['key']" (constant key)  '<dyn>' (getattr with computed name)
Effect = (path, kind) with kind in
  add remove reorder      in-place structural mutation of the container denoted by path
  item-set item-del       subscript store / delete on the container denoted by path
  rebind                  attribute (last step) re-assigned
"""
from __future__ import annotations

import ast
from typing import Optional, Iterable

from .core import Program, Func, PJS, UNK, PJS_ATTRS, own_nodes, stmt_text, const_str
from .cfg import cfg_of, CFG, CNode

MAXLEN = 8
ELEM = '[*]'
TRUNC = '[...]'
DYN = '<dyn>'

ADDERS = {'append', 'extend', 'insert', 'add', 'update', 'appendleft'}
REMOVERS = {'remove', 'pop', 'clear', 'discard', 'popitem', 'difference_update',
            'intersection_update', 'popleft'}
REORDER = {'sort', 'reverse'}
SNAPSHOT_FUNCS = {'list', 'tuple', 'sorted', 'set', 'frozenset', 'dict', 'reversed'}
FRESH_BUILTINS = {'str', 'int', 'float', 'bool', 'len', 'repr', 'range', 'enumerate', 'zip',
                  'max', 'min', 'sum', 'abs', 'isinstance', 'hasattr', 'id', 'hash', 'type',
                  'any', 'all', 'filter', 'map', 'open', 'print', 'iter'}


class Path:
    __slots__ = ('root', 'steps')

    def __init__(self, root, steps=()):
        self.root = root
        self.steps = tuple(steps)

    def add(self, step) -> 'Path':
        if self.steps and self.steps[-1] == TRUNC:
            return self
        if len(self.steps) >= MAXLEN:
            return Path(self.root, self.steps[:MAXLEN - 1] + (TRUNC,))
        if step != ELEM and not step.startswith('[0') and not step.startswith('[1') and step in self.steps:
            # recursive structure (k-limiting): collapse
            return Path(self.root, self.steps + (TRUNC,))
        return Path(self.root, self.steps + (step,))

    @property
    def truncated(self):
        return bool(self.steps) and self.steps[-1] == TRUNC

    def extend(self, steps) -> 'Path':
        p = self
        for s in steps:
            p = p.add(s)
        return p

    @property
    def last(self):
        return self.steps[-1] if self.steps else None

    @property
    def is_param(self):
        return self.root[0] == 'param'

    @property
    def is_fresh(self):
        return self.root[0] == 'fresh'

    def key(self):
        return (self.root, self.steps)

    def __eq__(self, o):
        return isinstance(o, Path) and self.key() == o.key()

    def __hash__(self):
        return hash(self.key())

    def startswith(self, other: 'Path') -> bool:
        return self.root == other.root and self.steps[:len(other.steps)] == other.steps

    def fields(self):
        return [s for s in self.steps if not s.startswith('[') and s != DYN]

    def __repr__(self):
        r = self.root
        if r[0] == 'param':
            base = r[1]
        elif r[0] == 'fresh':
            base = f'<fresh@{r[1]}>'
        elif r[0] == 'ret':
            base = f'<ret {r[2]}@{r[1]}' + (f'[{r[3]}]' if r[3] is not None else '') + '>'
        elif r[0] == 'global':
            base = f'<global {r[1]}>'
        else:
            base = f'<unk {r[1]}>'
        out = base
        for s in self.steps:
            out += s if s.startswith('[') else '.' + s
        return out


class Effect:
    __slots__ = ('path', 'kind', 'func', 'lineno', 'text', 'chain', 'node', 'ptype', 'sure', 'op',
                 'must', 'cmust', 'src')

    def __init__(self, path, kind, func, lineno, text, chain=(), node=None, ptype=UNK, sure=True, op='',
                 must=False, cmust=True, src=None):
        self.must = must        # performed on every normally-returning path of the summarised function
        self.cmust = cmust      # (instantiated effects) performed on every normal path of the callee
        self.src = src          # ast node of the primitive (statement or call), in ITS function
        self.sure = sure        # the receiver resolved to exactly one path at every level
        self.op = op            # primitive operation name (append, remove, del, ...)
        self.path = path
        self.kind = kind
        self.func = func        # short name of the function where the primitive effect occurs
        self.lineno = lineno
        self.text = text
        self.chain = chain      # tuple of (caller short, callee short, lineno)
        self.node = node        # CFG node in the *summarised* function (call site or primitive)
        self.ptype = ptype      # static class owning the last field: e.g. 'AttackGraph' for .nodes

    def key(self):
        return (self.path.key(), self.kind)

    def __repr__(self):
        via = ''.join(f' <- {c[1]}' for c in self.chain)
        return f'{self.kind} {self.path!r} ({self.func}:{self.lineno}{via})'


class FuncFacts:
    def __init__(self, f: Func):
        self.f = f
        self.effects: list[Effect] = []       # own + instantiated callee effects
        self.returns: set = set()             # Paths / 'FRESH' / 'UNK' / 'NONE' ; tuples: (idx, Path)
        self.done = False                     # summarised at least once (else: bottom)
        self.calls: list[tuple] = []          # (call ast, resolution, CNode)
        self.field_alias: dict[tuple, set] = {}  # for ctors: steps tuple of self.F -> set(Path param-rooted)


class Analyzer:
    def __init__(self, prog: Program):
        self.prog = prog
        self.facts: dict[str, FuncFacts] = {}
        self._resolvers: dict[str, 'PathResolver'] = {}
        funcs = list(prog.all_funcs())
        for f in funcs:
            self.facts[f.qname] = FuncFacts(f)
        self.rounds = 0
        self.unresolved_calls = 0
        self.resolved_calls = 0
        for rnd in range(12):
            self.rounds = rnd + 1
            changed = False
            for f in funcs:
                changed |= self._summarise(f, final=False)
            if not changed:
                break
        self.resolved_calls = self.unresolved_calls = 0
        for f in funcs:
            self._summarise(f, final=True)

    def resolver(self, f: Func) -> 'PathResolver':
        r = self._resolvers.get(f.qname)
        if r is None:
            r = PathResolver(self, f)
            self._resolvers[f.qname] = r
        return r

    def of(self, f: Func) -> FuncFacts:
        return self.facts[f.qname]

    # ------------------------------------------------------------------
    def _summarise(self, f: Func, final: bool) -> bool:
        facts = self.facts[f.qname]
        R = self.resolver(f)
        env = self.prog.env(f)
        cfg = cfg_of(f)
        effects: dict[tuple, Effect] = {}
        returns: set = set()
        calls = []
        field_alias: dict[tuple, set] = {}

        def emit(path: Path, kind, lineno, text, chain=(), node=None, func=None, ptype=UNK,
                 sure=None, op='', cmust=None, src=None):
            if path.root[0] in ('fresh',):
                return
            if sure is None:
                sure = R.last_sure
            else:
                sure = sure and R.last_sure
            if len(chain) > 4:
                chain = chain[:2] + chain[-2:]
            here = node is not None and cfg.postdominates(node, cfg.entry)
            if cmust is None:       # primitive effect of this function
                must, cm = here, True
            else:
                must, cm = (here and cmust), cmust
            e = Effect(path, kind, func or f.short, lineno, text, chain, node, ptype, sure, op,
                       must, cm, src)
            effects.setdefault(e.key() + (id(node),), e)

        def owner_type(expr) -> str:
            """static class that owns the attribute expr (for field disambiguation)"""
            while isinstance(expr, ast.Subscript):
                expr = expr.value
            if isinstance(expr, ast.Call) and isinstance(expr.func, ast.Attribute) \
                    and expr.func.attr in ('get', 'setdefault'):
                expr = expr.func.value
            if isinstance(expr, ast.Attribute):
                bt = env.type_of(expr.value)
                if bt[0] == 'cls':
                    return bt[1]
                if bt == PJS:
                    return 'pjs'
                if bt == UNK and expr.attr not in PJS_ATTRS:
                    # fallback: field name unique among the classes visible in this module
                    mod = f.module
                    cands = [c.name for c in self.prog.classes.values()
                             if expr.attr in c.fields and (c.module is mod or c.name in mod.imports)]
                    if len(cands) == 1:
                        return cands[0]
            return ''

        def do_target(tgt, node, st, kind_attr='rebind'):
            if isinstance(tgt, ast.Attribute):
                for p in R.tpaths(tgt.value, node):
                    emit(p.add(tgt.attr), kind_attr, st.lineno, stmt_text(st), node=node,
                         ptype=owner_type(tgt), src=st)
            elif isinstance(tgt, ast.Subscript):
                for p in R.tpaths(tgt.value, node):
                    emit(p, 'item-set', st.lineno, stmt_text(st), node=node, ptype=owner_type(tgt.value),
                         src=st)
            elif isinstance(tgt, (ast.Tuple, ast.List)):
                for e in tgt.elts:
                    do_target(e, node, st)

        comp_stack: list = []
        for n in own_nodes(f.node):
            node = cfg.node_of(n) if isinstance(n, ast.stmt) else cfg.owner(n)
            if node is None:
                node = cfg.owner(n)
            if isinstance(n, ast.Assign):
                for t in n.targets:
                    do_target(t, node, n)
                # constructor field aliasing: self.F = <param path>
                if f.self_name:
                    for t in n.targets:
                        if isinstance(t, ast.Attribute) and isinstance(t.value, ast.Name) \
                                and t.value.id == f.self_name:
                            for p in R.tpaths(n.value, node):
                                if p.is_param and p.root[1] != f.self_name:
                                    field_alias.setdefault((t.attr,), set()).add(p)
            elif isinstance(n, ast.AnnAssign):
                if n.value is not None:
                    do_target(n.target, node, n)
                    if f.self_name and isinstance(n.target, ast.Attribute) \
                            and isinstance(n.target.value, ast.Name) and n.target.value.id == f.self_name:
                        for p in R.tpaths(n.value, node):
                            if p.is_param and p.root[1] != f.self_name:
                                field_alias.setdefault((n.target.attr,), set()).add(p)
            elif isinstance(n, ast.AugAssign):
                if isinstance(n.target, ast.Name):
                    t = env.type_of(n.target)
                    if t[0] in ('list', 'set', 'dict'):
                        for p in R.tpaths(n.target, node):
                            emit(p, 'add' if isinstance(n.op, (ast.Add, ast.BitOr)) else 'remove',
                                 n.lineno, stmt_text(n), node=node)
                else:
                    do_target(n.target, node, n)
                    if isinstance(n.target, ast.Attribute):
                        t = env.type_of(n.target)
                        if t[0] in ('list', 'set', 'dict'):
                            for p in R.tpaths(n.target, node):
                                emit(p, 'add', n.lineno, stmt_text(n), node=node,
                                     ptype=owner_type(n.target))
            elif isinstance(n, ast.Delete):
                for t in n.targets:
                    if isinstance(t, ast.Subscript):
                        for p in R.tpaths(t.value, node):
                            emit(p, 'item-del', n.lineno, stmt_text(n), node=node, op='del', src=n,
                                 ptype=owner_type(t.value))
                    elif isinstance(t, ast.Attribute):
                        for p in R.tpaths(t.value, node):
                            emit(p.add(t.attr), 'rebind', n.lineno, stmt_text(n), node=node,
                                 ptype=owner_type(t))
            elif isinstance(n, ast.Return):
                if n.value is None:
                    returns.add('NONE')
                elif isinstance(n.value, ast.Call) and self._tuple_callee(env, n.value) is not None:
                    cf = self._tuple_callee(env, n.value)
                    for i in sorted({r[0] for r in cf.returns if isinstance(r, tuple)}):
                        for p in R._call_paths(n.value, node, (i,)):
                            returns.add((i, self._ret_item(p)))
                elif isinstance(n.value, ast.Tuple):
                    for i, el in enumerate(n.value.elts):
                        for p in R.tpaths(el, node):
                            returns.add((i, self._ret_item(p)))
                else:
                    for p in R.tpaths(n.value, node):
                        returns.add(self._ret_item(p))
            elif isinstance(n, ast.Call):
                res = env.resolve_call(n)
                calls.append((n, res, node))
                self._call_effects(f, n, res, node, R, env, emit, owner_type, final)
        new_keys = {e.key() for e in effects.values()}
        old_keys = {e.key() for e in facts.effects}
        changed = new_keys != old_keys or returns != facts.returns or field_alias != facts.field_alias
        facts.effects = list(effects.values())
        facts.done = True
        facts.returns = returns
        facts.calls = calls
        facts.field_alias = field_alias
        return changed

    def _tuple_callee(self, env, call):
        res = env.resolve_call(call)
        if res[0] == 'func':
            cf = self.facts.get(res[1].qname)
            if cf is not None and (not cf.done or any(isinstance(r, tuple) for r in cf.returns)):
                return cf
        return None

    @staticmethod
    def _ret_item(p: Path):
        if p.is_param:
            return p
        if p.is_fresh:
            return 'FRESH'
        if p.root[0] == 'global':
            return p
        return 'UNK'

    def _call_effects(self, f, call: ast.Call, res, node, R, env, emit, owner_type, final):
        kind = res[0]
        if kind == 'method':
            _, recv, name, rtype = res
            k = None
            if name in ADDERS:
                k = 'add'
            elif name in REMOVERS:
                k = 'remove'
            elif name in REORDER:
                k = 'reorder'
            elif name == 'setdefault':
                k = 'item-set'
            if k is not None:
                # dict.update / set.update / list.extend ... all 'add'
                for p in R.tpaths(recv, node):
                    emit(p, k, call.lineno, stmt_text(call), node=node, ptype=owner_type(recv), op=name,
                         src=call)
            if final:
                self.resolved_calls += 1
            return
        if kind == 'builtin':
            name = res[1]
            if name == 'setattr' and len(call.args) >= 2:
                key = const_str(call.args[1])
                for p in R.tpaths(call.args[0], node):
                    emit(p.add(key if key else DYN), 'rebind', call.lineno, stmt_text(call), node=node,
                         ptype='pjs' if env.type_of(call.args[0]) == PJS else '')
            elif name == 'delattr' and len(call.args) >= 2:
                key = const_str(call.args[1])
                for p in R.tpaths(call.args[0], node):
                    emit(p.add(key if key else DYN), 'rebind', call.lineno, stmt_text(call), node=node)
            elif name == 'copy.deepcopy' and call.args:
                # deepcopy(x) runs T.__deepcopy__ of every repo object reachable from x
                self._deepcopy_effects(f, call, node, R, env, emit)
            if final:
                self.resolved_calls += 1
            return
        if kind in ('func', 'ctor'):
            callee = res[1] if kind == 'func' else res[2]
            if final:
                self.resolved_calls += 1
            if callee is None:
                return
            self._instantiate(f, call, callee, node, R, env, emit,
                              self_fresh=(kind == 'ctor'))
            return
        if final:
            self.unresolved_calls += 1

    def _deepcopy_effects(self, f, call, node, R, env, emit):
        t = env.type_of(call.args[0])
        names = []

        def collect(t):
            if t[0] == 'cls':
                names.append(t[1])
            elif t[0] in ('list', 'set'):
                collect(t[1])
            elif t[0] == 'dict':
                collect(t[2])
        collect(t)
        for cn in names:
            m = self.prog.find_method(cn, '__deepcopy__')
            if m is None:
                continue
            cfacts = self.facts[m.qname]
            for e in cfacts.effects:
                # only effects on the memo argument / self matter; map self -> arg path
                if e.path.is_param and e.path.root[1] == m.params[0]:
                    for p in R.tpaths(call.args[0], node):
                        base = p
                        if env.type_of(call.args[0])[0] in ('list', 'set', 'dict'):
                            base = p.add(ELEM)
                        np = base.extend(e.path.steps)
                        emit(np, e.kind, e.lineno, e.text, e.chain + ((f.short, m.short, call.lineno),),
                             node=node, func=e.func, ptype=e.ptype, sure=e.sure, op=e.op, cmust=e.must, src=e.src)

    def arg_map(self, call: ast.Call, callee: Func, recv_expr=None, self_fresh=False):
        """formal parameter name -> actual expression (or None for fresh self / default)."""
        params = list(callee.params)
        m: dict[str, object] = {}
        args = list(call.args)
        if callee.is_method:
            selfp = params.pop(0)
            if self_fresh:
                m[selfp] = 'FRESH'
            elif callee.is_classmethod:
                m[selfp] = None
            else:
                m[selfp] = recv_expr
        for p, a in zip(params, args):
            if isinstance(a, ast.Starred):
                break
            m[p] = a
        for kw in call.keywords:
            if kw.arg is not None:
                m[kw.arg] = kw.value
        return m

    def _instantiate(self, f, call, callee: Func, node, R, env, emit, self_fresh=False):
        recv = None
        if isinstance(call.func, ast.Attribute) and not self_fresh:
            recv = call.func.value
            # Class.method(x) style or module.func: receiver is not an object
            bt = env.type_of(recv)
            if bt[0] == 'clsobj':
                recv = None
        amap = self.arg_map(call, callee, recv, self_fresh)
        cfacts = self.facts[callee.qname]
        actual_paths: dict[str, list[Path]] = {}
        for p, a in amap.items():
            if a is None:
                continue
            if a == 'FRESH':
                actual_paths[p] = [Path(('fresh', call.lineno))]
            else:
                actual_paths[p] = R.tpaths(a, node)
        for e in cfacts.effects:
            if not e.path.is_param:
                if e.path.root[0] == 'global':
                    emit(e.path, e.kind, e.lineno, e.text, e.chain + ((f.short, callee.short, call.lineno),),
                         node=node, func=e.func, ptype=e.ptype, sure=e.sure, op=e.op, cmust=e.must, src=e.src)
                continue
            formal = e.path.root[1]
            bases = actual_paths.get(formal)
            if bases is None:
                # default argument / closure variable of a nested function
                if callee.parent is not None and formal not in callee.params:
                    bases = R.tpaths(ast.Name(id=formal, ctx=ast.Load()), node)
                else:
                    continue
            R.last_sure = len(bases) == 1
            for b in bases:
                steps = e.path.steps
                if self_fresh and b.is_fresh and steps:
                    # effect on a field of the object under construction: does it alias a parameter?
                    tgt = cfacts.field_alias.get(steps[:1]) if len(steps) >= 2 else None
                    if tgt:
                        for ap in tgt:
                            abases = actual_paths.get(ap.root[1], [])
                            for ab in abases:
                                np = ab.extend(ap.steps + steps[1:])
                                emit(np, e.kind, e.lineno, e.text,
                                     e.chain + ((f.short, callee.short, call.lineno),),
                                     node=node, func=e.func, ptype=e.ptype, sure=e.sure, op=e.op, cmust=e.must, src=e.src)
                    continue
                np = b.extend(steps)
                emit(np, e.kind, e.lineno, e.text, e.chain + ((f.short, callee.short, call.lineno),),
                     node=node, func=e.func, ptype=e.ptype, sure=e.sure, op=e.op, cmust=e.must, src=e.src)

    # ------------------------------------------------------------------ call graph
    def callees(self, f: Func) -> list[Func]:
        out = []
        for call, res, node in self.facts[f.qname].calls:
            if res[0] == 'func':
                out.append(res[1])
            elif res[0] == 'ctor':
                if res[2] is not None:
                    out.append(res[2])
                # dataclass __post_init__ not used in this repository
            elif res[0] == 'builtin' and res[1] == 'copy.deepcopy' and call.args:
                t = self.prog.env(f).type_of(call.args[0])
                stack = [t]
                while stack:
                    x = stack.pop()
                    if x[0] == 'cls':
                        m = self.prog.find_method(x[1], '__deepcopy__')
                        if m is not None:
                            out.append(m)
                    elif x[0] in ('list', 'set'):
                        stack.append(x[1])
                    elif x[0] == 'dict':
                        stack.append(x[2])
        # property reads
        env = self.prog.env(f)
        for n in own_nodes(f.node):
            if isinstance(n, ast.Attribute) and isinstance(n.ctx, ast.Load):
                bt = env.type_of(n.value)
                if bt[0] == 'cls':
                    c = self.prog.classes.get(bt[1])
                    if c is not None and n.attr in c.properties:
                        out.append(c.methods[n.attr])
        # function values: a function mentioned outside call position (handed to reduce / map / a table of rules)
        # may be called by whoever receives it; a module-level table mentioned here may hold such functions
        mod = f.module
        tables = self._module_tables(mod)
        for n in ast.walk(f.node):
            if isinstance(n, ast.Name) and isinstance(n.ctx, ast.Load):
                g = mod.functions.get(n.id)
                if g is not None and g is not f:
                    out.append(g)
                for nm in tables.get(n.id, ()):
                    g = mod.functions.get(nm)
                    if g is not None and g is not f:
                        out.append(g)
            elif isinstance(n, ast.Attribute) and isinstance(n.ctx, ast.Load) and isinstance(n.value, ast.Name) \
                    and n.value.id in ('self', 'cls') and f.cls is not None:
                m = f.cls.methods.get(n.attr)
                if m is not None and m is not f:
                    out.append(m)
                for nm in self._class_tables(f.cls).get(n.attr, ()):
                    g = f.cls.methods.get(nm) or mod.functions.get(nm)
                    if g is not None and g is not f:
                        out.append(g)
        return out

    def _module_tables(self, mod) -> dict:
        """module-level NAME = <literal> -> names of functions mentioned inside the literal"""
        cache = self.__dict__.setdefault('_mtables', {})
        if mod.relpath not in cache:
            t = {}
            for st in mod.tree.body:
                tg, val = None, None
                if isinstance(st, ast.Assign) and len(st.targets) == 1 and isinstance(st.targets[0], ast.Name):
                    tg, val = st.targets[0].id, st.value
                elif isinstance(st, ast.AnnAssign) and isinstance(st.target, ast.Name) and st.value is not None:
                    tg, val = st.target.id, st.value
                if tg:
                    names = {x.id for x in ast.walk(val) if isinstance(x, ast.Name) and x.id in mod.functions}
                    names |= {x.attr for x in ast.walk(val) if isinstance(x, ast.Attribute)}
                    if names:
                        t[tg] = names
            cache[mod.relpath] = t
        return cache[mod.relpath]

    def _class_tables(self, cls) -> dict:
        cache = self.__dict__.setdefault('_ctables', {})
        key = (cls.module.relpath, cls.name)
        if key not in cache:
            t = {}
            for st in cls.node.body:
                tg, val = None, None
                if isinstance(st, ast.Assign) and len(st.targets) == 1 and isinstance(st.targets[0], ast.Name):
                    tg, val = st.targets[0].id, st.value
                elif isinstance(st, ast.AnnAssign) and isinstance(st.target, ast.Name) and st.value is not None:
                    tg, val = st.target.id, st.value
                if tg:
                    names = {x.id for x in ast.walk(val) if isinstance(x, ast.Name)} | \
                            {x.attr for x in ast.walk(val) if isinstance(x, ast.Attribute)} | \
                            {x.value for x in ast.walk(val) if isinstance(x, ast.Constant) and isinstance(x.value, str)}
                    if names:
                        t[tg] = names
            cache[key] = t
        return cache[key]

    def reachable(self, roots: Iterable[Func]) -> dict[str, Func]:
        seen: dict[str, Func] = {}
        st = list(roots)
        while st:
            g = st.pop()
            if g.qname in seen:
                continue
            seen[g.qname] = g
            st.extend(self.callees(g))
        return seen


class PathResolver:
    """Expression -> set of access paths, at a given CFG node of one function."""

    def __init__(self, an: Analyzer, f: Func):
        self.an = an
        self.prog = an.prog
        self.f = f
        self.env = self.prog.env(f)
        self.cfg = cfg_of(f)
        self._depth = 0
        self.last_sure = True
        # comprehension variable bindings: name -> (iter expr, index or None) found lexically
        self._comp_bind: dict[int, dict] = {}
        self._index_comprehensions()

    def _index_comprehensions(self):
        """For every Name inside a comprehension that refers to a comprehension target, remember
        the generator that binds it."""
        self.comp_of_name: dict[int, tuple] = {}

        def visit(node, bound: dict):
            if isinstance(node, (ast.ListComp, ast.SetComp, ast.GeneratorExp, ast.DictComp)):
                b = dict(bound)
                for gen in node.generators:
                    # iter evaluated with previous bindings
                    visit(gen.iter, b)
                    self._bind_target(gen.target, gen.iter, (), b)
                    for c in gen.ifs:
                        visit(c, b)
                if isinstance(node, ast.DictComp):
                    visit(node.key, b)
                    visit(node.value, b)
                else:
                    visit(node.elt, b)
                return
            if isinstance(node, ast.Lambda):
                b = dict(bound)
                for a in node.args.args:
                    b[a.arg] = ('lambda', None, ())
                visit(node.body, b)
                return
            if isinstance(node, ast.Name) and node.id in bound:
                self.comp_of_name[id(node)] = bound[node.id]
            for ch in ast.iter_child_nodes(node):
                if isinstance(ch, (ast.FunctionDef, ast.AsyncFunctionDef, ast.ClassDef)):
                    continue
                visit(ch, bound)

        for st in self.f.node.body:
            visit(st, {})

    @staticmethod
    def _bind_target(target, iter_expr, idx, bound):
        if isinstance(target, ast.Name):
            bound[target.id] = ('iter', iter_expr, idx)
        elif isinstance(target, (ast.Tuple, ast.List)):
            for i, el in enumerate(target.elts):
                PathResolver._bind_target(el, iter_expr, idx + (i,), bound)

    # ------------------------------------------------------------------
    def paths(self, e, node: Optional[CNode]) -> list[Path]:
        if self._depth > 25:
            return [Path(('unk', 'depth'))]
        self._depth += 1
        try:
            out = self._paths(e, node)
        finally:
            self._depth -= 1
        # dedupe preserving order
        seen = set()
        res = []
        for p in out:
            if p.key() not in seen:
                seen.add(p.key())
                res.append(p)
        return res

    def _stored_names(self):
        if getattr(self, '_stored', None) is None:
            self._stored = {n.id for n in own_nodes(self.f.node)
                            if isinstance(n, ast.Name) and isinstance(n.ctx, (ast.Store, ast.Del))}
        return self._stored

    def tpaths(self, e, node) -> list[Path]:
        ps = self.paths(e, node)
        self.last_sure = len(ps) == 1
        return ps

    # ------------------------------------------------------------------ value identity
    def value_id(self, e, node, depth=0):
        """Canonical identity of the object an expression denotes at a CFG node, after copy
        propagation through single reaching definitions; None if it cannot be named.
        Two expressions with equal value ids denote the same object (must-alias), provided the
        attribute steps are not re-bound in between (callers check that)."""
        if depth > 20:
            return None
        if isinstance(e, ast.Name):
            cb = self.comp_of_name.get(id(e))
            if cb is not None:
                return None
            if node is None:
                return None
            defs = self.cfg.reaching(node, e.id)
            if not defs:
                return ('global', e.id)
            if len(defs) != 1:
                return None
            d = defs[0]
            if d.kind == 'entry':
                return ('param', e.id)
            a = d.ast
            if isinstance(a, ast.Assign) and len(a.targets) == 1 and isinstance(a.targets[0], ast.Name):
                v = self.value_id(a.value, d, depth + 1)
                if v is not None:
                    return v
                return ('def', d.idx, e.id)
            if isinstance(a, ast.AnnAssign) and a.value is not None and isinstance(a.target, ast.Name):
                v = self.value_id(a.value, d, depth + 1)
                if v is not None:
                    return v
            return ('def', d.idx, e.id)
        if isinstance(e, ast.Attribute):
            b = self.value_id(e.value, node, depth + 1)
            if b is None:
                return None
            return b + ('.' + e.attr,)
        if isinstance(e, ast.Subscript) and isinstance(e.slice, ast.Constant):
            b = self.value_id(e.value, node, depth + 1)
            if b is None:
                return None
            return b + (f'[{e.slice.value!r}]',)
        if isinstance(e, ast.Call) and isinstance(e.func, ast.Name) and e.func.id == 'getattr' \
                and len(e.args) == 2:
            b = self.value_id(e.args[0], node, depth + 1)
            if b is None:
                return None
            k = e.args[1]
            if isinstance(k, ast.Constant):
                return b + ('.' + str(k.value),)
            kv = self.value_id(k, node, depth + 1)
            if kv is None:
                return None
            return b + (('getattr', kv),)
        if isinstance(e, ast.NamedExpr):
            return self.value_id(e.value, node, depth + 1)
        return None

    def must_path(self, e, node) -> Optional[Path]:
        ps = self.paths(e, node)
        if len(ps) == 1 and ps[0].root[0] != 'unk':
            return ps[0]
        return None

    def _iter_elem_paths(self, iter_expr, idx, node) -> list[Path]:
        """paths denoted by a loop/comprehension variable bound over iter_expr (tuple index idx)."""
        # dict.items(): (key, value)
        if isinstance(iter_expr, ast.Call) and isinstance(iter_expr.func, ast.Attribute) \
                and iter_expr.func.attr in ('items', 'values', 'keys') and not iter_expr.args:
            base = self.paths(iter_expr.func.value, node)
            attr = iter_expr.func.attr
            if attr == 'keys' or (attr == 'items' and idx[:1] == (0,)):
                return [Path(('fresh', getattr(iter_expr, 'lineno', 0)))]
            rest = idx[1:] if attr == 'items' else idx
            out = []
            for b in base:
                p = b.add(ELEM)
                for i in rest:
                    p = p.add(f'[{i}]')
                out.append(p)
            return out
        if isinstance(iter_expr, ast.Call) and isinstance(iter_expr.func, ast.Name) \
                and iter_expr.func.id == 'enumerate' and iter_expr.args:
            if idx[:1] == (0,):
                return [Path(('fresh', iter_expr.lineno))]
            return self._iter_elem_paths(iter_expr.args[0], idx[1:], node)
        if isinstance(iter_expr, ast.Call) and isinstance(iter_expr.func, ast.Name) \
                and iter_expr.func.id in ('list', 'tuple', 'sorted', 'reversed', 'set', 'iter') \
                and len(iter_expr.args) == 1:
            # snapshot of a container: the elements are still the same objects
            return self._iter_elem_paths(iter_expr.args[0], idx, node)
        if isinstance(iter_expr, ast.Call) and isinstance(iter_expr.func, ast.Name) \
                and iter_expr.func.id == 'filter' and len(iter_expr.args) == 2:
            return self._iter_elem_paths(iter_expr.args[1], idx, node)
        if isinstance(iter_expr, ast.Call) and isinstance(iter_expr.func, ast.Attribute) and iter_expr.func.attr == 'copy' \
                and not iter_expr.args and not (isinstance(iter_expr.func.value, ast.Name) and iter_expr.func.value.id == 'copy'):
            return self._iter_elem_paths(iter_expr.func.value, idx, node)       # x.copy(): same elements
        if isinstance(iter_expr, ast.Call) and isinstance(iter_expr.func, ast.Attribute) \
                and isinstance(iter_expr.func.value, ast.Name) and iter_expr.func.value.id == 'copy' \
                and iter_expr.func.attr == 'copy' and iter_expr.args:
            return self._iter_elem_paths(iter_expr.args[0], idx, node)          # copy.copy(x)
        if isinstance(iter_expr, (ast.List, ast.Tuple)) and not idx:
            out = []
            for el in iter_expr.elts:
                if isinstance(el, ast.Starred):
                    out += self._iter_elem_paths(el.value, idx, node)      # [*xs, ..]: the elements of xs
                else:
                    out += self.paths(el, node)
            return out
        if isinstance(iter_expr, (ast.GeneratorExp, ast.ListComp)) and not idx:
            return self.paths(iter_expr.elt, node)
        if isinstance(iter_expr, ast.Subscript) and isinstance(iter_expr.slice, ast.Slice):
            return self._iter_elem_paths(iter_expr.value, idx, node)
        ce = self._comp_elems(iter_expr, node) if not idx else None
        if ce is not None:
            return ce
        # zip(a, b, ...): position i of the loop target ranges over the elements of argument i
        if isinstance(iter_expr, ast.Call) and isinstance(iter_expr.func, ast.Name) and iter_expr.func.id == 'zip' \
                and idx and idx[0] < len(iter_expr.args):
            return self._iter_elem_paths(iter_expr.args[idx[0]], idx[1:], node)
        # a local bound once to a snapshot / wrapper of another collection: same elements
        if isinstance(iter_expr, ast.Name) and node is not None:
            defs = self.cfg.reaching(node, iter_expr.id)
            if len(defs) == 1 and defs[0].kind == 'stmt' and isinstance(defs[0].ast, (ast.Assign, ast.AnnAssign)) \
                    and defs[0].ast.value is not None:
                v = defs[0].ast.value
                inner = None
                if isinstance(v, ast.Call) and isinstance(v.func, ast.Name) and v.func.id in (
                        'list', 'tuple', 'sorted', 'reversed', 'set', 'frozenset') and len(v.args) == 1:
                    inner = v.args[0]
                elif isinstance(v, ast.Subscript) and isinstance(v.slice, ast.Slice):
                    inner = v.value
                elif isinstance(v, ast.Call) and isinstance(v.func, ast.Attribute) and v.func.attr == 'copy' and not v.args:
                    inner = v.func.value
                elif isinstance(v, ast.Call) and isinstance(v.func, ast.Name) and v.func.id == 'zip':
                    inner = v
                elif isinstance(v, ast.Call) and isinstance(v.func, ast.Name) and v.func.id == 'filter' and len(v.args) == 2:
                    inner = v.args[1]
                if inner is not None and self._depth < 20:
                    return self._iter_elem_paths(inner, idx, defs[0])
        # a local list filled by appends: its elements are what was appended
        if isinstance(iter_expr, ast.Name) and node is not None and not idx:
            defs = self.cfg.reaching(node, iter_expr.id)
            if defs and all(d.kind == 'stmt' and isinstance(d.ast, ast.Assign)
                            and isinstance(d.ast.value, ast.List) and not d.ast.value.elts for d in defs):
                out = []
                for n in own_nodes(self.f.node):
                    if isinstance(n, ast.Call) and isinstance(n.func, ast.Attribute) and n.args \
                            and isinstance(n.func.value, ast.Name) and n.func.value.id == iter_expr.id:
                        an = self.cfg.owner(n)
                        if n.func.attr == 'append':
                            out += self.paths(n.args[0], an)
                        elif n.func.attr == 'extend':
                            out += self._iter_elem_paths(n.args[0], (), an)
                if out:
                    return out
        out = []
        for b in self.paths(iter_expr, node):
            p = b.add(ELEM)
            for i in idx:
                p = p.add(f'[{i}]')
            out.append(p)
        return out

    def _comp_elems(self, e, node):
        """element paths of a local that was built by a comprehension (list / set / dict values)."""
        if not isinstance(e, ast.Name) or node is None:
            return None
        defs = self.cfg.reaching(node, e.id)
        if len(defs) != 1 or defs[0].kind != 'stmt' or not isinstance(defs[0].ast, (ast.Assign, ast.AnnAssign)):
            return None
        v = defs[0].ast.value
        if isinstance(v, (ast.ListComp, ast.SetComp, ast.GeneratorExp)):
            return self.paths(v.elt, defs[0])
        if isinstance(v, ast.DictComp):
            return self.paths(v.value, defs[0])
        # a local snapshot: `xs = [*ys]`, `xs = [a, b]`, `xs = list(ys)`, `xs = ys[:]`, `xs = tuple(ys)`
        if isinstance(v, (ast.List, ast.Tuple)) and v.elts:
            return self._iter_elem_paths(v, (), defs[0])
        if isinstance(v, ast.Call) and isinstance(v.func, ast.Name) and v.func.id in ('list', 'tuple', 'sorted', 'set') \
                and len(v.args) == 1:
            return self._iter_elem_paths(v.args[0], (), defs[0])
        if isinstance(v, ast.Subscript) and isinstance(v.slice, ast.Slice):
            return self._iter_elem_paths(v.value, (), defs[0])
        return None

    def _def_paths(self, name: str, d: CNode, node) -> list[Path]:
        """paths bound to `name` by definition node d."""
        a = d.ast
        if d.kind == 'entry':
            return [Path(('param', name))]
        if d.kind == 'for':
            idx = self._target_index(a.target, name)
            if idx is None:
                return [Path(('unk', name))]
            return self._iter_elem_paths(a.iter, idx, d)
        if d.kind == 'with':
            return [Path(('unk', name))]
        if d.kind == 'case':
            return [Path(('unk', name))]
        if d.kind == 'handler':
            return [Path(('fresh', d.lineno))]
        if d.kind in ('if', 'while', 'match'):
            test = a.test if d.kind != 'match' else a.subject
            for sub in ast.walk(test):
                if isinstance(sub, ast.NamedExpr) and sub.target.id == name:
                    return self.paths(sub.value, d)
            return [Path(('unk', name))]
        if isinstance(a, ast.Assign):
            for t in a.targets:
                if isinstance(t, ast.Name) and t.id == name:
                    return self.paths(a.value, d)
                idx = self._target_index(t, name)
                if idx is not None:
                    return self._unpack(a.value, idx, d)
            for sub in ast.walk(a.value):
                if isinstance(sub, ast.NamedExpr) and sub.target.id == name:
                    return self.paths(sub.value, d)
            return [Path(('unk', name))]
        if isinstance(a, ast.AnnAssign):
            if a.value is not None:
                return self.paths(a.value, d)
            return [Path(('unk', name))]
        if isinstance(a, ast.AugAssign):
            # x += ...: same object for lists; keep previous paths
            prev = []
            visiting = self.__dict__.setdefault('_aug_visiting', set())
            if (name, d.idx) in visiting:
                return []           # several `x += ..` in one loop reach one another: the cycle adds nothing
            visiting.add((name, d.idx))
            try:
                for dd in self.cfg.reaching(d, name):
                    if dd is not d:
                        prev += self._def_paths(name, dd, d)
            finally:
                visiting.discard((name, d.idx))
            return prev or [Path(('fresh', d.lineno))]
        if isinstance(a, (ast.Import, ast.ImportFrom)):
            return [Path(('global', name))]
        if isinstance(a, (ast.FunctionDef, ast.AsyncFunctionDef, ast.ClassDef)):
            return [Path(('global', name))]
        # walrus inside an expression statement
        for sub in ast.walk(a):
            if isinstance(sub, ast.NamedExpr) and isinstance(sub.target, ast.Name) and sub.target.id == name:
                return self.paths(sub.value, d)
        return [Path(('unk', name))]

    @staticmethod
    def _target_index(target, name, idx=()):
        if isinstance(target, ast.Name):
            return idx if target.id == name else None
        if isinstance(target, (ast.Tuple, ast.List)):
            for i, el in enumerate(target.elts):
                r = PathResolver._target_index(el, name, idx + (i,))
                if r is not None:
                    return r
        return None

    def _unpack(self, value, idx, d) -> list[Path]:
        if isinstance(value, (ast.Tuple, ast.List)) and idx and idx[0] < len(value.elts):
            if len(idx) == 1:
                return self.paths(value.elts[idx[0]], d)
            return self._unpack(value.elts[idx[0]], idx[1:], d)
        if isinstance(value, ast.Call):
            return self._call_paths(value, d, idx)
        out = []
        for b in self.paths(value, d):
            p = b
            for i in idx:
                p = p.add(f'[{i}]')
            out.append(p)
        return out

    def _paths(self, e, node) -> list[Path]:
        if isinstance(e, ast.Name):
            cb = self.comp_of_name.get(id(e))
            if cb is not None:
                if cb[0] == 'lambda':
                    return [Path(('unk', e.id))]
                return self._iter_elem_paths(cb[1], cb[2], node)
            if node is None:
                return [Path(('unk', e.id))]
            defs = self.cfg.reaching(node, e.id)
            if not defs and e.id in self._stored_names():
                # bound in this function (walrus in the same statement, conditional path...): a local
                return [Path(('unk', e.id))]
            if not defs:
                # closure variable of the enclosing function, module global, builtin
                g = self.f.parent
                while g is not None:
                    if e.id in g.params:
                        return [Path(('param', e.id))]
                    penv = self.prog.env(g)
                    if e.id in penv.vars:
                        return [Path(('param', e.id))]
                    g = g.parent
                return [Path(('global', e.id))]
            out = []
            for d in defs:
                out += self._def_paths(e.id, d, node)
            return out
        if isinstance(e, ast.Attribute):
            bt = self.env.type_of(e.value)
            if bt[0] == 'cls':
                c = self.prog.classes.get(bt[1])
                if c is not None and e.attr in c.properties:
                    return [Path(('fresh', e.lineno))]
            return [p.add(e.attr) for p in self.paths(e.value, node)]
        if isinstance(e, ast.Subscript):
            if isinstance(e.slice, ast.Slice):
                return [Path(('fresh', e.lineno))]
            ce = self._comp_elems(e.value, node)
            if ce is not None:
                return ce
            k = e.slice
            if isinstance(k, ast.Constant) and isinstance(k.value, str):
                step = f"['{k.value}']"
            elif isinstance(k, ast.Constant) and isinstance(k.value, int):
                bt = self.env.type_of(e.value)
                step = f'[{k.value}]' if bt[0] == 'tuple' else ELEM
            else:
                step = ELEM
            return [p.add(step) for p in self.paths(e.value, node)]
        if isinstance(e, ast.Call) and isinstance(e.func, ast.Attribute) and e.func.attr in ('pop', 'popleft') \
                and isinstance(e.func.value, ast.Name) and len(e.args) <= 1 and not e.keywords:
            # work-list idiom: `xs.pop()` hands out an element of xs
            t = self.env.type_of(e.func.value)
            if t[0] in ('list', 'set'):
                got = self._iter_elem_paths(e.func.value, (), node)
                if got:
                    return got
        if isinstance(e, ast.Call):
            return self._call_paths(e, node, None)
        if isinstance(e, ast.IfExp):
            return self.paths(e.body, node) + self.paths(e.orelse, node)
        if isinstance(e, ast.BoolOp):
            out = []
            for v in e.values:
                out += self.paths(v, node)
            return out
        if isinstance(e, ast.NamedExpr):
            return self.paths(e.value, node)
        if isinstance(e, ast.Starred):
            return self.paths(e.value, node)
        if isinstance(e, ast.Await):
            return self.paths(e.value, node)
        # literals, comprehensions, arithmetic, comparisons, f-strings, lambdas
        return [Path(('fresh', getattr(e, 'lineno', 0)))]

    def _call_paths(self, e: ast.Call, node, idx) -> list[Path]:
        fn = e.func
        line = e.lineno
        fresh = [Path(('fresh', line))]
        if isinstance(fn, ast.Name):
            n = fn.id
            if n == 'getattr' and e.args:
                key = const_str(e.args[1]) if len(e.args) > 1 else None
                out = [p.add(key if key else DYN) for p in self.paths(e.args[0], node)]
                if len(e.args) > 2:
                    out += self.paths(e.args[2], node)
                return out
            if n == 'next' and e.args:
                g = e.args[0]
                out = []
                if isinstance(g, (ast.GeneratorExp, ast.ListComp)):
                    out = self.paths(g.elt, node)
                elif isinstance(g, ast.Call) and isinstance(g.func, ast.Name) and g.func.id == 'iter' and g.args:
                    out = self._iter_elem_paths(g.args[0], (), node)
                elif isinstance(g, ast.Call) and isinstance(g.func, ast.Name) and g.func.id == 'filter' \
                        and len(g.args) == 2:
                    out = self._iter_elem_paths(g.args[1], (), node)
                else:
                    out = [Path(('unk', 'next'))]
                if len(e.args) > 1:
                    out = out + self.paths(e.args[1], node)
                return out
            if n in SNAPSHOT_FUNCS or n in FRESH_BUILTINS:
                return fresh
        if isinstance(fn, ast.Attribute):
            if isinstance(fn.value, ast.Name) and fn.value.id == 'copy' and fn.attr in ('copy', 'deepcopy'):
                return fresh
            if fn.attr in ('copy', 'keys', 'values', 'items', 'as_dict', 'strip', 'split', 'format',
                           'join', 'lower', 'upper', 'getText', 'intersection', 'union', 'difference'):
                res = self.env.resolve_call(e)
                if res[0] == 'method':
                    return fresh
            if fn.attr in ('get', 'pop', 'setdefault'):
                res = self.env.resolve_call(e)
                ce = self._comp_elems(fn.value, node) if res[0] == 'method' else None
                if ce is not None:
                    return ce + (self.paths(e.args[1], node) if len(e.args) > 1 else [])
                if res[0] == 'method':
                    out = []
                    k = e.args[0] if e.args else None
                    ks = const_str(k) if k is not None else None
                    bt = self.env.type_of(fn.value)
                    for p in self.paths(fn.value, node):
                        out.append(p.add(f"['{ks}']" if ks is not None and bt[0] != 'list' else ELEM))
                    if len(e.args) > 1:
                        out += self.paths(e.args[1], node)
                    return out
        res = self.env.resolve_call(e)
        if res[0] == 'ctor':
            return fresh
        if res[0] == 'func':
            callee = res[1]
            cf = self.an.facts.get(callee.qname)
            out = []
            if cf is not None and not cf.done:
                return []        # bottom: least fixed point over recursion
            if cf is not None and cf.returns:
                recv = fn.value if isinstance(fn, ast.Attribute) else None
                if recv is not None and self.env.type_of(recv)[0] == 'clsobj':
                    recv = None
                amap = self.an.arg_map(e, callee, recv)
                for r in cf.returns:
                    item = r
                    if isinstance(r, tuple):
                        if idx is None or not idx or r[0] != idx[0]:
                            if idx is None:
                                continue
                            continue
                        item = r[1]
                    elif idx:
                        # non-tuple return but caller unpacks: element of the returned thing
                        if isinstance(item, Path):
                            for i in idx:
                                item = item.add(ELEM)
                    if item == 'FRESH' or item == 'NONE':
                        out.append(Path(('fresh', line)))
                    elif item == 'UNK':
                        out.append(Path(('ret', line, callee.short, idx[0] if idx else None)))
                    elif isinstance(item, Path):
                        if item.root[0] == 'global':
                            out.append(item)
                            continue
                        a = amap.get(item.root[1])
                        if a is None:
                            out.append(Path(('ret', line, callee.short, idx[0] if idx else None)))
                        elif a == 'FRESH':
                            out.append(Path(('fresh', line)))
                        else:
                            for b in self.paths(a, node):
                                out.append(b.extend(item.steps))
                if idx and not any(isinstance(r, tuple) for r in cf.returns) and not out:
                    out.append(Path(('ret', line, callee.short, idx[0])))
            if not out:
                out = [Path(('ret', line, callee.short, idx[0] if idx else None))]
            return out
        if res[0] == 'builtin':
            if res[1] == 'pjs_ctor':
                return fresh
            return [Path(('ret', line, res[1], idx[0] if idx else None))]
        if res[0] == 'method':
            return [Path(('ret', line, '.' + res[2], idx[0] if idx else None))]
        return [Path(('ret', line, '?', idx[0] if idx else None))]
