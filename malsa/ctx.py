"""Shared analysis context: one parse + one summary computation per process."""
from __future__ import annotations

from .core import Program, Func, AnalysisError
from .effects import Analyzer, PathResolver
from .cfg import cfg_of


class Ctx:
    def __init__(self, repo: str = None):
        self.prog = Program(repo)
        self.an = Analyzer(self.prog)
        self._rule_cache: dict = {}
        from . import props
        props.derive(self.prog, self.an)

    def R(self, f: Func) -> PathResolver:
        return self.an.resolver(f)

    def cfg(self, f: Func):
        return cfg_of(f)

    def func(self, short: str) -> Func:
        return self.prog.func(short)

    def relpath(self, f: Func) -> str:
        return f.module.relpath
