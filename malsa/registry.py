"""Rule registry, per-property configuration, slot tables, MANIFEST generation."""
from __future__ import annotations

import importlib
import json
import os

from .core import AnalysisError
from .report import VERIF

RULES = {
    'R1': ('r01_iter', 'ITER: no structural removal from a container while a for walks it'),
    'R2': ('r02_pair', 'PAIR/DETACH: mirrored relations move together; removal cleans referrers'),
    'R3': ('r03_index', 'INDEX/RESET: derived state follows the primary container'),
    'R4': ('r04_key', 'KEY: explicit id honoured, guard tests the stored key, names unique'),
    'R5': ('r05_atomic', 'ATOMIC: Model mutators validate before they commit'),
    'R6': ('r06_fresh', 'FRESH: nothing reachable from the loaded specification is mutated'),
    'R7': ('r07_copy', 'COPY: hand-written deep copies complete, independent, re-linked'),
    'R9': ('r09_err', 'ERR: syntax errors and dangling references surface as errors'),
    'R12': ('r12_handlers', 'HANDLERS: every opcode has a handler in every dispatcher'),
    'R13': ('r13_grammar', 'GRAMMAR: the visitor consumes everything the grammar can produce'),
    'R14': ('r14_term', 'TERM: evaluator recursion/loops have a structural termination argument'),
    'R19': ('r19_flow', 'FLOW/T9: evaluator skeleton and set-operator construction'),
    'R17': ('r17_tables', 'TABLE: decision tables of small pure functions equal the reference tables'),
    'R15': ('r15_loaders', 'LOADERS: every input element reaches the model; entry points one tuple per asset'),
    'R16': ('r16_txn', 'TXN: neo4j ingestion: node per element, mirrored relationships, commit'),
    'R18': ('r18_sym', 'SYM: both orientations of an association treated alike and explicitly'),
    'R10': ('r10_det', 'DET/MODREF/PURE: no hash-order or random source; inputs not written; queries pure'),
    'R20': ('r20_own', 'OWN: inheritance links read only by closures; attackers reach only own-graph nodes'),
    'R23': ('r23_shadow', 'SHADOW: a local index built from a container is kept in step with it'),
    'R22': ('r22_memo', 'MEMO: a memo cache is keyed by everything the value depends on'),
    'R8': ('r08_codec', 'CODEC: writer and reader tables of the dict codecs agree'),
    'R25': ('r25_bugclass', 'BUGCLASS: falsy test of ids/statuses, mutated default argument, exhausted generator, process-global state'),
}


def rule_module(rn):
    return importlib.import_module(f'.rules.{RULES[rn][0]}', __package__)


def rule_title(rn):
    return RULES[rn][1]


# --------------------------------------------------------------------------- slot tables
# Frozen by reading (DESIGN section 2); re-derived from the source on each run.  A difference is
# "tables out of date" (exit 2), never a property verdict.
SLOT_FIELDS = {
    'AttackGraph': ['nodes', 'attackers', '_id_to_node', '_full_name_to_node', '_id_to_attacker',
                    'next_node_id', 'next_attacker_id', 'model', 'lang_graph'],
    'AttackGraphNode': ['children', 'parents', 'compromised_by', 'id', 'asset', 'name', 'type',
                        'ttc', 'tags', 'extras', 'is_viable', 'is_necessary', 'defense_status',
                        'existence_status', 'mitre_info', 'attributes'],
    'Attacker': ['reached_attack_steps', 'entry_points', 'id', 'name'],
    'Model': ['assets', 'associations', 'attackers', 'asset_ids', 'asset_names',
              '_type_to_association', 'next_id', 'lang_classes_factory'],
    'AttackerAttachment': ['entry_points', 'id', 'name'],
    'LanguageGraph': ['assets', 'associations', 'attack_steps', '_lang_spec', 'metadata'],
    'LanguageGraphAsset': ['super_assets', 'sub_assets', 'associations', 'attack_steps', 'name'],
    'LanguageGraphAttackStep': ['children', 'parents', 'name', 'type', 'asset', 'ttc', 'attributes'],
    'LanguageGraphAssociation': ['name', 'left_field', 'right_field'],
}
SLOT_FUNCS = [
    'AttackGraph.add_node', 'AttackGraph.remove_node', 'AttackGraph.add_attacker',
    'AttackGraph.remove_attacker', 'AttackGraph.regenerate_graph', 'AttackGraph._generate_graph',
    'AttackGraph.attach_attackers', 'AttackGraph.__deepcopy__', 'AttackGraph._to_dict',
    'AttackGraph._from_dict', 'AttackGraphNode.__deepcopy__', 'AttackGraphNode.to_dict',
    'Attacker.__deepcopy__', 'Attacker.compromise', 'Attacker.undo_compromise', 'Attacker.to_dict',
    '_process_step_expression',
    'Model.add_asset', 'Model.remove_asset', 'Model.remove_asset_from_association',
    'Model.add_association', 'Model.remove_association', 'Model.add_attacker',
    'Model._validate_association', 'Model.get_associated_assets_by_field_name',
    'Model._to_dict', 'Model._from_dict',
    'LanguageGraph._generate_graph', 'LanguageGraph._get_attacks_for_asset_type',
    'LanguageGraph.process_step_expression', 'LanguageGraph.reverse_dep_chain',
    'MalCompiler.compile', 'malVisitor.visitMal',
    'calculate_viability_and_necessity', 'prune_unviable_and_unnecessary_nodes',
    'propagate_viability_from_node', 'propagate_necessity_from_node',
    'evaluate_viability', 'evaluate_necessity',
    'is_node_traversable_by_attacker', 'get_attack_surface', 'update_attack_surface_add_nodes',
    'create_attack_graph', 'ingest_model', 'ingest_attack_graph', 'get_model',
    'load_model_from_scad_archive', 'load_model_from_version_0_0_39',
]


def check_slot_tables(ctx):
    prog = ctx.prog
    problems = []
    for cn, fields in SLOT_FIELDS.items():
        c = prog.classes.get(cn)
        if c is None:
            problems.append(f'class {cn} missing')
            continue
        for fl in fields:
            if fl not in c.fields:
                problems.append(f'{cn}.{fl} missing')
    for fn in SLOT_FUNCS:
        if not prog.has_func(fn):
            problems.append(f'function {fn} missing')
    if problems:
        raise AnalysisError('slot tables out of date (anchors renamed or removed): '
                            + '; '.join(problems[:8]))


# --------------------------------------------------------------------------- properties
COMMON_ASSUMPTIONS = [
    'python_jsonschema_objects, PyYAML, json, antlr4 runtime and py2neo behave as documented '
    '(trusted base, never analysed)',
    'no implicit exception is control flow (only explicit raise statements are)',
    'assets/associations are pjs objects modelled by a fixed attribute table; getattr with a '
    'computed name is one abstract field',
    'method calls on receivers outside the package whose name is not a container mutator are '
    'side-effect free',
]

PROPS: dict[str, dict] = {}


R22_CLAUSE = ('R22: no memo / cache in the functions this property depends on is keyed by less than the cached value is '
              'computed from (parameters, loop variables, attribute paths of the keyed object)')
R25_CLAUSE = ('R25: in the functions this property depends on, no id / defense status is tested by truthiness '
              '(0 and 0.0 are values), no mutable default argument is mutated, no generator is iterated twice, and no '
              'result is kept in process-global state (module-level cache, lru_cache, shared compiler object)')


def _p(pid, title, rules, decided, undecided, anchors=(), floor=1, extra_assumptions=(), also=(), includes=()):
    decided = list(decided) + ([R22_CLAUSE] if 'R22' in rules and not any(d.startswith('R22') for d in decided) else []) \
        + ([R25_CLAUSE] if 'R25' in rules else [])
    PROPS[pid] = {
        'title': title,
        'rules': list(rules),
        'anchors': list(anchors),
        'also': list(also),
        'includes': list(includes),     # properties this one contains by its own statement (C13: "... still satisfies C09")
        'floor': floor,
        'decided': list(decided),
        'undecided': list(undecided),
        'explanation': (
            'Static analysis of the current source; decides these structural clauses (necessary '
            'conditions of the property), not the behaviour itself: '
            + ' | '.join(decided)
            + ' || NOT decided (runtime matters): ' + ' | '.join(undecided)),
        'assumptions': COMMON_ASSUMPTIONS + list(extra_assumptions),
    }


_p('C01', 'Attack-graph edges are exactly the MAL meaning of the step expressions',
   ['R1', 'R2', 'R12', 'R8', 'R14', 'R19', 'R22', 'R18', 'R20', 'R6', 'R17', 'R10', 'R15', 'R4', 'R13', 'R25'],
   decided=['R1: the evaluator never removes from a list it iterates (set operators, sub-type '
            'filter, recursion through callee summaries)',
            'R2: every child link created by generation is mirrored by the converse parent link on '
            'the same two nodes',
            'R12: the evaluator has a case for each of the 9 expression opcodes the compiler can emit',
            'R14: every recursive call descends structurally (or is the variable expansion), the transitive '
            'closure is a visited-guarded worklist: generation terminates on cyclic and self-linked models',
            'R19/T9: per opcode the data flow of the evaluator (same targets for both set operands; union / '
            'intersection / difference built from genuine membership tests; collect feeds lhs targets into rhs; '
            'field navigates from every target; subType receiver/argument; variable lookup key)',
            'R8vii: the child lookup name is built with the same template as the full-name index key',
            'R18: field navigation (model and language graph) tests each orientation on its own: field on one '
            'side and source on the other side; nothing is inferred through an else',
            'R22: the variable lookup is not memoised under a key that ignores the asset type',
            "R6 / R17 T10 on _get_attacks_for_asset_type: the expressions a step resolves to are the fold of the ancestors' declarations, never aliased between types"],
   undecided=['that the evaluator implements MAL set semantics for every nesting',
              'variable resolution by the first target type', 'transitive start-asset convention'],
   anchors=[('R1', '_process_step_expression'), ('R2', 'AttackGraph._generate_graph'),
            ('R12', '_process_step_expression'), ('R8', 'AttackGraph._generate_graph'),
            ('R14', '_process_step_expression'), ('R19', '_process_step_expression')], floor=30)

_p('C02', 'One node per asset x step, with attributes faithful to model and language',
   ['R3', 'R4', 'R12', 'R8', 'R17', 'R20', 'R19', 'R14', 'R6', 'R10', 'R22', 'R18', 'R2', 'R25'],
   decided=['R3: every node entering the node list is registered in both lookup indexes and '
            'advances the id counter (and symmetrically on removal)',
            'R4: add_node honours an explicit id by an is-None test, its duplicate test checks the '
            'id that is actually stored, the counter is max(id+1, counter); the asset name that '
            'add_asset records was tested for uniqueness after its last assignment (full names '
            'are asset name + step name)',
            "R14 / R19 / R20 on the evaluator: existence status is the evaluator's answer (transitive sub-type test, closure+); R6 NODEFRESH"],
   undecided=['value-level equality of node attributes', 'pjs default/validation behaviour'],
   anchors=[('R3', 'AttackGraph.add_node'), ('R4', 'AttackGraph.add_node'), ('R4', 'Model.add_asset')])

_p('C03', 'Step inheritance resolves override/extend correctly and the lookup is pure',
   ['R6', 'R3', 'R22', 'R17', 'R20', 'R10', 'R13', 'R25'],
   decided=['R6: no in-place mutation anywhere in the package has a receiver that may be owned by the '
            'loaded specification (whole-package points-to; deepcopy results tracked per key), so '
            'lookups, language-graph and attack-graph generation leave the specification unmodified '
            'and cannot make one type see another type\'s expressions through shared lists',
            'R3: LanguageGraph.regenerate_graph re-initialises what __init__ initialises',
            'R17 T10: the fold equals the reference table: ancestors first; absent -> own declaration; no reaches '
            '-> untouched; -> replaces the whole entry (type, TTC, tags, meta, reaches); +> appends own '
            'expressions after the inherited ones',
            'R22: no lookup memo is keyed by less than it depends on'],
   undecided=[
              'equality of results across call orders beyond what purity implies'],
   anchors=[('R6', 'LanguageGraph._get_attacks_for_asset_type'),
            ('R3', 'LanguageGraph.regenerate_graph')], floor=5)

_p('C04', 'The MAL compiler\'s output is the language the source text denotes',
   ['R13', 'R9', 'R17', 'R10', 'R22', 'R25'],
   decided=["R13 c'/e/k/l (rounds 8-11): operator / operand alignment in chains; the dot scan gives up only at tokens outside `expr`; a single-atom multiplicity means n..n and the lower bound never reads the upper; absent optional children yield nothing, repeated children are taken over unfiltered and unsorted, keys filled from token text are not re-assigned", 'R9 a11-a13: one file per lexer run, per-file compiler state not read after an include, every normal return of compile() is the visitor result', 'R25 ASCIISTREAM / GROUPBYDICT / ITERMUT on the compiler and visitor',
            'R13a: every grammar rule has a visitor method (or is a documented inline rule)',
            'R13b: children the grammar can repeat without bound are consumed in full',
            'R13c: operator chains read the operator between each pair of operands',
            'R13d: every rule reference / content token of a grammar rule is consumed by its visitor',
            'R9a: included files are compiled through the same checked entry point',
            'R13c: an operator token of a chain with alternatives is never picked by its own ordinal (ctx.PLUS(i))'],
   undecided=['precedence/associativity of the produced trees', 'field-vs-step classification by token scanning',
              'multiplicity normalisation', 'include merge order', 'equality with malc output'],
   anchors=[('R13', 'malVisitor.visitTtcterm'), ('R13', 'malVisitor.visitExpr'), ('R13', 'malVisitor.visitStep'),
            ('R13', 'malVisitor.visitAssociation')], floor=40)

_p('C05', 'The instance model stays coherent under any history of edits',
   ['R1', 'R2', 'R3', 'R4', 'R5', 'R18', 'R10', 'R22', 'R17', 'R25'],
   decided=['R3 KEY / ADDS / REMOVES (rounds 8-10): indexes emptied under the attribute they are filled under, add_* registers on every normal path, remove_* removes the given object', 'R4d: the name recorded in asset_names is the name the asset ends up with', 'R25 LOOKUPSHORT / SHAREDINLOOP / NAMEFOLD on the model',
            'R1: no Model mutator removes from a list it walks',
            'R18: neighbours through a field: both orientations tested explicitly (self-links included)',
            "R5': remove_asset calls the raising remove_asset_from_association once per DISTINCT association",
            'R4: explicit asset/attacker ids (0 included) are honoured, the id guard tests the stored '
            'id, recorded names are unique',
            'R5: no explicit raise is reachable after a write to model state in any Model mutator',
            'R2: association-field membership and asset.associations change together (P5); '
            'removing an asset/association cleans association fields, entry points, member lists',
            'R3: assets <-> asset_ids, asset_names and associations <-> _type_to_association move '
            'together in every mutator'],
   undecided=['equality with an abstract reference model for whole histories', 'pjs == semantics'],
   anchors=[('R1', 'Model.remove_asset'), ('R2', 'Model.remove_asset'),
            ('R2', 'Model.remove_asset_from_association'), ('R2', 'Model.remove_association'),
            ('R3', 'Model.add_asset'), ('R3', 'Model.remove_asset'),
            ('R3', 'Model.add_association'), ('R3', 'Model.remove_association'),
            ('R4', 'Model.add_asset'), ('R4', 'Model.add_attacker'), ('R5', 'Model.add_asset'),
            ('R5', 'Model.remove_asset_from_association')])

_p('C06', 'A model can only hold what the language allows',
   ['R17', 'R8', 'R18', 'R20', 'R6', 'R10', 'R22', 'R3', 'R13', 'R25'],
   decided=['R17 T11a: per asset the schema entry has id/type, allOf to every direct super asset, and for every '
            'defense step a number property with minimum 0, maximum 1 and default 1.0 iff its TTC is Enabled else 0.0',
            'R17 T11b: per association an array field per end typed by $ref to the declared asset of that end, '
            'maxItems iff a maximum exists; same-named associations get name_left_right sub-entries under oneOf',
            'R17 T11c: get_association_by_signature tries the direct orientation before the flipped one and raises '
            'when neither exists; R8vii: it builds the sub-entry name with the template the generator uses',
            'R17 T12: _validate_association rejects identical association, repeated asset inside a field and an '
            'already linked pair - no check can be skipped; add_association validates before any write',
            'R18: association_exists_between_assets constrains both ends'],
   undecided=['that python_jsonschema_objects enforces the schema (trusted third party)',
              'subtype acceptance through allOf'],
   anchors=[('R17', 'LanguageClassesFactory._generate_assets'), ('R17', 'LanguageClassesFactory._generate_associations'),
            ('R17', 'LanguageClassesFactory.get_association_by_signature'), ('R17', 'Model._validate_association'),
            ('R17', 'Model.add_association')], floor=5)

_p('C07', 'Saving and loading a model preserves it (JSON and YAML)',
   ['R8', 'R4', 'R15', 'R10', 'R22', 'R17', 'R2', 'R25'],
   decided=["R8 viii / ii' / ii''' (rounds 8-11): serialised text written unedited, no allow_unicode / allow_nan=False, truthiness omission guards only for containers, restored keys are written", 'R15 OPTIONS: every loader passes the same options to add_asset / add_association / add_attacker',
            'R8 i-ii: every key Model._to_dict (with asset/association/attacker_to_dict) writes is read by '
            '_from_dict and every key read unguarded is written unconditionally',
            'R8 iii: conversions invert per declared field type; asset / attacker ids that travelled as mapping '
            'keys are int()-ed before use',
            'R8 iv: serialised mappings are keyed by guarded-unique keys; R8 v: sibling serialisers agree; '
            'R8 vi: .json/.yml/.yaml tables of save and load agree and dispatch to the right library',
            'R4: explicit ids (0 included) are honoured by add_asset / add_attacker',
            'R8 viii: the json / yaml calls of file_utils carry no value-rewriting hook and hand the loaded object back as is; R8 iii: no lossy writer conversion; R22: no per-model cache keyed by less than the value depends on'],
   undecided=['YAML/JSON library behaviour on exotic strings', 'value equality of the reloaded model'],
   anchors=[('R8', 'Model._from_dict'), ('R8', 'Model._to_dict'), ('R8', 'Model.load_from_file'),
            ('R4', 'Model.add_asset'), ('R4', 'Model.add_attacker')], floor=30)

_p('C08', 'Viability/necessity labels are the greatest fixed point, in any node order',
   ['R17', 'R12', 'R1', 'R10', 'R22', 'R20', 'R8', 'R25'],
   decided=['R20 LABELOWN: is_viable / is_necessary are written only by the analysis, the node constructor and the '
            'graph reader; anywhere else only the top value True may be stored (the analysis only ever lowers labels)',
            'R17 T1/T2: per-type viability and necessity equations (exist / notExist / defense from status, or = '
            'exists / and = forall over parents and dually) equal the reference tables',
            'R17 T3/T4: propagation recomputes or-children by an exists-fold, forces and-children false (viability) '
            'and dually for necessity, recurses exactly on change; the TTC gate is applied both where a node '
            'transmits and where a child re-reads its parents (order independence of and-children)',
            'R17 T5: only exist / notExist / defense nodes are evaluated from status, propagation starts exactly '
            'from non-viable / non-necessary ones',
            'R12: evaluate_viability / evaluate_necessity have a case for each of the 5 step types'],
   undecided=['that chaotic iteration reaches the greatest fixed point on every graph (lattice argument)',
              'self-loops on or-nodes'],
   anchors=[('R17', 'evaluate_viability'), ('R17', 'evaluate_necessity'),
            ('R17', 'propagate_viability_from_node'), ('R17', 'propagate_necessity_from_node'),
            ('R17', 'calculate_viability_and_necessity')], floor=5)

_p('C09', 'Attack-graph structure and lookup indexes stay consistent in any history',
   ['R1', 'R2', 'R3', 'R4', 'R7', 'R20', 'R17', 'R10', 'R22', 'R15', 'R25'],
   decided=['R3 KEY / ADDS / REMOVES and R2 DETACH via reached_attack_steps / DELEGATE / ATTACH (rounds 8-11)', 'R25 NAMEFOLD / ITERMUT / SHAREDINLOOP / PROTOTYPE on the attack graph',
            'R1: no loop of the attack-graph layer removes from the list it walks',
            'R4: node/attacker ids: explicit id honoured, duplicate test on the stored id, counters monotone',
            'R7: the graph deep copy carries indexes and counters and re-links children, parents and '
            'compromised_by through the memo',
            'R2: children/parents and compromised_by/reached_attack_steps are updated pairwise; '
            'remove_node / remove_attacker clean every referrer (neighbours, attackers, entry points)',
            'R3: nodes <-> _id_to_node, _full_name_to_node, next_node_id and attackers <-> '
            '_id_to_attacker, next_attacker_id move together; regenerate_graph re-initialises '
            'everything __init__ initialises',
            'R4e: an object is filed in a lookup dictionary only after the fields its key is read from (also through full_name) got their final value'],
   undecided=['whole-history equivalence regenerated = fresh beyond RESET = INIT'],
   anchors=[('R1', 'AttackGraph.remove_node'), ('R1', 'AttackGraph.remove_attacker'),
            ('R2', 'AttackGraph.remove_node'), ('R2', 'AttackGraph._generate_graph'),
            ('R2', 'AttackGraph.remove_attacker'),
            ('R3', 'AttackGraph.add_node'), ('R3', 'AttackGraph.remove_node'),
            ('R3', 'AttackGraph.add_attacker'), ('R3', 'AttackGraph.remove_attacker'),
            ('R3', 'AttackGraph.regenerate_graph'), ('R4', 'AttackGraph.add_node'),
            ('R4', 'AttackGraph.add_attacker'), ('R7', 'AttackGraph.__deepcopy__')])

_p('C10', 'Saving and loading an attack graph preserves it',
   ['R8', 'R4', 'R2', 'R10', 'R22', 'R17', 'R25'],
   decided=['R8 i-ii: all node / attacker keys written by to_dict are read by _from_dict (compromised_by is a '
            'documented redundancy), unguarded reads are always written',
            'R8 iii: str(float)<->float, str(bool)<->== \'True\', list<->list, ids used as mapping keys are '
            're-int()ed (also inside add_attacker); each value lands in the field it came from',
            'R8 iv: attack_steps keyed by unique full name, children/parents/entry points by unique node id',
            'R8 vi: extension tables agree',
            'R4: explicit node / attacker ids are honoured, duplicates rejected on the stored id',
            'R2 DETACH: removing a node leaves no attacker entry point / reached step referring to it (a dangling id '
            'makes the saved file unloadable)',
            'R8 viii: the file layer adds no value-rewriting hook; R8 iii: no lossy writer conversion (round, '
            'formatting with a precision)'],
   undecided=['value equality of the reloaded graph', 'file-library behaviour'],
   anchors=[('R8', 'AttackGraph._from_dict'), ('R8', 'AttackGraphNode.to_dict'), ('R8', 'Attacker.to_dict'),
            ('R8', 'AttackGraph.load_from_file'), ('R4', 'AttackGraph.add_attacker'),
            ('R4', 'AttackGraph.add_node')], floor=40)

_p('C11', 'Attackers and nodes always agree on what is compromised',
   ['R1', 'R2', 'R7', 'R20', 'R8', 'R17', 'R15', 'R10', 'R22', 'R25'],
   decided=['R1: remove_attacker does not shrink the reached list while walking it',
            'R2: compromise/undo_compromise update node.compromised_by and '
            'attacker.reached_attack_steps together on the same two objects; remove_attacker '
            'cleans compromised_by',
            'R7c: the graph copy re-links compromised_by from memo-mapped attackers',
            'R20 OWNNODES: attach_attackers / add_attacker compromise and record only nodes taken from this '
            'graph\'s own containers (lookup by full name / id), never model-side caches',
            'R8vii: the entry-point lookup name uses the same template as the full-name index key',
            'R17 T14-T16: is_compromised_by is membership in compromised_by; compromise / undo_compromise change both lists together, guarded by that test'],
   undecided=['pjs/name lookups'],
   anchors=[('R1', 'AttackGraph.remove_attacker'), ('R2', 'Attacker.compromise'),
            ('R2', 'Attacker.undo_compromise'), ('R2', 'AttackGraph.remove_attacker'),
            ('R7', 'AttackGraph.__deepcopy__'), ('R20', 'AttackGraph.attach_attackers'),
            ('R8', 'AttackGraph.attach_attackers')])

_p('C12', 'Attack-surface queries follow their definition; incremental = recomputed',
   ['R17', 'R12', 'R10', 'R23', 'R22', 'R1', 'R25'],
   decided=['R17 T7: is_node_traversable_by_attacker equals: viable and (or-step, or and-step all of whose '
            'necessary parents THIS attacker compromised)',
            'R17 T8: is_enabled_defense / is_available_defense and the two defense surfaces equal their definitions; '
            'get_attack_surface and update_attack_surface_add_nodes filter children by the same traversability '
            'predicate and the same de-duplication test, over reached steps resp. the supplied nodes',
            'R12: the traversability dispatcher has a case for every step type',
            'R11 PURE: no query function has an effect on a graph / node / attacker field (only the '
            'caller-supplied surface list grows)'],
   undecided=['incremental = recomputed as a set equation over histories'],
   anchors=[('R17', 'is_node_traversable_by_attacker'), ('R17', 'get_attack_surface'),
            ('R17', 'update_attack_surface_add_nodes'), ('R17', 'get_defense_surface')], floor=6)

_p('C13', 'Pruning removes exactly the non-viable or unnecessary attack steps',
   ['R1', 'R2', 'R3', 'R17', 'R10', 'R4', 'R7', 'R20', 'R22', 'R25'],
   decided=['R1: the pruning loop does not remove from the node list it walks (every prunable '
            'node is visited)',
            'R2/R3 on remove_node: neighbours, attackers, entry points and both indexes are cleaned',
            'R17 T6: a node is removed iff type in {or, and} and (not viable or not necessary), through '
            'remove_node, over a snapshot, with no write to a label',
            'R10 LABELS: no assignment to is_viable / is_necessary is reachable from pruning or node removal'],
   undecided=['that remove_node leaves a C09-consistent graph for every graph shape'],
   anchors=[('R1', 'prune_unviable_and_unnecessary_nodes'), ('R2', 'AttackGraph.remove_node'),
            ('R3', 'AttackGraph.remove_node')],
   also=[('R2', 'AttackGraph.remove_node'), ('R3', 'AttackGraph.remove_node')], includes=['C09'])

_p('C14', 'A deep copy of an attack graph is equal and fully independent',
   ['R7', 'R10', 'R22', 'R20', 'R25'],
   decided=['R7a: every field of node / attacker / graph receives its value in the copy, scalars and '
            'shared fields (asset, model, lang_graph) from the same field of the original',
            'R7b: every mutable container field gets an independent value (empty literal, deepcopy with '
            'memo, or shallow copy of scalars); containers of graph objects thread the memo',
            'R7c: children, parents, compromised_by are re-linked by the graph copy from memo-mapped copies',
            'R7d: node list, attackers, lookup dictionaries and counters are carried over',
            'R7e: each __deepcopy__ consults the memo and registers its copy',
            'R7b: deep copies of free-form containers (extras, ttc, attributes) thread the memo of the enclosing copy'],
   undecided=['behaviour of copy.deepcopy itself', 'value equality of serialised content'],
   anchors=[('R7', 'AttackGraphNode.__deepcopy__'), ('R7', 'Attacker.__deepcopy__'),
            ('R7', 'AttackGraph.__deepcopy__')], floor=20)

_p('C16', 'Graph generation is deterministic and does not disturb its inputs',
   ['R6', 'R22', 'R10', 'R20', 'R17', 'R25'],
   decided=['R6: generation, analysis and lookups never mutate an object that may be owned by the loaded '
            'language specification',
            'R10 DET: no function reachable from compile / language graph / model load / generation / attach / '
            'analysis / save takes an iteration order from a hash set, uses id()/hash() as a sort key, or calls a '
            'random / time / directory-listing source',
            'R10 MODREF: generation, attach, analysis, pruning and graph loading write nothing reachable from '
            'the model or language except asset.attack_step_nodes',
            'R22: memo caches are keyed by everything the value depends on',
            'R6 NODEFRESH: the mutable data of every generated node comes from a deep-fresh call made inside the per-asset loop, never from a field of the language graph or model; R25 GLOBALSTATE: no module-level cache / lru_cache / shared compiler object'],
   undecided=['third-party internals (pjs, yaml, json ordering)', 'cross-process equality as such'],
   anchors=[('R6', 'LanguageGraph._get_attacks_for_asset_type'), ('R6', 'AttackGraph._generate_graph')],
   floor=5)

_p('C17', 'Malformed MAL source is rejected, never half-compiled',
   ['R9', 'R17', 'R10', 'R22', 'R25'],
   decided=['R9 a8 / a11 / a12 / a13 (rounds 7-11): whole input consumed (LT(1)), one file per lexer run, per-file state, compile() returns the visitor result; tree.exception alone is no error test; a lexer-only listener is no parser handling',
            'R9a: the parse tree reaches the visitor only under one of the accepted error idioms (raising '
            'error listener installed before the start rule / bail strategy / tested error count); the parser '
            'is constructed nowhere else; includes go through MalCompiler.compile',
            'R9a: a listener whose syntaxError can return normally is no handling unless the error count / its state is tested after the parse; the compile error is not caught around the start rule'],
   undecided=['that the ANTLR runtime reports every grammar violation to the listener (trusted)'],
   anchors=[('R9', 'MalCompiler.compile')], floor=2)

_p('C15', 'Language graph mirrors the language and over-approximates every attack graph',
   ['R2', 'R3', 'R9', 'R12', 'R18', 'R22', 'R20', 'R14', 'R17', 'R10', 'R19', 'R25'],
   decided=['R2: super_assets/sub_assets and step children/parents are created pairwise (P3, P4)',
            'R9b: lookups of super asset, association ends, sub-type, target asset and target step are '
            'each followed by a test whose failing branch raises',
            'R12: process_step_expression, reverse_dep_chain and DependencyChain.to_dict have a case for '
            'every opcode / dependency kind that can be produced',
            'R18: association lookup by fields/assets and field typing of step expressions treat both orientations '
            'alike, each test constrains the field on one side AND the source type on the other; the '
            'already-created lookup identifies an association by name and both end assets',
            'R3: LanguageGraph.regenerate_graph re-initialises what __init__ initialises',
            'R17 T13: an asset type lists its ancestors\' associations and every association naming it on either side',
            'R20 CLOSUREFN: is_subasset_of / get_all_subassets / get_all_superassets follow the right link, transitively, '
            'and include the asset itself',
            'R14(2): the attack-graph closure of field* is non-reflexive (visited set starts empty), as the language '
            'graph types it'],
   undecided=['the over-approximation clause (relates two evaluators)',
              'static typing of step expressions'],
   anchors=[('R2', 'LanguageGraph._generate_graph'), ('R3', 'LanguageGraph.regenerate_graph'),
            ('R9', 'LanguageGraph._generate_graph'), ('R12', 'LanguageGraph.process_step_expression'),
            ('R12', 'LanguageGraph.reverse_dep_chain')])


_p('C18', 'Legacy model loaders agree with the native loader',
   ['R15', 'R4', 'R8', 'R22', 'R20', 'R10', 'R17', 'R25'],
   decided=['R15 EVERY: in the 0.0.39 loader and the securiCAD loader every iteration over assets, defenses, '
            'association fields, associations, attackers and entry points reaches a model sink (add_asset / '
            'setattr / add_association / add_attacker / entry point) or leaves by return/raise - no element is '
            'silently skipped (the native loader is held to the same rule)',
            'R15 ENTRY: entry points go through add_entry_point or one tuple per key of the entry_points mapping',
            'R4: the shared adders honour explicit ids (0, negative) ; R8iii: ids that travelled as mapping keys are '
            'int()-ed in the 0.0.39 loader; R8vii: association sub-entry names use one template'],
   undecided=['the securiCAD field/asset swap convention', 'value equality with the native model'],
   anchors=[('R15', 'load_model_from_version_0_0_39._process_model'), ('R15', 'load_model_from_scad_archive'),
            ('R8', 'load_model_from_version_0_0_39._process_model')], floor=8)

_p('C19', 'Neo4j export is isomorphic to what is exported, and import inverts it',
   ['R16', 'R15', 'R10', 'R22', 'R8', 'R17', 'R20', 'R4', 'R25'],
   decided=['R16a: one database node per asset / attack step, collected under a guarded-unique key',
            'R16b: relationships are accumulated without loss; each linked pair yields two relationships with '
            'swapped end points and the two field labels; one relationship per child edge',
            'R16c: everything built reaches Subgraph, and begin -> create -> commit on every path',
            'R16d: the node properties get_model reads are the ones ingest_model writes',
            'R15: get_model transfers every row into the model and adds entry points per asset',
            'R22: lookups memoised during import are keyed by all their arguments',
            'R15: in get_model only the already-exists guard may skip add_association; R25: no generator is consumed twice while building relationships'],
   undecided=['py2neo behaviour', 'label direction semantics of the Cypher queries'],
   anchors=[('R16', 'ingest_model'), ('R16', 'ingest_attack_graph'), ('R15', 'get_model')], floor=8)


# --------------------------------------------------------------------------- manifest
LEVEL_TEXT = (
    'Repository-specific static analysis (pure ast; class model, resolved call graph, per-function '
    'CFG with dominators, access-path effect summaries, reaching definitions). It decides, for ALL '
    'executions of the analysed functions, the structural clauses listed in the evidence file - '
    'genuine necessary conditions of the property - and reports the exact construct that breaks '
    'one. It does not prove the behavioural property as a whole; the undecided remainder is listed '
    'per property in DESIGN.md section 5 and in the evidence.')
LEVEL_NOTE = (
    'Clause-level claim. Trusted: third-party libraries (pjs, PyYAML, json, antlr4, py2neo); '
    'only explicit raise is exceptional control flow; must-alias = value identity after copy '
    'propagation plus field disjointness. A clause whose construct is not in a shape the rule reads is '
    'listed as unproven in the evidence (not a verdict: exit 0 unless something else is violated); an '
    'anchored function that has vanished gives exit 2 (ANALYSIS-INCOMPLETE) - neither is ever a pass for '
    'that clause, and neither is a VIOLATION. Decision tables (R17) compare canonical forms with reference '
    'functions: tier A written from the property statements, tier B transcribed from the reviewed code of '
    'one commit (a regression oracle for functions no structural rule pins down, DESIGN 12.11).')

NOT_BUILT_REASON = {}


def write_manifest():
    props_file = os.path.join(VERIF, 'properties.jsonl')
    all_ids = []
    with open(props_file, encoding='utf-8') as f:
        for line in f:
            line = line.strip()
            if line:
                all_ids.append(json.loads(line)['id'])
    checks = []
    for pid in all_ids:
        if pid not in PROPS:
            continue
        info = PROPS[pid]
        checks.append({
            'property_id': pid,
            'quick_cmd': f'./check {pid} --tier quick',
            'thorough_cmd': f'./check {pid} --tier thorough',
            'evidence_file': f'/verif/evidence/{pid}.json',
            'replay_cmd_template': f'./check {pid} --replay {{path}}',
            'engine': 'malsa',
            'level_claimed': {
                'category': 'other',
                'text': LEVEL_TEXT + ' Clauses decided here: ' + ' | '.join(info['decided']),
                'design_ref': f'DESIGN.md section 5 ({pid}), section 4 ({", ".join(info["rules"])})',
            },
            'level_note': LEVEL_NOTE + ' Undecided: ' + ' | '.join(info['undecided']),
            'technique': 'static analysis: custom ast/CFG/effect-summary checkers ('
                         + ', '.join(f'{r} {RULES[r][1].split(":")[0]}' for r in info['rules']) + ')',
        })
    na = []
    for pid in all_ids:
        if pid not in PROPS:
            na.append({'property_id': pid,
                       'reason': NOT_BUILT_REASON.get(
                           pid, 'structural checker for this property not built yet '
                                '(planned rules in DESIGN.md section 5); nothing is claimed')})
    manifest = {
        'version': 1,
        'setup_cmd': '/venv/bin/python -m malsa setup',
        'hooks': {
            'guard': 'MAL_TOOLBOX_VERIF',
            'enable': 'no hooks: the checks read the source of /repo, nothing is instrumented',
            'baseline_off_cmd': 'cd /repo && /venv/bin/python -m pytest -q -p no:cacheprovider --timeout=900',
            'source_commits': [],
            'add_only': True,
        },
        'engines': [{
            'name': 'malsa',
            'path': '/verif/malsa',
            'serves_properties': [c['property_id'] for c in checks],
            'kind_free_text': 'pure-stdlib static analyser specific to mal-toolbox '
                              '(ast, class model, call graph, CFG, effect summaries, rule catalogue)',
        }],
        'checks': checks,
        'notes': 'All checks are static: they parse /repo on every run and never import or execute '
                 'maltoolbox. Exit 2 = ANALYSIS-ERROR/INCOMPLETE. Known findings: '
                 '/verif/known_findings.json. See DESIGN.md.',
        'not_applicable': na,
    }
    with open(os.path.join(VERIF, 'MANIFEST.json'), 'w', encoding='utf-8') as f:
        json.dump(manifest, f, indent=1)
        f.write('\n')
    print(f'MANIFEST.json written: {len(checks)} checks, {len(na)} not_applicable')
