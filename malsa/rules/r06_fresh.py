"""R6 FRESH - nothing reachable from the loaded language specification is mutated.

Whole-package points-to analysis (pointsto.py).  Sources: ``<x>._lang_spec`` and the ``lang``
parameter of LanguageGraph.__init__ (summary object SPEC, closed under reads).  Sinks: every
in-place mutation in the package (subscript / attribute store, del, augmented assignment, mutator
method call).  A sink whose receiver MAY be the SPEC object is a violation.  Sanitisers:
copy.deepcopy (deep-fresh, with later stores tracked per key), list()/dict()/copy.copy()/[...]
(fresh container, elements shared - sharing without mutation is not flagged).
A built-in positive fixture must be reported on every run.
"""
from __future__ import annotations

import ast
import os

from ..cfg import cfg_of
from ..core import Program, AnalysisError, stmt_text, own_nodes
from ..pointsto import PointsTo, SPEC
from ..report import Inst

RULE = 'R6'
PROPS = ('C03', 'C16', 'C01', 'C02')
FIXTURE = os.path.join(os.path.dirname(os.path.dirname(os.path.abspath(__file__))), 'fixtures', 'r06')


def spec_sinks(pt: PointsTo):
    out = []
    for s in pt.sinks:
        cfg = cfg_of(s.func)
        pt._node = cfg.owner(s.recv) or cfg.node_of(s.node) or cfg.owner(s.node)
        objs = pt.ev(s.func, s.recv)
        out.append((s, objs))
    pt._node = None
    return out


def _fixture_ok():
    fp = Program(FIXTURE)
    fpt = PointsTo(fp)
    hits = [(s.func.short, s.op) for s, objs in spec_sinks(fpt) if SPEC in objs]
    return hits == [('Lang.resolve', 'extend')], hits


MUTABLE_NODE_FIELDS = ('ttc', 'tags', 'attributes', 'extras', 'mitre_info')


class _Prov:
    """where does the value of an expression come from?  -> set of tags
    ('fresh', text) result of a deep-copying / deep-fresh call, ('heap', text) an object read from a field of an
    existing object, ('const',), ('unknown', text)."""

    def __init__(self, ctx, pt, f):
        self.ctx, self.pt, self.f = ctx, pt, f
        self.cfg = ctx.cfg(f)
        self.calls = []       # CFG nodes of the fresh calls found

    def of(self, e, node, comp=None, depth=0):
        comp = comp or {}
        if depth > 12:
            return {('unknown', 'depth')}
        if isinstance(e, ast.Constant):
            return {('const',)}
        if isinstance(e, ast.Subscript):
            return self.of(e.value, node, comp, depth + 1)
        if isinstance(e, ast.IfExp):
            return self.of(e.body, node, comp, depth + 1) | self.of(e.orelse, node, comp, depth + 1)
        if isinstance(e, (ast.List, ast.Tuple, ast.Set)):
            out = {('const',)}
            for x in e.elts:
                out |= self.of(x, node, comp, depth + 1)
            return out
        if isinstance(e, ast.Dict):
            out = {('const',)}
            for x in e.values:
                out |= self.of(x, node, comp, depth + 1)
            return out
        if isinstance(e, (ast.DictComp, ast.ListComp, ast.SetComp, ast.GeneratorExp)):
            c2 = dict(comp)
            for g in e.generators:
                for nm in ast.walk(g.target):
                    if isinstance(nm, ast.Name):
                        c2[nm.id] = (g.iter, node)
            val = e.value if isinstance(e, ast.DictComp) else e.elt
            return self.of(val, node, c2, depth + 1)
        if isinstance(e, ast.Attribute):
            base = e
            while isinstance(base, (ast.Attribute, ast.Subscript)):
                base = base.value
            return {('heap', stmt_text(e, 60))}
        if isinstance(e, ast.Name):
            if e.id in comp:
                it, n2 = comp[e.id]
                c3 = {k: v for k, v in comp.items() if k != e.id}
                return self.of(it, n2, c3, depth + 1)
            if e.id in self.f.params:
                return {('heap', e.id)}
            defs = self.cfg.reaching(node, e.id) if node is not None else []
            out = set()
            for d in defs:
                if d.kind == 'stmt' and isinstance(d.ast, (ast.Assign, ast.AnnAssign)) and getattr(d.ast, 'value', None) is not None:
                    tg = d.ast.targets[0] if isinstance(d.ast, ast.Assign) else d.ast.target
                    if isinstance(tg, ast.Name):
                        out |= self.of(d.ast.value, d, comp, depth + 1)
                    else:
                        out |= self.of(d.ast.value, d, comp, depth + 1)     # tuple unpacking: any component
                elif d.kind == 'for':
                    out |= self.of(d.ast.iter, d, comp, depth + 1)
                else:
                    out.add(('unknown', f'definition of {e.id}'))
            return out or {('unknown', e.id)}
        if isinstance(e, ast.Call):
            fn = e.func
            if isinstance(fn, ast.Attribute) and isinstance(fn.value, ast.Name) and fn.value.id == 'copy' \
                    and fn.attr == 'deepcopy':
                self.calls.append(node)
                return {('fresh', 'copy.deepcopy')}
            if isinstance(fn, ast.Attribute) and fn.attr in ('items', 'values', 'get', 'copy', 'pop', 'setdefault') :
                return self.of(fn.value, node, comp, depth + 1)
            if isinstance(fn, ast.Name) and fn.id in ('dict', 'list', 'tuple', 'sorted', 'reversed', 'set') and e.args:
                return self.of(e.args[0], node, comp, depth + 1)      # shallow: the elements are the same objects
            if isinstance(fn, ast.Name) and fn.id in ('str', 'int', 'float', 'bool', 'len', 'getattr'):
                return {('const',)}
            # package function: deep-fresh iff every object the points-to analysis returns is a DF object
            self.pt._node = node
            try:
                objs = self.pt.ev(self.f, e)
            finally:
                self.pt._node = None
            if objs and any(o == SPEC for o in objs):
                return {('heap', 'the loaded specification via ' + stmt_text(fn, 40))}
            if objs and all(o[0] in ('DF', 'A') for o in objs):
                # transitive contents: deep-fresh objects and containers allocated by the callee that nothing
                # outside this closure holds on to
                # contents down to the per-node data (result -> step record -> ttc / tags / meta -> mitre)
                closure = set(objs)
                level = set(objs)
                for _ in range(3):
                    nxt = set()
                    for o in level:
                        for k, vals in (self.pt.heap.get(o) or {}).items():
                            nxt |= vals
                        if o[0] == 'DF':
                            nxt |= self.pt.read({o}, '*')
                    nxt -= closure
                    closure |= nxt
                    level = nxt
                if SPEC in closure:
                    return {('heap', 'the loaded specification via ' + stmt_text(fn, 40))}
                alloc_here = [o for o in closure if o[0] == 'A' and o[1] == self.f.short]
                held = None
                for holder, edges in self.pt.heap.items():
                    if holder in closure:
                        continue
                    for k, vals in edges.items():
                        hit = [v for v in vals if v in closure and v[0] == 'A']
                        if hit:
                            held = (holder, k)
                            break
                    if held:
                        break
                if held is None and not alloc_here:
                    self.calls.append(node)
                    return {('fresh', stmt_text(fn, 50))}
                if held is not None:
                    return {('heap', f'{held[0][1]}:{held[0][2]} [{held[1]}] (kept by the callee) via {stmt_text(fn, 40)}')}
            return {('unknown', stmt_text(e, 50))}
        return {('unknown', type(e).__name__)}


def _node_fresh(ctx, pt) -> list[Inst]:
    """NODEFRESH: the mutable per-node data (ttc, tags, attributes ...) a generated node receives is created for
    that node: it comes from a deep-fresh call made inside the per-asset loop, never from a field of the
    language graph / model / another node.  Otherwise all assets of one type - and every graph generated from
    the same language graph - hold the very same dictionaries (a change through one node shows in all)."""
    prog = ctx.prog
    f0 = prog.func('AttackGraph._generate_graph')
    insts = []
    props = ('C16', 'C14', 'C02')

    def collect(g):
        cfg_ = ctx.cfg(g)
        st, ctor_names = [], set()
        ctor = {'AttackGraphNode'}
        if g.cls is not None and g.cls.name == 'AttackGraphNode' and g.params and g.params[0] == 'cls':
            ctor.add('cls')
        for n in own_nodes(g.node):
            if isinstance(n, ast.Call) and isinstance(n.func, ast.Name) and n.func.id in ctor:
                for kw in n.keywords:
                    if kw.arg in MUTABLE_NODE_FIELDS:
                        st.append((kw.arg, kw.value, cfg_.owner(n)))
            if isinstance(n, ast.Assign) and len(n.targets) == 1 and isinstance(n.targets[0], ast.Name) \
                    and isinstance(n.value, ast.Call) and isinstance(n.value.func, ast.Name) \
                    and n.value.func.id in ctor:
                ctor_names.add(n.targets[0].id)
        for n in own_nodes(g.node):
            if isinstance(n, ast.Assign):
                for tg in n.targets:
                    if isinstance(tg, ast.Attribute) and isinstance(tg.value, ast.Name) and tg.value.id in ctor_names \
                            and tg.attr in MUTABLE_NODE_FIELDS:
                        st.append((tg.attr, n.value, cfg_.node_of(n)))
        return st
    f = f0
    stores = collect(f0)
    if not stores:
        # the construction was moved out of _generate_graph (a generator method, a classmethod of the node class):
        # look at what _generate_graph reaches; what the values are made from is then seen through parameters only
        for g in ctx.an.reachable([f0]).values():
            if g is f0 or g.module.generated or 'attackgraph' not in g.module.relpath:
                continue
            st = collect(g)
            for field, val, node in st:
                construct = f'NODEFRESH: node.{field} is created for this node'
                tags = _Prov(ctx, pt, g).of(val, node)
                # what hangs off a PARAMETER of the helper is whatever the caller passed (the fresh per-asset table on
                # today's tree): only a field of self / a global is known to be shared
                heap = sorted(t[1] for t in tags if t[0] == 'heap' and t[1].split('.')[0].split('[')[0] not in g.params[1:]
                              and t[1].split('.')[0].split('[')[0] not in (g.params[:1] if g.self_name is None else []))
                if heap:
                    insts.append(Inst(
                        RULE, g.short, construct, 'violation',
                        msg=(f"node.{field} = '{stmt_text(val, 50)}' is the very object held in '{heap[0]}' (no copy on "
                             f"the way): every node generated for that asset type shares one mutable {field} object"),
                        file=g.module.relpath, line=val.lineno, props=props))
                else:
                    insts.append(Inst(RULE, g.short, construct, 'unproven',
                                      msg=f'node built in {g.short}; origin of the value not followed across the call',
                                      file=g.module.relpath, line=val.lineno, props=props))
        if not insts:
            insts.append(Inst(RULE, f0.short, 'NODEFRESH: node construction', 'unproven',
                              msg='no AttackGraphNode construction with ttc / tags / attributes found in or below '
                                  '_generate_graph', file=f0.module.relpath, line=f0.node.lineno, props=props))
        return insts
    cfg = ctx.cfg(f)
    rel = f.module.relpath
    for field, val, node in stores:
        construct = f'NODEFRESH: node.{field} is created for this node'
        pv = _Prov(ctx, pt, f)
        tags = pv.of(val, node)
        heap = sorted(t[1] for t in tags if t[0] == 'heap')
        unk = sorted(t[1] for t in tags if t[0] == 'unknown')
        if heap:
            insts.append(Inst(
                RULE, f.short, construct, 'violation',
                msg=(f"node.{field} = '{stmt_text(val, 50)}' is the very object held in '{heap[0]}' (no copy on the "
                     f"way): every node generated for that asset type, in this and in every other graph built from "
                     f"the same language graph, shares one mutable {field} object"),
                file=rel, line=val.lineno, props=props))
            continue
        if unk:
            insts.append(Inst(RULE, f.short, construct, 'unproven', msg=f'origin not resolved: {unk[:2]}', file=rel,
                              line=val.lineno, props=props))
            continue
        if not any(t[0] == 'fresh' for t in tags):
            insts.append(Inst(RULE, f.short, construct, 'ok', msg='constant / literal', file=rel, line=val.lineno,
                              props=props, nontrivial=False))
            continue
        # the fresh call runs once per asset: it sits in every loop that encloses the construction up to the
        # loop over the model's assets
        outer = node.loop
        chain = []
        while outer is not None:
            chain.append(outer)
            outer = outer.loop
        per_asset = chain[-1] if chain else None
        bad = None
        for cn in pv.calls:
            l = cn.loop if cn is not None else None
            inside = False
            while l is not None:
                if l is per_asset:
                    inside = True
                l = l.loop
            if cn is not None and cn is per_asset:
                inside = True
            if per_asset is not None and not inside:
                bad = cn
        if bad is not None:
            insts.append(Inst(
                RULE, f.short, construct, 'violation',
                msg=(f"node.{field} comes from '{stmt_text(bad.ast, 70)}', evaluated once outside the loop over the "
                     f"model's assets: all assets handled by that loop receive the same {field} objects"),
                file=rel, line=val.lineno, props=props))
        else:
            insts.append(Inst(RULE, f.short, construct, 'ok',
                              msg='from ' + ', '.join(sorted({t[1] for t in tags if t[0] == 'fresh'})) + ' inside the per-asset loop',
                              file=rel, line=val.lineno, props=props))
    return insts


def run(ctx) -> list[Inst]:
    ok, hits = _fixture_ok()
    if not ok:
        raise AnalysisError(f'R6 positive fixture not reproduced (got {hits}): points-to engine broken')
    prog = ctx.prog
    pt = PointsTo(prog)
    ctx.pointsto = pt
    # the specification must actually flow into the resolver (no vacuous pass)
    f = prog.func('LanguageGraph._get_attacks_for_asset_type')
    flows = any(SPEC in v for (q, n, i), v in pt.pts.items() if q == f.qname and n in ('step', 'asset'))
    insts = []
    if not flows:
        # the fold was moved into a nested function / works on a per-call index of the specification: the points-to
        # seeds (locals `step` / `asset` of the method itself) do not see the flow.  Not decided - unless the method does
        # not touch the specification at all any more, which is a vanished anchor.
        if not any(isinstance(x, ast.Attribute) and x.attr == '_lang_spec' for x in ast.walk(f.node)):
            raise AnalysisError('R6: the specification no longer flows into _get_attacks_for_asset_type '
                                '(source seeds out of date)')
        insts.append(Inst(RULE, f.short, 'SPECFLOW: the specification reaches the fold through locals the analysis follows',
                          'unproven', msg='the fold runs in a nested function / over a per-call index: aliasing of the '
                                          'specification is not followed there', file=f.module.relpath, line=f.node.lineno,
                          props=('C03', 'C16')))
    for s, objs in spec_sinks(pt):
        rel = s.func.module.relpath
        construct = f'{s.op} on {stmt_text(s.recv, 80)}'
        gobjs = [o for o in objs if o[0] == 'G']
        if gobjs and SPEC not in objs:
            insts.append(Inst(
                RULE, s.func.short, construct, 'violation',
                msg=(f"'{stmt_text(s.node, 80)}' mutates a container that may be (part of) the module-level literal "
                     f"defined at {gobjs[0][1]}:{gobjs[0][2]}: that object exists once per process (a shallow copy "
                     f"shares the nested containers), so what one instance / one call writes is seen by all later ones"),
                file=rel, line=s.node.lineno, props=tuple(dict.fromkeys(PROPS + ('C06',) ))))
            continue
        if SPEC in objs:
            others = sorted(o[0] + (f'@{o[2]}' if len(o) > 2 else '') for o in objs if o != SPEC)
            insts.append(Inst(
                RULE, s.func.short, construct, 'violation',
                msg=(f"'{stmt_text(s.node)}' mutates an object that may be owned by the loaded language "
                     f"specification (receiver may be SPEC; other candidates: {others}): the "
                     f"specification changes as a side effect of a lookup"),
                file=rel, line=s.node.lineno, props=PROPS))
        else:
            insts.append(Inst(RULE, s.func.short, construct, 'ok', file=rel, line=s.node.lineno,
                              props=PROPS, nontrivial=bool(objs),
                              msg='receiver: ' + ', '.join(sorted({o[0] for o in objs})) if objs else
                              'receiver outside the tracked heap'))
    insts += _node_fresh(ctx, pt)
    return insts
