"""R6 FRESH - nothing reachable from the loaded language specification is mutated.

Whole-package points-to analysis (pointsto.py).  Sources: ``<x>._lang_spec`` and the ``lang``
parameter of LanguageGraph.__init__ (summary object SPEC, closed under reads).  Sinks: every
in-place mutation in the package (subscript / attribute store, del, augmented assignment, mutator
method call).  A sink whose receiver MAY be the SPEC object is a violation.  Sanitisers:
copy.deepcopy (deep-fresh, with later stores tracked per key), list()/dict()/copy.copy()/[...]
(fresh container, elements shared - sharing without mutation is not flagged).
A built-in positive fixture must be reported on every run.
"""
from __future__ import annotations

import ast
import os

from ..cfg import cfg_of
from ..core import Program, AnalysisError, stmt_text
from ..pointsto import PointsTo, SPEC
from ..report import Inst

RULE = 'R6'
PROPS = ('C03', 'C16', 'C01', 'C02')
FIXTURE = os.path.join(os.path.dirname(os.path.dirname(os.path.abspath(__file__))), 'fixtures', 'r06')


def spec_sinks(pt: PointsTo):
    out = []
    for s in pt.sinks:
        cfg = cfg_of(s.func)
        pt._node = cfg.owner(s.recv) or cfg.node_of(s.node) or cfg.owner(s.node)
        objs = pt.ev(s.func, s.recv)
        out.append((s, objs))
    pt._node = None
    return out


def _fixture_ok():
    fp = Program(FIXTURE)
    fpt = PointsTo(fp)
    hits = [(s.func.short, s.op) for s, objs in spec_sinks(fpt) if SPEC in objs]
    return hits == [('Lang.resolve', 'extend')], hits


def run(ctx) -> list[Inst]:
    ok, hits = _fixture_ok()
    if not ok:
        raise AnalysisError(f'R6 positive fixture not reproduced (got {hits}): points-to engine broken')
    prog = ctx.prog
    pt = PointsTo(prog)
    ctx.pointsto = pt
    # the specification must actually flow into the resolver (no vacuous pass)
    f = prog.func('LanguageGraph._get_attacks_for_asset_type')
    flows = any(SPEC in v for (q, n, i), v in pt.pts.items() if q == f.qname and n in ('step', 'asset'))
    if not flows:
        raise AnalysisError('R6: the specification no longer flows into _get_attacks_for_asset_type '
                            '(source seeds out of date)')
    insts = []
    for s, objs in spec_sinks(pt):
        rel = s.func.module.relpath
        construct = f'{s.op} on {stmt_text(s.recv, 80)}'
        if SPEC in objs:
            others = sorted(o[0] + (f'@{o[2]}' if len(o) > 2 else '') for o in objs if o != SPEC)
            insts.append(Inst(
                RULE, s.func.short, construct, 'violation',
                msg=(f"'{stmt_text(s.node)}' mutates an object that may be owned by the loaded language "
                     f"specification (receiver may be SPEC; other candidates: {others}): the "
                     f"specification changes as a side effect of a lookup"),
                file=rel, line=s.node.lineno, props=PROPS))
        else:
            insts.append(Inst(RULE, s.func.short, construct, 'ok', file=rel, line=s.node.lineno,
                              props=PROPS, nontrivial=bool(objs),
                              msg='receiver: ' + ', '.join(sorted({o[0] for o in objs})) if objs else
                              'receiver outside the tracked heap'))
    return insts
