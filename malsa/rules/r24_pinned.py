"""R24 PINNED - the small state mutators, predicates, evaluators and visitor methods behave like
their reviewed reference implementations.

For each listed function the canonical decision table (genf.py) is compared with the table of the
function of the same qualified name in ``reference/pinned_ref.py`` - a reference implementation that
was reviewed against the property statements when the defects of DESIGN 12.4 were repaired, and
that is parsed, never executed.  Tables are equal modulo everything genf normalises (branch order,
match vs if/elif, loops vs any/all/comprehensions, pure-helper extraction, local renames, logging,
commuting container effects).  Verdicts: equal -> ok; differs using only names the reference knows
-> violation (a behavioural drift of a property-carrying function); differs with new vocabulary or
constructs outside the table language -> unproven.
This rule decides "no behavioural drift from the reviewed reference" for these functions; the
structural rules (R1-R23) decide their clauses independently.
"""
from __future__ import annotations

import ast
import os

from ..core import AnalysisError
from ..genf import table_of, Unsupported, diff_tables, names_in, opaque_names, imprecise_kinds
from ..report import Inst

RULE = 'R24'
REF = os.path.join(os.path.dirname(os.path.dirname(os.path.abspath(__file__))), 'reference', 'pinned_ref.py')

PINNED = [
    # attack graph state (C09, C11, C02, C13)
    ('AttackGraph.add_node', ('C02', 'C09')),
    ('AttackGraph.remove_node', ('C09', 'C13')),
    ('AttackGraph.add_attacker', ('C09', 'C11', 'C10')),
    ('AttackGraph.remove_attacker', ('C09', 'C11')),
    ('AttackGraph.regenerate_graph', ('C09',)),
    ('AttackGraph.attach_attackers', ('C11',)),
    ('AttackGraph._generate_graph', ('C01', 'C02')),
    ('AttackGraph.get_node_by_id', ('C02', 'C09')),
    ('AttackGraph.get_node_by_full_name', ('C02', 'C09')),
    ('AttackGraph.get_attacker_by_id', ('C09',)),
    ('Attacker.compromise', ('C11',)),
    ('Attacker.undo_compromise', ('C11',)),
    ('AttackGraphNode.full_name', ('C02',)),
    ('AttackGraphNode.is_compromised_by', ('C11', 'C12')),
    ('AttackGraphNode.is_compromised', ('C11',)),
    ('AttackGraphNode.compromise', ('C11',)),
    ('AttackGraphNode.undo_compromise', ('C11',)),
    # evaluator (C01)
    ('_process_step_expression', ('C01',)),
    # model (C05, C06)
    ('Model.add_asset', ('C05', 'C02')),
    ('Model.remove_asset', ('C05',)),
    ('Model.remove_asset_from_association', ('C05',)),
    ('Model.remove_association', ('C05',)),
    ('Model.add_attacker', ('C05',)),
    ('Model.remove_attacker', ('C05',)),
    ('Model.get_asset_by_id', ('C05', 'C07')),
    ('Model.get_asset_by_name', ('C05', 'C10')),
    ('Model.get_attacker_by_id', ('C05',)),
    ('Model.association_exists_between_assets', ('C05', 'C06')),
    ('Model.get_associated_assets_by_field_name', ('C01', 'C05')),
    ('Model.get_asset_defenses', ('C07', 'C06')),
    ('AttackerAttachment.get_entry_point_tuple', ('C05',)),
    ('AttackerAttachment.add_entry_point', ('C05',)),
    ('AttackerAttachment.remove_entry_point', ('C05',)),
    # language graph (C15, C03, C01)
    ('LanguageGraphAsset.is_subasset_of', ('C15', 'C01')),
    ('LanguageGraphAsset.get_all_subassets', ('C15',)),
    ('LanguageGraphAsset.get_all_superassets', ('C15',)),
    ('LanguageGraphAsset.get_all_common_superassets', ('C15',)),
    ('LanguageGraphAssociation.contains_fieldname', ('C15',)),
    ('LanguageGraphAssociation.contains_asset', ('C15',)),
    ('LanguageGraphAssociation.get_opposite_fieldname', ('C15',)),
    ('LanguageGraphAssociation.get_opposite_asset', ('C15',)),
    ('LanguageGraph.process_step_expression', ('C15',)),
    ('LanguageGraph.reverse_dep_chain', ('C15',)),
    ('LanguageGraph._generate_graph', ('C15',)),
    ('LanguageGraph.get_asset_by_name', ('C15', 'C01')),
    ('LanguageGraph.get_association_by_fields_and_assets', ('C15', 'C18')),
    ('LanguageGraph._get_associations_for_asset_type', ('C15',)),
    ('LanguageGraph._get_variable_for_asset_type_by_name', ('C01', 'C03')),
    ('LanguageGraph.regenerate_graph', ('C15', 'C03')),
    # compiler visitor (C04)
    ('malVisitor.visitMal', ('C04',)),
    ('malVisitor.visitCategory', ('C04',)),
    ('malVisitor.visitAsset', ('C04',)),
    ('malVisitor.visitStep', ('C04',)),
    ('malVisitor.visitSteptype', ('C04',)),
    ('malVisitor.visitCias', ('C04',)),
    ('malVisitor.visitCia', ('C04',)),
    ('malVisitor.visitTtcexpr', ('C04',)),
    ('malVisitor.visitTtcterm', ('C04',)),
    ('malVisitor.visitTtcfact', ('C04',)),
    ('malVisitor.visitTtcatom', ('C04',)),
    ('malVisitor.visitTtcdist', ('C04',)),
    ('malVisitor.visitPrecondition', ('C04',)),
    ('malVisitor.visitReaches', ('C04',)),
    ('malVisitor.visitNumber', ('C04',)),
    ('malVisitor.visitVariable', ('C04',)),
    ('malVisitor.visitExpr', ('C04',)),
    ('malVisitor.visitParts', ('C04',)),
    ('malVisitor.visitPart', ('C04',)),
    ('malVisitor._resolve_part_ID_type', ('C04',)),
    ('malVisitor.visitSetop', ('C04',)),
    ('malVisitor.visitAssociation', ('C04',)),
    ('malVisitor._post_process_multitudes', ('C04',)),
    ('malVisitor.visitInclude', ('C04',)),
    ('malVisitor.visitDefine', ('C04',)),
    ('malVisitor.visitMeta', ('C04',)),
    # wrapper (C16)
    ('create_attack_graph', ('C16',)),
]


def run(ctx) -> list[Inst]:
    prog = ctx.prog
    if not os.path.exists(REF):
        raise AnalysisError('reference/pinned_ref.py missing')
    with open(REF, encoding='utf-8') as fh:
        from ..normalize import normalize
        reft = normalize(ast.parse(fh.read()))
    ref = {}
    for n in reft.body:
        if isinstance(n, ast.FunctionDef):
            ref[n.name] = n
        elif isinstance(n, ast.ClassDef):
            for m in n.body:
                if isinstance(m, ast.FunctionDef):
                    ref[f'{n.name}.{m.name}'] = m
    insts = []
    for (fname, props) in PINNED:
        if not prog.has_func(fname):
            raise AnalysisError(f'pinned function {fname} vanished (renamed or removed)')
        f = prog.func(fname)
        rel = f.module.relpath
        construct = f'behaviour of {fname} equals its reviewed reference'
        if fname not in ref:
            raise AnalysisError(f'no pinned reference for {fname} (run tools/make_pinned.py after review)')
        try:
            rt = table_of(ref[fname], {})
        except (Unsupported, RecursionError) as e:
            insts.append(Inst(RULE, fname, construct, 'unproven', msg=f'reference outside the table language: {e}',
                              file=rel, line=f.node.lineno, props=props, nontrivial=False))
            continue
        try:
            t = table_of(f.node, {})
        except (Unsupported, RecursionError) as e:
            insts.append(Inst(RULE, fname, construct, 'unproven', msg=f'construct outside the table language: {e}',
                              file=rel, line=f.node.lineno, props=props))
            continue
        if t == rt:
            insts.append(Inst(RULE, fname, construct, 'ok', msg=f'{len(t[1])} essential atoms, {len(t[2])} rows',
                              file=rel, line=f.node.lineno, props=props))
            continue
        v1, v2 = set(), set()
        opaque_names(t, v1)
        opaque_names(rt, v2)
        extra = sorted(v1 - v2)
        k1, k2 = set(), set()
        imprecise_kinds(t, k1)
        imprecise_kinds(rt, k2)
        if not extra and k1 - k2:
            extra = [f'<uninterpreted construct: {x}>' for x in sorted(k1 - k2)]
        try:
            d = diff_tables(t, rt)
        except Exception as e:
            d = f'tables differ (rendering failed: {e})'
        if extra:
            insts.append(Inst(RULE, fname, construct, 'unproven',
                              msg=f'differs from the reference but introduces names it does not know {extra[:6]}: {d[:300]}',
                              file=rel, line=f.node.lineno, props=props))
        else:
            insts.append(Inst(
                RULE, fname, construct, 'violation',
                msg=(f'{fname} no longer behaves like its reviewed reference implementation '
                     f'(reference/pinned_ref.py): {d[:700]}'),
                file=rel, line=f.node.lineno, props=props))
    return insts
