"""R25 BUGCLASS - repository-scoped checks for classic Python defect classes that silently break the
properties (each one observed in seeded changes; all have an expected count of zero on a healthy
tree and a positive fixture that must be reported on every run).

FALSY     a truthiness test (`if x`, `not x`, `x or y`, `x and y`, `while x`) of a value that can
          legitimately be 0 / 0.0: an id (node / attacker / asset / attachment `.id`, `*_id`
          parameters and locals bound from them) or a defense status (`defense_status`,
          `getattr(asset, <defense>)`).  id 0 and status 0.0 are valid values (C02, C05, C07, C09,
          C10, C13): the test must be `is None` / `is not None` / a comparison.
MUTDEFAULT a parameter whose default is a mutable literal ([], {}, set()) is never mutated in place
          (append / extend / += / item store ...): the default object is shared by all calls, so
          one call's data leaks into the next (C09, C11).
GENEXHAUST a generator (generator expression, map, filter, zip) bound to a local is iterated in a
          place that runs more than once (inside a loop that does not re-create it) or iterated
          twice: it is exhausted after the first pass and silently yields nothing afterwards (C19).
GLOBALSTATE no function mutates a module-level container or attribute, no function result is memoised
          with functools.lru_cache / cache, and no package object with per-call state is kept at
          class / module level: results must depend on the inputs only (C03, C04, C16).
"""
from __future__ import annotations

import ast
import os

from ..core import own_nodes, stmt_text, Program, AnalysisError, PJS
from ..cfg import cfg_of
from ..effects import Analyzer, ADDERS, REMOVERS, REORDER
from ..props import props_for
from ..report import Inst

RULE = 'R25'
FIXTURE = os.path.join(os.path.dirname(os.path.dirname(os.path.abspath(__file__))), 'fixtures', 'r25')
ID_FIELDS = {('AttackGraphNode', 'id'), ('Attacker', 'id'), ('AttackerAttachment', 'id'), ('pjs', 'id'),
             ('AttackGraphNode', 'defense_status')}
NUMERIC_NAMES = {'defense_status', 'default_defense_value'}


def _numeric(env, cfg, R, e, node, depth=0):
    """is expression e an id / defense status (a value for which 0 is legitimate)?  -> reason or None"""
    if depth > 4:
        return None
    if isinstance(e, ast.Attribute):
        bt = env.type_of(e.value)
        owner = bt[1] if bt[0] == 'cls' else ('pjs' if bt == PJS else None)
        if owner and (owner, e.attr) in ID_FIELDS:
            return f'{owner}.{e.attr}'
        if owner is None and e.attr in ('defense_status',):
            return e.attr
        return None
    if isinstance(e, ast.Name):
        if e.id.endswith('_id') or e.id in NUMERIC_NAMES:
            # a parameter / local named *_id: confirm it is not a string key
            return e.id
        if node is not None:
            defs = cfg.reaching(node, e.id)
            if len(defs) == 1 and defs[0].kind == 'stmt' and isinstance(defs[0].ast, ast.Assign) \
                    and len(defs[0].ast.targets) == 1 and isinstance(defs[0].ast.targets[0], ast.Name):
                return _numeric(env, cfg, R, defs[0].ast.value, defs[0], depth + 1)
        return None
    if isinstance(e, ast.Call) and isinstance(e.func, ast.Name) and e.func.id == 'getattr' and len(e.args) >= 2:
        # getattr(asset, <step name>): the value of a defense
        if env.type_of(e.args[0]) == PJS and not isinstance(e.args[1], ast.Constant):
            return f'getattr({stmt_text(e.args[0])}, <defense>)'
    if isinstance(e, ast.Call) and isinstance(e.func, ast.Name) and e.func.id in ('int', 'float') and e.args:
        return _numeric(env, cfg, R, e.args[0], node, depth + 1)
    # next((<elt> for v in C if ...), None): the element found - numeric when <elt> is (an id drawn from a
    # collection of ids counts: `ids = [x.id for x in xs]`)
    if isinstance(e, ast.Call) and isinstance(e.func, ast.Name) and e.func.id == 'next' and e.args \
            and isinstance(e.args[0], (ast.GeneratorExp, ast.ListComp)):
        g = e.args[0]
        return _numeric_comp_elt(env, cfg, R, g, node, depth + 1)
    return None


def _numeric_comp_elt(env, cfg, R, g, node, depth):
    elt = g.elt
    why = _numeric(env, cfg, R, elt, None, depth)
    if why:
        return f'next(... {why} ...)'
    if isinstance(elt, ast.Name):
        for gen in g.generators:
            if isinstance(gen.target, ast.Name) and gen.target.id == elt.id:
                it = gen.iter
                # the collection iterated: a comprehension of ids, directly or through a local
                src = it
                if isinstance(it, ast.Name) and node is not None:
                    defs = cfg.reaching(node, it.id)
                    if len(defs) == 1 and defs[0].kind == 'stmt' and isinstance(defs[0].ast, ast.Assign):
                        src = defs[0].ast.value
                if isinstance(src, (ast.ListComp, ast.GeneratorExp, ast.SetComp)):
                    w = _numeric(env, cfg, R, src.elt, None, depth)
                    if w is None and isinstance(src.elt, ast.Attribute) and src.elt.attr == 'id':
                        w = '.id'
                    if w:
                        return f'an element of [{stmt_text(src.elt)} for ...]'
    return None


def _truth_operands(n):
    """expressions evaluated for truthiness by node n"""
    out = []
    if isinstance(n, (ast.If, ast.While, ast.IfExp)):
        out.append(n.test)
    if isinstance(n, ast.UnaryOp) and isinstance(n.op, ast.Not):
        out.append(n.operand)
    if isinstance(n, ast.BoolOp):
        out += n.values[:-1] if isinstance(n.op, ast.Or) else n.values[:-1]
    if isinstance(n, ast.comprehension):
        out += list(n.ifs)          # [x for x in xs if x.id]: the filter is a truth test like any other
    flat = []
    for e in out:
        # a test that is itself a BoolOp / not is covered when those nodes are visited
        if isinstance(e, (ast.BoolOp,)) or (isinstance(e, ast.UnaryOp) and isinstance(e.op, ast.Not)):
            if isinstance(e, ast.BoolOp):
                flat.append(e.values[-1])
            continue
        flat.append(e)
    return flat


def falsy(prog, resolver_of):
    out = []
    for f in prog.all_funcs():
        env = prog.env(f)
        cfg = cfg_of(f)
        R = resolver_of(f)
        seen = set()
        for n in own_nodes(f.node):
            for e in _truth_operands(n):
                if id(e) in seen or isinstance(e, (ast.Compare, ast.Call)) and not (
                        isinstance(e, ast.Call) and isinstance(e.func, ast.Name) and e.func.id in ('getattr', 'next')):
                    continue
                seen.add(id(e))
                node = cfg.owner(e)
                why = _numeric(env, cfg, R, e, node)
                if why is None:
                    continue
                # strings that happen to be called *_id (keys of serialised mappings) are excluded when the
                # name is only ever used through int(): still numeric semantics -> keep
                out.append((f, e, why))
    return out


def _method_writes_self(cls, mname, seen=None) -> bool:
    """does cls.mname (or a method of the same object it calls) store to an attribute of self / change one in place?"""
    seen = seen if seen is not None else set()
    if mname in seen or mname not in cls.methods:
        return False
    seen.add(mname)
    m = cls.methods[mname]
    sn = m.self_name
    if sn is None:
        return False
    for n in own_nodes(m.node):
        if isinstance(n, ast.Attribute) and isinstance(n.ctx, (ast.Store, ast.Del)) and isinstance(n.value, ast.Name) \
                and n.value.id == sn:
            return True
        if isinstance(n, ast.Call) and isinstance(n.func, ast.Attribute):
            b = n.func.value
            if isinstance(b, ast.Attribute) and isinstance(b.value, ast.Name) and b.value.id == sn \
                    and n.func.attr in (ADDERS | REMOVERS | REORDER | {'setdefault', 'update', 'clear'}):
                return True
            if isinstance(b, ast.Name) and b.id == sn and _method_writes_self(cls, n.func.attr, seen):
                return True
        if isinstance(n, (ast.Assign, ast.Delete)):
            for t in n.targets:
                if isinstance(t, ast.Subscript) and isinstance(t.value, ast.Attribute) and isinstance(t.value.value, ast.Name) \
                        and t.value.value.id == sn:
                    return True
    return False


def mutdefault(prog):
    out = []
    for f in prog.all_funcs():
        muts = {p for p, d in f.param_default.items()
                if isinstance(d, (ast.List, ast.Dict, ast.Set)) or (
                    isinstance(d, ast.Call) and isinstance(d.func, ast.Name) and d.func.id in ('list', 'dict', 'set')
                    and not d.args)}
        # a default that is an INSTANCE of one of the package's classes (`compiler=MalCompiler()`): evaluated once, shared
        # by every call; a method of it that writes its own attributes carries state from one call into the next
        inst = {}
        for p, d in f.param_default.items():
            if isinstance(d, ast.Call) and isinstance(d.func, ast.Name) and d.func.id in prog.classes \
                    and not prog.classes[d.func.id].module.generated:
                inst[p] = prog.classes[d.func.id]
        if inst:
            cfg = cfg_of(f)
            for n in own_nodes(f.node):
                if isinstance(n, ast.Call) and isinstance(n.func, ast.Attribute) and isinstance(n.func.value, ast.Name) \
                        and n.func.value.id in inst and _method_writes_self(inst[n.func.value.id], n.func.attr):
                    node = cfg.owner(n) or cfg.node_of(n)
                    defs = cfg.reaching(node, n.func.value.id) if node is not None else []
                    if any(d.kind == 'entry' for d in defs):
                        out.append((f, n, n.func.value.id))
        if not muts:
            continue
        cfg = cfg_of(f)
        # plain aliases of the parameter (`ids = reached_steps`, bound once): changing the alias changes the default
        alias = {}
        for n in own_nodes(f.node):
            if isinstance(n, ast.Assign) and len(n.targets) == 1 and isinstance(n.targets[0], ast.Name) \
                    and isinstance(n.value, ast.Name) and n.value.id in muts:
                nm = n.targets[0].id
                aug_t = {id(x.target) for x in own_nodes(f.node) if isinstance(x, ast.AugAssign)}
                stores_ = sum(1 for x in own_nodes(f.node) if isinstance(x, ast.Name) and x.id == nm
                              and isinstance(x.ctx, ast.Store) and id(x) not in aug_t)
                node = cfg.node_of(n)
                defs = cfg.reaching(node, n.value.id) if node is not None else []
                if stores_ == 1 and nm not in muts and any(d.kind == 'entry' for d in defs):
                    alias[nm] = n.value.id
        for n in own_nodes(f.node):
            a_ = None
            if isinstance(n, ast.Call) and isinstance(n.func, ast.Attribute) and isinstance(n.func.value, ast.Name) \
                    and n.func.value.id in alias and n.func.attr in (ADDERS | REMOVERS | REORDER | {'setdefault'}):
                a_ = n.func.value.id
            if isinstance(n, ast.AugAssign) and isinstance(n.target, ast.Name) and n.target.id in alias:
                a_ = n.target.id
            if isinstance(n, (ast.Assign, ast.Delete)):
                for t in n.targets:
                    if isinstance(t, ast.Subscript) and isinstance(t.value, ast.Name) and t.value.id in alias:
                        a_ = t.value.id
            if a_ is not None:
                out.append((f, n, alias[a_]))
        # the default object itself is put into a longer-lived object (a field, a constructor argument): whoever fills
        # that field later fills the one shared default
        for n in own_nodes(f.node):
            esc = None
            if isinstance(n, ast.Assign) and isinstance(n.value, ast.Name) and n.value.id in muts \
                    and any(isinstance(t, ast.Attribute) for t in n.targets):
                esc = n.value.id
            if isinstance(n, ast.Call) and isinstance(n.func, ast.Name) and n.func.id in prog.classes:
                for a in list(n.args) + [k.value for k in n.keywords]:
                    if isinstance(a, ast.Name) and a.id in muts:
                        esc = a.id
            if esc is not None:
                node = cfg.owner(n) or cfg.node_of(n)
                defs = cfg.reaching(node, esc) if node is not None else []
                if any(d.kind == 'entry' for d in defs):
                    out.append((f, n, esc))
        for n in own_nodes(f.node):
            tgt = None
            if isinstance(n, ast.Call) and isinstance(n.func, ast.Attribute) and isinstance(n.func.value, ast.Name) \
                    and n.func.value.id in muts and n.func.attr in (ADDERS | REMOVERS | REORDER | {'setdefault'}):
                tgt = n.func.value.id
            if isinstance(n, ast.AugAssign) and isinstance(n.target, ast.Name) and n.target.id in muts:
                tgt = n.target.id
            if isinstance(n, (ast.Assign, ast.Delete)):
                for t in (n.targets if isinstance(n, (ast.Assign, ast.Delete)) else []):
                    if isinstance(t, ast.Subscript) and isinstance(t.value, ast.Name) and t.value.id in muts:
                        tgt = t.value.id
            if tgt is None:
                continue
            # only if the name still denotes the parameter there (not re-bound before)
            node = cfg.owner(n) or cfg.node_of(n)
            defs = cfg.reaching(node, tgt) if node is not None else []
            if any(d.kind == 'entry' for d in defs):
                out.append((f, n, tgt))
    return out


GEN_CALLS = {'map', 'filter', 'zip'}


def genexhaust(prog):
    out = []
    for f in prog.all_funcs():
        cfg = cfg_of(f)
        gens = {}
        for n in own_nodes(f.node):
            if isinstance(n, ast.Assign) and len(n.targets) == 1 and isinstance(n.targets[0], ast.Name):
                v = n.value
                if isinstance(v, ast.GeneratorExp) or (isinstance(v, ast.Call) and isinstance(v.func, ast.Name)
                                                       and v.func.id in GEN_CALLS):
                    gens.setdefault(n.targets[0].id, []).append(cfg.node_of(n))
        if not gens:
            continue
        for name, defnodes in gens.items():
            uses = []
            for n in own_nodes(f.node):
                it = None
                if isinstance(n, (ast.For, ast.comprehension)) and isinstance(n.iter, ast.Name) and n.iter.id == name:
                    it = n.iter
                if isinstance(n, ast.Call) and isinstance(n.func, ast.Name) and n.func.id in (
                        'list', 'tuple', 'set', 'sorted', 'sum', 'any', 'all', 'max', 'min', 'dict', 'enumerate') \
                        and n.args and isinstance(n.args[0], ast.Name) and n.args[0].id == name:
                    it = n.args[0]
                if it is None:
                    continue
                unode = cfg.owner(it)
                if unode is None:
                    continue
                rdefs = [d for d in cfg.reaching(unode, name)]
                if not rdefs or not all(d in defnodes for d in rdefs):
                    continue
                uses.append((unode, it, rdefs))
            for (unode, it, rdefs) in uses:
                # iterated inside a loop that does not contain the definition
                l = unode.loop if unode.kind != 'for' or unode.ast.iter is not it else unode.loop
                if unode.kind == 'for' and unode.ast.iter is it:
                    l = unode.loop
                while l is not None:
                    inside_def = any(_in_loop(d, l) for d in rdefs)
                    if not inside_def:
                        out.append((f, it, name, 'iterated inside a loop that does not re-create it'))
                        break
                    l = l.loop
            if len(uses) > 1 and not any(x[3].startswith('iterated inside') for x in out if x[0] is f and x[2] == name):
                a, b = uses[0], uses[1]
                if a[2] == b[2] and (cfg.dominates(a[0], b[0]) or cfg.dominates(b[0], a[0])):
                    out.append((f, b[1], name, 'iterated twice'))
    return out


def _in_loop(n, header):
    l = n.loop
    while l is not None:
        if l is header:
            return True
        l = l.loop
    return n is header


def globalstate(prog, an):
    out = []
    for f in prog.all_funcs():
        for e in an.of(f).effects:
            if e.chain:
                continue
            if e.path.root[0] == 'global' and e.path.root[1] not in ('logger', 'logging', 'log_configs'):
                # a name of an ENCLOSING function (a closure variable of a nested helper) is per-call state, and a name
                # that is not bound at module level at all cannot be a module-level object
                nm_ = e.path.root[1]
                if '.' in f.short and f.cls is None or (f.cls is not None and f.short.count('.') > 1):
                    if not any(isinstance(st_, (ast.Assign, ast.AnnAssign)) and any(
                            isinstance(t_, ast.Name) and t_.id == nm_ for t_ in (st_.targets if isinstance(st_, ast.Assign) else [st_.target]))
                            for st_ in f.module.tree.body):
                        continue
                out.append((f, e.src or f.node, f"'{e.text}' mutates the module-level object '{e.path.root[1]}'"))
        nested_def = ('.' in f.short and f.cls is None) or (f.cls is not None and f.short.count('.') > 1)
        for d in f.node.decorator_list:
            txt = stmt_text(d)
            if nested_def:
                continue        # a cache decorating a function defined inside another one is re-created per call
            if 'lru_cache' in txt or txt.split('(')[0].split('.')[-1] == 'cache':
                out.append((f, d, f"'@{txt}' memoises {f.short}: the result is replayed even when the files / "
                                  f"objects behind the same arguments have changed"))
    # package objects with per-call state kept at class / module level
    def _mutates_itself(cname):
        # some method other than __init__ stores into a field of self (directly or through a container method):
        # only then does an instance carry state from one call to the next
        c_ = prog.classes[cname]
        for mn, m_ in c_.methods.items():
            if mn == '__init__' or not m_.params:
                continue
            sn = m_.params[0]
            for x in ast.walk(m_.node):
                if isinstance(x, ast.Attribute) and isinstance(x.ctx, (ast.Store, ast.Del)) \
                        and isinstance(x.value, ast.Name) and x.value.id == sn:
                    return True
                if isinstance(x, ast.Call) and isinstance(x.func, ast.Attribute) and isinstance(x.func.value, ast.Attribute) \
                        and isinstance(x.func.value.value, ast.Name) and x.func.value.value.id == sn \
                        and x.func.attr in ('append', 'extend', 'add', 'update', 'pop', 'remove', 'clear', 'insert', 'setdefault'):
                    return True
                if isinstance(x, ast.Subscript) and isinstance(x.ctx, (ast.Store, ast.Del)) \
                        and isinstance(x.value, ast.Attribute) and isinstance(x.value.value, ast.Name) \
                        and x.value.value.id == sn:
                    return True
                if isinstance(x, ast.Call) and isinstance(x.func, ast.Name) and x.func.id == 'setattr' and x.args \
                        and isinstance(x.args[0], ast.Name) and x.args[0].id == sn:
                    return True
        return False
    stateful = {c for c in prog.classes if any(fi.origin == 'init' for fi in prog.classes[c].fields.values())
                and _mutates_itself(c)}
    for m in prog.handwritten_modules():
        bodies = [(None, m.tree.body)] + [(c, c.node.body) for c in m.classes.values()]
        for owner, body in bodies:
            for st in body:
                if isinstance(st, (ast.Assign, ast.AnnAssign)) and st.value is not None \
                        and isinstance(st.value, ast.Call) and isinstance(st.value.func, ast.Name) \
                        and st.value.func.id in stateful:
                    where = f'class {owner.name}' if owner else f'module {m.modname}'
                    out.append((None, st, f"'{stmt_text(st)}' keeps one {st.value.func.id} instance at {where} level: "
                                          f"its per-call state (e.g. MalCompiler.path) is shared by all later calls",
                                m))
    # mutable containers declared in a class body (shared by every instance, alive for the whole process) that a
    # method fills through self / cls without the instance ever getting its own in __init__
    for c in prog.classes.values():
        if c.module.generated or c.is_dataclass:
            continue
        shared = {}
        for st in c.node.body:
            if isinstance(st, (ast.Assign, ast.AnnAssign)) and st.value is not None:
                v = st.value
                mutable = isinstance(v, (ast.Dict, ast.List, ast.Set)) or (
                    isinstance(v, ast.Call) and isinstance(v.func, ast.Name) and v.func.id in (
                        'dict', 'list', 'set', 'defaultdict', 'OrderedDict', 'Counter') )
                tg = st.targets[0] if isinstance(st, ast.Assign) else st.target
                if mutable and isinstance(tg, ast.Name):
                    shared[tg.id] = st
        if not shared:
            continue
        init = c.methods.get('__init__')
        own = set()
        if init is not None:
            for n in own_nodes(init.node):
                if isinstance(n, (ast.Assign, ast.AnnAssign)):
                    tg = n.targets[0] if isinstance(n, ast.Assign) else n.target
                    if isinstance(tg, ast.Attribute) and isinstance(tg.value, ast.Name) and tg.value.id == init.self_name:
                        own.add(tg.attr)
        for m in c.methods.values():
            # locals that are just another name for a shared class-level container: `risk = self.NO_RISK`
            alias = {}
            for n in own_nodes(m.node):
                if isinstance(n, ast.Assign) and len(n.targets) == 1 and isinstance(n.targets[0], ast.Name) \
                        and isinstance(n.value, ast.Attribute) and isinstance(n.value.value, ast.Name) \
                        and n.value.value.id in (m.self_name, 'cls', c.name) and n.value.attr in shared \
                        and n.value.attr not in own:
                    alias[n.targets[0].id] = n.value.attr
            for n in own_nodes(m.node):
                tgt = None
                if isinstance(n, ast.Assign) and len(n.targets) == 1 and isinstance(n.targets[0], ast.Subscript) \
                        and isinstance(n.targets[0].value, ast.Name) and n.targets[0].value.id in alias:
                    tgt = n.targets[0].value.id
                elif isinstance(n, ast.Call) and isinstance(n.func, ast.Attribute) and isinstance(n.func.value, ast.Name) \
                        and n.func.value.id in alias and n.func.attr in (ADDERS | {'update', 'setdefault', 'extend', 'clear', 'pop'}):
                    tgt = n.func.value.id
                if tgt is not None:
                    out.append((m, n, f"'{stmt_text(n, 70)}' changes '{tgt}', which is the container '{alias[tgt]}' declared "
                                      f"in the body of class {c.name} ('{stmt_text(shared[alias[tgt]], 50)}', no copy is "
                                      f"taken): one object for all instances and all calls, what one call writes every "
                                      f"later call reads"))
            for n in own_nodes(m.node):
                base = None
                if isinstance(n, ast.Assign) and len(n.targets) == 1 and isinstance(n.targets[0], ast.Subscript):
                    base = n.targets[0].value
                elif isinstance(n, ast.Assign) and len(n.targets) > 1:
                    for t in n.targets:
                        if isinstance(t, ast.Subscript):
                            base = t.value
                elif isinstance(n, ast.Call) and isinstance(n.func, ast.Attribute) and \
                        n.func.attr in (ADDERS | {'update', 'setdefault', 'extend'}):
                    base = n.func.value
                if isinstance(base, ast.Attribute) and isinstance(base.value, ast.Name) \
                        and base.value.id in (m.self_name, 'cls', c.name) and base.attr in shared and base.attr not in own:
                    out.append((m, n, f"'{stmt_text(n, 70)}' fills '{base.attr}', a container declared in the body of "
                                      f"class {c.name} ('{stmt_text(shared[base.attr], 50)}'): it is shared by all "
                                      f"instances and survives from one call to the next (a process-wide cache)"))
        # ... and the same container filled from OUTSIDE the class through an instance: `self.compiler.included.add(x)`
        for g in prog.all_funcs():
            if g.module.generated or (g.cls is not None and g.cls.name == c.name):
                continue
            for n in own_nodes(g.node):
                base = None
                if isinstance(n, ast.Assign) and len(n.targets) == 1 and isinstance(n.targets[0], ast.Subscript):
                    base = n.targets[0].value
                elif isinstance(n, ast.Call) and isinstance(n.func, ast.Attribute) and \
                        n.func.attr in (ADDERS | {'update', 'setdefault', 'extend'}):
                    base = n.func.value
                if isinstance(base, ast.Attribute) and base.attr in shared and base.attr not in own \
                        and isinstance(base.value, (ast.Attribute, ast.Name)):
                    t_ = prog.env(g).type_of(base.value)
                    named_like = isinstance(base.value, ast.Attribute) and base.value.attr.lower() in c.name.lower()
                    if (t_[0] == 'cls' and t_[1] == c.name) or (t_[0] != 'cls' and named_like):
                        out.append((g, n, f"'{stmt_text(n, 70)}' fills '{base.attr}', a container declared in the body of "
                                          f"class {c.name} ('{stmt_text(shared[base.attr], 50)}') and never given to the "
                                          f"instance in __init__: one object for every {c.name} of the process - what one "
                                          f"compilation / call records, all later ones see"))
    return out


def misc_bugclasses(prog, cfg_of_):
    """ISDIGIT    `s.isdigit()` / isnumeric / isdecimal decides whether a string is an id: False for '-2' although
                  negative ids are legitimate (C05, C07).
       CACHEDPROP functools.cached_property / a hand-made once-only cache on a value derived from mutable fields
                  (full_name embeds the id, which add_node assigns later).
       SELFREF    `x[k] = y` / `x.f = y` where y is (an alias of) x itself: the structure contains itself."""
    out = []
    # DCEQ: membership tests / de-duplication of the graph dataclasses rely on the generated __eq__ comparing EVERY
    # field: a field taken out of the comparison makes distinct objects equal
    for c in prog.classes.values():
        if c.module.generated or not c.is_dataclass:
            continue
        for st in c.node.body:
            if isinstance(st, ast.AnnAssign) and isinstance(st.value, ast.Call) and 'field' in stmt_text(st.value.func):
                for k in st.value.keywords:
                    if k.arg == 'compare' and isinstance(k.value, ast.Constant) and k.value.value is False:
                        out.append((c, st, 'DCEQ', f"'{stmt_text(st, 70)}' removes {stmt_text(st.target)} from "
                                    f"{c.name}.__eq__: two {c.name} objects that differ only in it compare equal, so "
                                    f"`x not in list` de-duplication drops one of them"))
    # ... and a hand-written __eq__ that looks at fewer fields than the generated one does the same wholesale
    for c in prog.classes.values():
        if c.module.generated or not c.is_dataclass or '__eq__' not in c.methods:
            continue
        eqm = c.methods['__eq__']
        sn = eqm.params[0] if eqm.params else 'self'
        seen_attrs, todo, done = set(), [eqm], set()
        while todo:
            m_ = todo.pop()
            if m_.qname in done:
                continue
            done.add(m_.qname)
            msn = m_.params[0] if m_.params else 'self'
            for x in ast.walk(m_.node):
                if isinstance(x, ast.Attribute) and isinstance(x.value, ast.Name) and x.value.id == msn:
                    if x.attr in c.methods:
                        todo.append(c.methods[x.attr])
                    else:
                        seen_attrs.add(x.attr)
        dfields = [fi.name for fi in c.fields.values() if fi.origin == 'dataclass']
        missing = [a for a in dfields if a not in seen_attrs]
        compares_values = any(isinstance(x, ast.Compare) and isinstance(x.ops[0], (ast.Eq, ast.NotEq)) for x in ast.walk(eqm.node)) \
            or len(done) > 1
        if compares_values and 'id' in missing:
            out.append((c, eqm.node, 'DCEQ',
                        f"{c.name}.__eq__ is written by hand and compares {sorted(seen_attrs & set(dfields)) or sorted(seen_attrs)} "
                        f"only (not {missing[:5]}...): two different {c.name} objects that agree on those - the same step "
                        f"name on two assets that are not bound (asset None) - compare equal, so `x not in list` "
                        f"de-duplication (entry points, reached steps) drops one of them"))
    # SETDEFAULT: `d.setdefault(k, [v])` as a statement inside a loop - only the FIRST value of a key is kept, the
    # later ones are thrown away (the get-or-create idiom needs `.setdefault(k, []).append(v)`)
    for f in prog.all_funcs():
        if f.module.generated:
            continue
        for lp in own_nodes(f.node):
            if not isinstance(lp, (ast.For, ast.While)):
                continue
            for st in ast.walk(lp):
                if isinstance(st, ast.Expr) and isinstance(st.value, ast.Call) and isinstance(st.value.func, ast.Attribute) \
                        and st.value.func.attr == 'setdefault' and len(st.value.args) == 2 \
                        and isinstance(st.value.args[1], (ast.List, ast.Set, ast.Tuple)) and st.value.args[1].elts:
                    out.append((f, st.value, 'SETDEFAULT',
                                f"'{stmt_text(st.value, 90)}' stores the one-element collection only when the key is new and "
                                f"discards it otherwise: every further value of an existing key is lost (a step with "
                                f"several same-named parents keeps the first one only)"))
    # STALELOCAL: `v = <const>` before a loop, `v = <other const>` only under a condition inside it, and v is USED inside
    # the loop on a path that passes no assignment of this iteration: once one element has switched v, every later
    # element sees the switched value (a default computed per element must be reset per element)
    for f in prog.all_funcs():
        if f.module.generated:
            continue
        cfg = cfg_of_(f)
        for h in [n for n in cfg.nodes if n.kind == 'for']:
            def in_loop(n, h=h):
                l = n.loop
                while l is not None:
                    if l is h:
                        return True
                    l = l.loop
                return False
            inside = [n for n in cfg.nodes if in_loop(n)]
            defs_in = {}
            for n in inside:
                if n.kind == 'stmt' and isinstance(n.ast, ast.Assign) and len(n.ast.targets) == 1 \
                        and isinstance(n.ast.targets[0], ast.Name):
                    defs_in.setdefault(n.ast.targets[0].id, []).append(n)
                elif n.kind in ('stmt', 'for', 'with'):
                    for nm in cfg.defs_of(n):
                        defs_in.setdefault(nm, []).append(None)
            for v, dnodes in defs_in.items():
                if None in dnodes or not all(isinstance(d.ast.value, ast.Constant) for d in dnodes):
                    continue
                outer = [d for d in cfg.reaching(h, v) if not in_loop(d) and d is not h]
                if len(outer) != 1 or outer[0].kind != 'stmt' or not isinstance(outer[0].ast, ast.Assign) \
                        or not isinstance(outer[0].ast.value, ast.Constant) or outer[0].loop is not h.loop:
                    continue
                init = outer[0].ast.value.value
                if all(d.ast.value.value == init for d in dnodes):
                    continue
                dset = {d.idx for d in dnodes}
                # uses inside the loop that hand v on (not a bare test of v, not its own definition)
                for u in inside:
                    if u.idx in dset or u.kind != 'stmt':
                        continue
                    reads = [x for x in ast.walk(u.ast) if isinstance(x, ast.Name) and x.id == v and isinstance(x.ctx, ast.Load)]
                    if not reads:
                        continue
                    starts = [t for t, l in h.succ if l == 'T']
                    reach = set()
                    for t in starts:
                        if t.idx in dset:
                            continue
                        reach |= {t.idx} | cfg.reachable_from(t, avoiding=dset | {h.idx})
                    if u.idx in reach:
                        d0 = next(d for d in dnodes if d.ast.value.value != init)
                        out.append((f, u.ast, 'STALELOCAL',
                                    f"'{v}' is set to {init!r} once before 'for {stmt_text(h.ast.target)} in "
                                    f"{stmt_text(h.ast.iter, 40)}' and to {d0.ast.value.value!r} only under a condition inside it "
                                    f"(line {d0.lineno}); '{stmt_text(u.ast, 60)}' uses it without a reset in the same iteration: "
                                    f"after the first element that takes the branch, all later elements get {d0.ast.value.value!r} too"))
                        break
    # LOGNORAISE: an error is logged and execution simply goes on.  Everywhere in this package `logger.error(..)`
    # announces a failure that is then raised / returned; a branch that only logs lets the caller continue with the
    # missing object (a None asset, an unresolved step) - the malformed input is half-processed instead of rejected
    LOG_OK = {('_process_step_expression', 'Requested variable from non-asset target node'):
              'loop over the targets: a target that is not an asset is skipped, the result for the others is returned'}
    raw_funcs = []
    for m in prog.handwritten_modules():
        raw = ast.parse(m.source)
        for fn in ast.walk(raw):
            if isinstance(fn, (ast.FunctionDef, ast.AsyncFunctionDef)):
                host = next((g for g in prog.all_funcs() if g.module is m and g.name == fn.name), None)
                if host is None:
                    # a helper the inliner dissolved: report against any function of the module
                    host = next((g for g in prog.all_funcs() if g.module is m), None)
                if host is not None:
                    raw_funcs.append((host, fn))
    for host_, rawfn in raw_funcs:
        class _F:       # the statements of the function AS WRITTEN (helpers not yet un-extracted: `return False` is still there)
            node = rawfn
            name = rawfn.name
        f = _F
        pm_ = {}
        for x in ast.walk(f.node):
            for fld in ('body', 'orelse', 'finalbody'):
                blk = getattr(x, fld, None)
                if isinstance(blk, list):
                    for i_, st_ in enumerate(blk):
                        if isinstance(st_, ast.stmt):
                            pm_[id(st_)] = (x, blk, i_)
            for h_ in getattr(x, 'handlers', []) or []:
                for i_, st_ in enumerate(h_.body):
                    pm_[id(st_)] = (h_, h_.body, i_)
            for c_ in getattr(x, 'cases', []) or []:
                for i_, st_ in enumerate(c_.body):
                    pm_[id(st_)] = (c_, c_.body, i_)

        def is_log(st_):
            return isinstance(st_, ast.Expr) and isinstance(st_.value, ast.Call) and isinstance(st_.value.func, ast.Attribute) \
                and isinstance(st_.value.func.value, ast.Name) and st_.value.func.value.id in ('logger', 'logging')

        def ends(st_):
            """True when control cannot simply go on after statement st_'s position (scanning forwards / outwards)"""
            cur = st_
            for _ in range(12):
                if id(cur) not in pm_:
                    return False
                parent, blk, i_ = pm_[id(cur)]
                for nxt in blk[i_ + 1:]:
                    if isinstance(nxt, (ast.Raise, ast.Return, ast.Continue, ast.Break)):
                        return True
                    if isinstance(nxt, ast.Expr) and isinstance(nxt.value, ast.Call) and 'exit' in stmt_text(nxt.value.func):
                        return True
                    if is_log(nxt) or isinstance(nxt, ast.Pass) or (isinstance(nxt, ast.Assign) and isinstance(
                            nxt.value, (ast.Constant, ast.JoinedStr, ast.BinOp))):
                        continue
                    return False
                if isinstance(parent, (ast.For, ast.While, ast.FunctionDef, ast.AsyncFunctionDef)):
                    return False
                if isinstance(parent, (ast.ExceptHandler, ast.match_case)):
                    # continue after the try / match statement
                    owner = next((y for y in ast.walk(f.node) if parent in (getattr(y, 'handlers', []) or [])
                                  or parent in (getattr(y, 'cases', []) or [])), None)
                    if owner is None:
                        return False
                    cur = owner
                    continue
                cur = parent
            return False
        own_ = []
        stack_ = list(f.node.body)
        while stack_:
            y = stack_.pop()
            if isinstance(y, (ast.FunctionDef, ast.AsyncFunctionDef, ast.ClassDef, ast.Lambda)):
                continue
            own_.append(y)
            stack_.extend(ast.iter_child_nodes(y))
        for st_ in own_:
            if is_log(st_) and st_.value.func.attr in ('error', 'critical') and isinstance(st_, ast.stmt):
                if ends(st_):
                    continue
                txt = stmt_text(st_.value.args[0], 200) if st_.value.args else ''
                if any(f.name == fn_ and frag in txt for (fn_, frag) in LOG_OK):
                    continue
                out.append((host_, st_, 'LOGNORAISE',
                            f"'{stmt_text(st_, 70)}' reports a failure, but nothing is raised or returned after it: execution "
                            f"goes on with the object that could not be found / built (every other error branch of the "
                            f"package raises), so broken input is half-processed instead of rejected"))
    # IDINDEX: a LIST built by append and then subscripted with an object's id: position and id agree only while ids
    # are 0..n-1 in insertion order (not after remove_node / explicit ids / pruning)
    for f in prog.all_funcs():
        if f.module.generated:
            continue
        lists = {}
        for n in own_nodes(f.node):
            if isinstance(n, ast.Assign) and len(n.targets) == 1 and isinstance(n.targets[0], ast.Name):
                v = n.value
                if (isinstance(v, ast.List) and not v.elts) or (isinstance(v, ast.Call) and isinstance(v.func, ast.Name)
                                                                and v.func.id == 'list' and not v.args):
                    lists[n.targets[0].id] = n
                else:
                    lists.pop(n.targets[0].id, None) if n.targets[0].id in lists and not isinstance(v, ast.List) else None
        for nm in list(lists):
            stored = any(isinstance(x, ast.Subscript) and isinstance(x.ctx, (ast.Store, ast.Del)) and isinstance(x.value, ast.Name)
                         and x.value.id == nm for x in own_nodes(f.node))
            rebound = sum(1 for x in own_nodes(f.node) if isinstance(x, ast.Name) and x.id == nm
                          and isinstance(x.ctx, ast.Store)) > 1
            if stored or rebound:
                continue
            for x in own_nodes(f.node):
                if isinstance(x, ast.Subscript) and isinstance(x.ctx, ast.Load) and isinstance(x.value, ast.Name) \
                        and x.value.id == nm:
                    k = x.slice
                    is_id = (isinstance(k, ast.Attribute) and k.attr == 'id') or \
                        (isinstance(k, ast.Name) and (k.id == 'id' or k.id.endswith('_id')))
                    if is_id:
                        out.append((f, x, 'IDINDEX',
                                    f"'{stmt_text(x)}' looks an object up by its id in '{nm}', a list filled by append: the "
                                    f"position of an element equals its id only while ids are 0..n-1 in insertion order - "
                                    f"after remove_node / pruning / explicit ids the wrong element (or IndexError) results"))
                        break
    # ARGSWAP: positional arguments whose names are the callee's parameter names - in exchanged positions.  Decided
    # on the source as written (before helpers are un-extracted), by unique function name
    defs = {}
    for m in prog.handwritten_modules():
        raw = ast.parse(m.source)
        m._raw_tree = raw
        for n in ast.walk(raw):
            if isinstance(n, ast.FunctionDef):
                ps = [a.arg for a in n.args.posonlyargs + n.args.args]
                if ps and ps[0] in ('self', 'cls'):
                    ps = ps[1:]
                defs.setdefault(n.name, []).append(ps)
    for m in prog.handwritten_modules():
        raw = m._raw_tree
        encl = {}
        for fn in ast.walk(raw):
            if isinstance(fn, ast.FunctionDef):
                for x in ast.walk(fn):
                    if isinstance(x, ast.Call):
                        encl[id(x)] = fn.name
        for n in ast.walk(raw):
            if not isinstance(n, ast.Call):
                continue
            cname = n.func.id if isinstance(n.func, ast.Name) else (n.func.attr if isinstance(n.func, ast.Attribute) else None)
            if cname not in defs or len(defs[cname]) != 1:
                continue
            ps = defs[cname][0]
            args = n.args
            for i in range(min(len(args), len(ps))):
                for j in range(i + 1, min(len(args), len(ps))):
                    if isinstance(args[i], ast.Name) and isinstance(args[j], ast.Name) and args[i].id != args[j].id \
                            and args[i].id == ps[j] and args[j].id == ps[i]:
                        host = None
                        for g in prog.all_funcs():
                            if g.module is m and g.name == encl.get(id(n)):
                                host = g
                        if host is None:
                            continue
                        # both orders tried on purpose (`f(a, b) or f(b, a)`): the straight call sits next to it
                        straight = False
                        for o in ast.walk(raw):
                            if isinstance(o, ast.Call) and o is not n and encl.get(id(o)) == encl.get(id(n)):
                                oc = o.func.id if isinstance(o.func, ast.Name) else (
                                    o.func.attr if isinstance(o.func, ast.Attribute) else None)
                                if oc == cname and len(o.args) > j and isinstance(o.args[i], ast.Name) \
                                        and isinstance(o.args[j], ast.Name) and o.args[i].id == ps[i] and o.args[j].id == ps[j]:
                                    straight = True
                        if straight:
                            continue
                        out.append((host, n, 'ARGSWAP',
                                    f"'{stmt_text(n, 90)}' passes '{args[i].id}' as parameter '{ps[i]}' and "
                                    f"'{args[j].id}' as parameter '{ps[j]}' of {cname}: the two arguments carry each other's "
                                    f"parameter names - they are exchanged"))
    for f in prog.all_funcs():
        if f.module.generated:
            continue
        cfg = cfg_of_(f)
        for d in f.node.decorator_list:
            if 'cached_property' in stmt_text(d):
                # frozen at first read: a defect only if something it is computed from can change afterwards - a field
                # of self that is stored to outside __init__ (anywhere in the package), or another property of self
                sn = f.params[0] if f.params else 'self'
                reads = {x.attr for x in ast.walk(f.node) if isinstance(x, ast.Attribute) and isinstance(x.ctx, ast.Load)
                         and isinstance(x.value, ast.Name) and x.value.id == sn}
                changing = set()
                for g in prog.all_funcs():
                    if g.module.generated or g.name in ('__init__', '__post_init__'):
                        continue            # construction-time stores (of any class: matching is by field name)
                    for x in ast.walk(g.node):
                        if isinstance(x, ast.Attribute) and isinstance(x.ctx, (ast.Store, ast.Del)) and x.attr in reads:
                            changing.add(x.attr)
                        if isinstance(x, ast.Call) and isinstance(x.func, ast.Name) and x.func.id == 'setattr':
                            changing.add('<setattr>')
                if f.cls is not None and f.cls.is_dataclass:
                    changing |= reads & {fi.name for fi in f.cls.fields.values()} & \
                        {x.attr for g in prog.all_funcs() for x in ast.walk(g.node)
                         if isinstance(x, ast.Attribute) and isinstance(x.ctx, ast.Store)}
                if not (changing - {'<setattr>'}):
                    continue
                out.append((f, d, 'CACHEDPROP', f"'@{stmt_text(d)}' freezes {f.short} at its first read: the fields it is "
                            f"computed from (e.g. the id, assigned by add_node afterwards) change later, the cached value "
                            f"does not"))
        for n in own_nodes(f.node):
            if isinstance(n, ast.Call) and isinstance(n.func, ast.Attribute) and n.func.attr in ('isdigit', 'isnumeric', 'isdecimal') \
                    and not n.args and '/compiler/' not in f.module.relpath:     # (MAL multiplicities are unsigned by grammar)
                out.append((f, n, 'ISDIGIT', f"'{stmt_text(n, 50)}' is False for negative numbers ('-2'): an id / number "
                            f"written as text is taken for something else as soon as it is negative (negative asset ids "
                            f"are legitimate)"))
            if isinstance(n, ast.Assign) and len(n.targets) == 1 and isinstance(n.targets[0], (ast.Subscript, ast.Attribute)) \
                    and isinstance(n.value, ast.Name):
                base = n.targets[0].value
                if not isinstance(base, ast.Name):
                    continue
                node = cfg.node_of(n)
                if node is None:
                    continue
                bdefs = {d.idx for d in cfg.reaching(node, base.id)}
                if len(bdefs) != 1:
                    continue
                for d in cfg.reaching(node, n.value.id):
                    if d.kind == 'stmt' and isinstance(d.ast, ast.Assign) and len(d.ast.targets) == 1 \
                            and isinstance(d.ast.targets[0], ast.Name) and d.ast.targets[0].id == n.value.id \
                            and isinstance(d.ast.value, ast.Name) and d.ast.value.id == base.id \
                            and {x.idx for x in cfg.reaching(d, base.id)} == bdefs:
                        out.append((f, n, 'SELFREF',
                                    f"'{stmt_text(n)}' stores {n.value.id} into {base.id}, and '{stmt_text(d.ast)}' made "
                                    f"{n.value.id} the very same object ({base.id} is bound once, no copy in between): "
                                    f"the structure now contains itself (earlier content is overwritten, serialising it "
                                    f"never ends)"))
    # ALIASINIT: `a = b = []` binds ONE fresh container to several places: what is appended through one shows in all
    for f in prog.all_funcs():
        if f.module.generated:
            continue
        for n in own_nodes(f.node):
            if isinstance(n, ast.Assign) and len(n.targets) >= 2 and (
                    isinstance(n.value, (ast.List, ast.Dict, ast.Set, ast.ListComp, ast.DictComp, ast.SetComp)) or
                    (isinstance(n.value, ast.Call) and isinstance(n.value.func, ast.Name)
                     and n.value.func.id in ('list', 'dict', 'set', 'defaultdict', 'deque'))):
                tg = [t for t in n.targets if isinstance(t, (ast.Attribute, ast.Name, ast.Subscript))]
                if len(tg) >= 2:
                    out.append((f, n, 'ALIASINIT',
                                f"'{stmt_text(n, 70)}' stores ONE new container under {len(tg)} names: "
                                f"{', '.join(stmt_text(t) for t in tg)} are the same object from here on, whatever is "
                                f"added to one of them appears in the others"))
    # SHALLOWDEFAULT: a mutable default with mutable parts is copied one level deep (`dict(default)`, `.copy()`) and
    # the copy is handed out: the inner containers are still the default's own, shared by every call
    for f in prog.all_funcs():
        if f.module.generated:
            continue
        for p_, d in f.param_default.items():
            if not isinstance(d, (ast.Dict, ast.List)):
                continue
            inner = [x for x in ast.walk(d) if x is not d and isinstance(x, (ast.List, ast.Dict, ast.Set))]
            if not inner:
                continue
            for n in own_nodes(f.node):
                copy_of = None
                if isinstance(n, ast.Call) and isinstance(n.func, ast.Name) and n.func.id in ('dict', 'list') \
                        and len(n.args) == 1 and isinstance(n.args[0], ast.Name) and n.args[0].id == p_:
                    copy_of = n
                elif isinstance(n, ast.Call) and isinstance(n.func, ast.Attribute) and n.func.attr == 'copy' and not n.args \
                        and isinstance(n.func.value, ast.Name) and n.func.value.id == p_:
                    copy_of = n
                elif isinstance(n, ast.Dict) and any(k is None and isinstance(v, ast.Name) and v.id == p_
                                                      for k, v in zip(n.keys, n.values)):
                    copy_of = n
                if copy_of is not None:
                    out.append((f, copy_of, 'SHALLOWDEFAULT',
                                f"'{stmt_text(copy_of, 50)}' copies the default of '{p_}' one level deep; its "
                                f"'{stmt_text(inner[0], 30)}' is still the single object created when the function was "
                                f"defined: every caller that fills the copy fills the same inner container, the content "
                                f"of one call shows up in all later ones"))
    # NAMESPLIT: a full name is '<asset name>:<step name>' and asset names themselves contain ':' (Model.add_asset
    # renames duplicates to 'name:id', unnamed assets are 'Type:id'): the asset part is everything before the LAST
    # colon.  `full_name.split(':')[0]` / `.partition(':')[0]` cut at the first one.
    for f in prog.all_funcs():
        if f.module.generated:
            continue
        for n in own_nodes(f.node):
            if isinstance(n, ast.Subscript) and isinstance(n.value, ast.Call) and isinstance(n.value.func, ast.Attribute) \
                    and n.value.func.attr in ('split', 'partition') and n.value.args \
                    and isinstance(n.value.args[0], ast.Constant) and n.value.args[0].value == ':' \
                    and 'full_name' in stmt_text(n.value.func.value) \
                    and isinstance(n.slice, ast.Constant) and n.slice.value == 0 \
                    and not (n.value.func.attr == 'split' and len(n.value.args) > 1):
                out.append((f, n, 'NAMESPLIT',
                            f"'{stmt_text(n, 60)}' takes the asset part of a full name up to the FIRST colon, but asset "
                            f"names contain colons (a duplicate name becomes 'name:id', an unnamed asset 'Type:id'): "
                            f"such assets are reported under a truncated name - another asset's (use rpartition(':'))"))
    # GROUPBYDICT: itertools.groupby starts a new group whenever the key CHANGES; collected into a dict keyed by the
    # group key, a later run of the same key replaces the earlier one unless the input was sorted by that key
    for f in prog.all_funcs():
        if f.module.generated:
            continue
        for n in own_nodes(f.node):
            gb = None
            if isinstance(n, ast.DictComp) and len(n.generators) == 1:
                it = n.generators[0].iter
                if isinstance(it, ast.Call) and stmt_text(it.func).split('.')[-1] == 'groupby' and it.args:
                    tg = n.generators[0].target
                    if isinstance(tg, ast.Tuple) and tg.elts and isinstance(tg.elts[0], ast.Name) \
                            and isinstance(n.key, ast.Name) and n.key.id == tg.elts[0].id:
                        gb = it
            elif isinstance(n, ast.Call) and isinstance(n.func, ast.Name) and n.func.id == 'dict' and len(n.args) == 1 \
                    and isinstance(n.args[0], ast.Call) and stmt_text(n.args[0].func).split('.')[-1] == 'groupby' and n.args[0].args:
                gb = n.args[0]
            if gb is None:
                continue
            src = gb.args[0]
            if isinstance(src, ast.Name):
                # single definition of the local?
                defs = [a.value for a in own_nodes(f.node) if isinstance(a, ast.Assign) and len(a.targets) == 1
                        and isinstance(a.targets[0], ast.Name) and a.targets[0].id == src.id]
                if len(defs) == 1:
                    src = defs[0]
            is_sorted = isinstance(src, ast.Call) and isinstance(src.func, ast.Name) and src.func.id == 'sorted'
            if not is_sorted:
                out.append((f, n, 'GROUPBYDICT',
                            f"'{stmt_text(n, 70)}' keys a dict by the groupby key of an input that is not sorted by it: "
                            f"groupby only groups ADJACENT items, so when items of one key are interleaved with others "
                            f"the dict keeps the last run and the earlier ones are silently dropped"))
    # NAMEFOLD: names (asset, step, attacker, type and full names) are identifiers: two of them are the same only if they
    # are equal character by character.  Folding case or trimming blanks before comparing / keying / storing
    # (`x.name.strip().lower()`) maps distinct names onto one: lookups return another object, an index slot is shared,
    # a name comes back changed from a file
    for f in prog.all_funcs():
        if f.module.generated:
            continue
        pm_ = None
        for n in own_nodes(f.node):
            if isinstance(n, ast.Call) and isinstance(n.func, ast.Attribute) and not n.args and not n.keywords \
                    and n.func.attr in ('lower', 'casefold', 'upper', 'strip', 'lstrip', 'rstrip', 'title', 'swapcase', 'capitalize'):
                recv = stmt_text(n.func.value, 200)
                if not any(w in recv for w in ('name', 'Name', 'type', 'metaConcept')):
                    continue
                if isinstance(n.func.value, ast.Subscript) and isinstance(n.func.value.slice, ast.Constant) \
                        and isinstance(n.func.value.slice.value, int):
                    continue        # one character of a name (`n[0].lower() + n[1:]`): a spelling rule, not a fold
                if pm_ is None:
                    pm_ = {}
                    for x_ in ast.walk(f.node):
                        for ch_ in ast.iter_child_nodes(x_):
                            pm_[id(ch_)] = x_
                cur_, in_log = pm_.get(id(n)), False
                while cur_ is not None and not isinstance(cur_, ast.stmt):
                    if isinstance(cur_, ast.Call) and isinstance(cur_.func, ast.Attribute) and isinstance(cur_.func.value, ast.Name) \
                            and cur_.func.value.id in ('logger', 'logging'):
                        in_log = True
                    cur_ = pm_.get(id(cur_))
                if in_log or isinstance(cur_, ast.Raise):
                    continue
                out.append((f, n, 'NAMEFOLD',
                            f"'{stmt_text(n, 60)}' folds a name before it is compared, used as a key or stored: names that "
                            f"differ only in case / surrounding blanks ('Web' and 'web', 'db ' and 'db') become the same "
                            f"identifier - the wrong object is found, an index entry is overwritten, or the name read "
                            f"back differs from the one written"))
    # FLOORBATCH: `len(xs) // k` batches of size k cover len(xs) elements only when k divides it: the trailing partial
    # batch is never processed (ceil division / range(0, len(xs), k) is the complete form)
    for f in prog.all_funcs():
        if f.module.generated:
            continue
        floors = [n for n in own_nodes(f.node) if isinstance(n, ast.BinOp) and isinstance(n.op, ast.FloorDiv)
                  and isinstance(n.left, ast.Call) and isinstance(n.left.func, ast.Name) and n.left.func.id == 'len'
                  and n.left.args and isinstance(n.left.args[0], ast.Name)]
        for fl in floors:
            xs = fl.left.args[0].id
            sliced = [s_ for s_ in own_nodes(f.node) if isinstance(s_, ast.Subscript) and isinstance(s_.value, ast.Name)
                      and s_.value.id == xs and isinstance(s_.slice, ast.Slice) and s_.slice.upper is not None
                      and any(isinstance(b, ast.BinOp) and isinstance(b.op, ast.Mult) for b in ast.walk(s_.slice))]
            compensated = any(isinstance(n, ast.BinOp) and isinstance(n.op, ast.Mod) and isinstance(n.left, ast.Call)
                              and stmt_text(n.left) == stmt_text(fl.left) for n in own_nodes(f.node)) or \
                any(isinstance(n, ast.Call) and stmt_text(n.func).endswith('ceil') for n in own_nodes(f.node))
            if sliced and not compensated:
                out.append((f, fl, 'FLOORBATCH',
                            f"'{stmt_text(fl, 50)}' counts whole batches only and '{stmt_text(sliced[0], 50)}' walks that "
                            f"many: when len({xs}) is not a multiple of the batch size the last, partial batch is never "
                            f"processed - those elements are silently left out"))
    # LOOKUPSHORT: get_<thing>_by_id / _by_name answers from the container of <thing>s; a shortcut `return None` decided
    # by ANOTHER container (ids of assets when attackers are looked up ..) assumes a relation between the two that the
    # API does not keep (explicit ids may coincide)
    import re as _re
    for f in prog.all_funcs():
        if f.module.generated or not _re.fullmatch(r'get_\w+_by_(id|name|full_name)', f.name) or f.self_name is None:
            continue
        sn_ = f.self_name
        selfattrs = [x for x in own_nodes(f.node) if isinstance(x, ast.Attribute) and isinstance(x.value, ast.Name)
                     and x.value.id == sn_ and isinstance(x.ctx, ast.Load)]
        for g in own_nodes(f.node):
            if isinstance(g, ast.If) and len(g.body) == 1 and isinstance(g.body[0], ast.Return) and (
                    g.body[0].value is None or (isinstance(g.body[0].value, ast.Constant) and g.body[0].value.value is None)):
                tested = {x.attr for x in ast.walk(g.test) if isinstance(x, ast.Attribute) and isinstance(x.value, ast.Name)
                          and x.value.id == sn_}
                searched = {x.attr for x in selfattrs if not any(x is y for y in ast.walk(g.test))}
                if tested and searched and not (tested & searched):
                    out.append((f, g, 'LOOKUPSHORT',
                                f"'if {stmt_text(g.test, 50)}: return None' answers a lookup in {sorted(searched)} from "
                                f"{sorted(tested)}: nothing keeps the two containers disjoint / in step (explicitly requested "
                                f"ids may coincide), so an existing element is reported as missing"))
    # ITERMUT: the list a `for` walks is changed inside the loop (remove / pop / insert / del / append on the very
    # expression iterated, or a call that is known to remove from it): the iterator skips the element that slides into
    # the freed slot (or never ends)
    REMOVERS_OF = {'nodes': ('remove_node',), 'attackers': ('remove_attacker',), 'assets': ('remove_asset',),
                   'associations': ('remove_association',)}
    for f in prog.all_funcs():
        if f.module.generated:
            continue
        for lp in own_nodes(f.node):
            if not isinstance(lp, ast.For) or not isinstance(lp.iter, (ast.Name, ast.Attribute, ast.Subscript)):
                continue
            it = stmt_text(lp.iter, 200)
            hit = None
            for n in ast.walk(lp):
                if n is lp.iter:
                    continue
                if isinstance(n, ast.Call) and isinstance(n.func, ast.Attribute) and n.func.attr in ('remove', 'pop', 'insert', 'clear') \
                        and stmt_text(n.func.value, 200) == it:
                    hit = n
                if isinstance(n, ast.Delete) and any(isinstance(t, ast.Subscript) and stmt_text(t.value, 200) == it for t in n.targets):
                    hit = n
                if isinstance(lp.iter, ast.Attribute) and isinstance(n, ast.Call) and isinstance(n.func, ast.Attribute) \
                        and n.func.attr in REMOVERS_OF.get(lp.iter.attr, ()) \
                        and stmt_text(n.func.value, 100) == stmt_text(lp.iter.value, 100) \
                        and any(isinstance(a, ast.Name) and a.id in {x.id for x in ast.walk(lp.target) if isinstance(x, ast.Name)}
                                for a in n.args):
                    hit = n
            if hit is not None and not any(isinstance(x, (ast.Break, ast.Return)) for x in ast.walk(lp)
                                           if x is not lp):
                out.append((f, hit, 'ITERMUT',
                            f"'{stmt_text(hit, 50)}' changes '{it}' while 'for {stmt_text(lp.target)} in {it}' walks it (no "
                            f"snapshot): after a removal the next element slides into the freed slot and is skipped - "
                            f"every second candidate of a run is never looked at"))
    # SHAREDINLOOP: one mutable object made before a loop (or once per call) and handed to every object the loop builds /
    # to several parameters of one constructor: the objects share it, what is added through one shows in all
    for f in prog.all_funcs():
        if f.module.generated:
            continue
        fresh = {}
        for n in own_nodes(f.node):
            tg, val = None, None
            if isinstance(n, ast.Assign) and len(n.targets) == 1 and isinstance(n.targets[0], ast.Name):
                tg, val = n.targets[0].id, n.value
            elif isinstance(n, ast.AnnAssign) and isinstance(n.target, ast.Name) and n.value is not None:
                tg, val = n.target.id, n.value
            if tg and (isinstance(val, (ast.List, ast.Dict, ast.Set)) and not getattr(val, 'elts', getattr(val, 'keys', None))
                       or (isinstance(val, ast.Call) and isinstance(val.func, ast.Name) and val.func.id in ('list', 'dict', 'set')
                           and not val.args)):
                fresh.setdefault(tg, []).append(n)
        if not fresh:
            continue
        pm_ = {}
        for x_ in ast.walk(f.node):
            for ch_ in ast.iter_child_nodes(x_):
                pm_[id(ch_)] = x_

        def loops_of(x):
            res, cur_ = [], pm_.get(id(x))
            while cur_ is not None and cur_ is not f.node:
                if isinstance(cur_, (ast.For, ast.While)):
                    res.append(cur_)
                cur_ = pm_.get(id(cur_))
            return res
        for nm, defs in fresh.items():
            if len(defs) != 1:
                continue
            stores_ = sum(1 for x in own_nodes(f.node) if isinstance(x, ast.Name) and x.id == nm and isinstance(x.ctx, ast.Store))
            if stores_ != 1:
                continue
            # the function fills it itself (an accumulator / result list): not handed over for keeping
            if any(isinstance(c, ast.Call) and isinstance(c.func, ast.Attribute) and isinstance(c.func.value, ast.Name)
                   and c.func.value.id == nm and c.func.attr in ('append', 'extend', 'add', 'update', 'insert', 'setdefault')
                   for c in own_nodes(f.node)) or any(
                    isinstance(r, ast.Return) and r.value is not None and any(isinstance(x, ast.Name) and x.id == nm for x in ast.walk(r.value))
                    for r in own_nodes(f.node)):
                continue
            dloops = loops_of(defs[0])
            for c in own_nodes(f.node):
                if not (isinstance(c, ast.Call) and isinstance(c.func, (ast.Name, ast.Attribute))):
                    continue
                callee = c.func.id if isinstance(c.func, ast.Name) else c.func.attr
                is_ctor = callee in prog.classes or callee == 'cls' or callee == 'replace'
                if not is_ctor:
                    continue
                uses = [a for a in list(c.args) + [k.value for k in c.keywords] if isinstance(a, ast.Name) and a.id == nm]
                if not uses:
                    continue
                cl = loops_of(c)
                in_new_loop = any(l not in dloops for l in cl)
                if in_new_loop or len(uses) >= 2:
                    out.append((f, c, 'SHAREDINLOOP',
                                f"'{nm}' is created once ('{stmt_text(defs[0], 40)}') and handed to "
                                + (f"{len(uses)} parameters of '{stmt_text(c.func)}(..)'" if len(uses) >= 2 and not in_new_loop
                                   else f"every '{stmt_text(c.func)}(..)' the loop constructs")
                                + ": the objects keep the very same container, whatever one of them adds to it appears in the "
                                  "others"))
                    break
    # PROTOTYPE: one object built before a loop with container fields, then `dataclasses.replace(proto, ..)` / `copy.copy`
    # per iteration: replace() and copy() take the field VALUES over - every derived object holds the prototype's lists
    for f in prog.all_funcs():
        if f.module.generated:
            continue
        protos = {}
        for n in own_nodes(f.node):
            if isinstance(n, ast.Assign) and len(n.targets) == 1 and isinstance(n.targets[0], ast.Name) \
                    and isinstance(n.value, ast.Call) and isinstance(n.value.func, ast.Name) and n.value.func.id in prog.classes \
                    and any(isinstance(a, (ast.List, ast.Dict, ast.Set)) for a in list(n.value.args) + [k.value for k in n.value.keywords]):
                protos[n.targets[0].id] = n
        if not protos:
            continue
        for lp in own_nodes(f.node):
            if not isinstance(lp, (ast.For, ast.While)):
                continue
            for c in ast.walk(lp):
                if isinstance(c, ast.Call) and c.args and isinstance(c.args[0], ast.Name) and c.args[0].id in protos \
                        and stmt_text(c.func).split('.')[-1] in ('replace', 'copy') \
                        and not any(protos[c.args[0].id] is x for x in ast.walk(lp)):
                    mut_kw = {k.arg for k in c.keywords}
                    shared = [k.arg for k in protos[c.args[0].id].value.keywords
                              if isinstance(k.value, (ast.List, ast.Dict, ast.Set)) and k.arg not in mut_kw]
                    if shared or protos[c.args[0].id].value.args:
                        out.append((f, c, 'PROTOTYPE',
                                    f"'{stmt_text(c, 60)}' derives one object per iteration from '{c.args[0].id}', built once "
                                    f"before the loop: replace / copy keep the prototype's field values, so all derived objects "
                                    f"share its {shared or 'container'} - an element added to one shows up in every other"))
    # STRIPSET: str.strip / lstrip / rstrip take a SET of characters, not a prefix / suffix: `s.rstrip('.attacker')`
    # goes on removing any of . a t c k e r from the end ('write.attacker' -> 'wri')
    for f in prog.all_funcs():
        if f.module.generated:
            continue
        for n in own_nodes(f.node):
            if isinstance(n, ast.Call) and isinstance(n.func, ast.Attribute) and n.func.attr in ('strip', 'lstrip', 'rstrip') \
                    and len(n.args) == 1 and isinstance(n.args[0], ast.Constant) and isinstance(n.args[0].value, str):
                a = n.args[0].value
                if sum(ch.isalnum() for ch in a) >= 2 and len(a) >= 3:
                    out.append((f, n, 'STRIPSET',
                                f"'{stmt_text(n, 70)}' treats {a!r} as a {'prefix' if n.func.attr == 'lstrip' else 'suffix'}, "
                                f"but {n.func.attr} removes every leading / trailing character that occurs in the "
                                f"set {sorted(set(a))}: names that end (start) with such letters are truncated "
                                f"(use removesuffix / removeprefix or split)"))
    # ASCIISTREAM: antlr4.FileStream(fileName, encoding='ascii', errors='strict') - a language source is UTF-8 text
    # (info strings with typographic quotes, umlauts); without the encoding argument any non-ASCII byte raises
    for f in prog.all_funcs():
        if f.module.generated:
            continue
        for n in own_nodes(f.node):
            if isinstance(n, ast.Call) and ((isinstance(n.func, ast.Name) and n.func.id == 'FileStream')
                                            or (isinstance(n.func, ast.Attribute) and n.func.attr == 'FileStream')):
                enc = n.args[1] if len(n.args) > 1 else next((k.value for k in n.keywords if k.arg == 'encoding'), None)
                if any(k.arg is None for k in n.keywords) or any(isinstance(a, ast.Starred) for a in n.args):
                    continue
                if enc is None or (isinstance(enc, ast.Constant) and isinstance(enc.value, str)
                                   and enc.value.lower().replace('_', '-') in ('ascii', 'us-ascii')):
                    out.append((f, n, 'ASCIISTREAM',
                                f"'{stmt_text(n, 70)}' opens the source with antlr4.FileStream's default codec 'ascii' "
                                f"(errors='strict'): a .mal file with a non-ASCII character in a string, define or "
                                f"comment fails with UnicodeDecodeError instead of compiling"))
    return out


def run(ctx) -> list[Inst]:
    prog, an = ctx.prog, ctx.an
    # ---- positive fixture
    fp = Program(FIXTURE)
    fan = Analyzer(fp)
    got = (sorted({f.short for f, *_ in falsy(fp, fan.resolver)}),
           sorted({f.short for f, *_ in mutdefault(fp)}),
           sorted({f.short for f, *_ in genexhaust(fp)}),
           sorted({(x[0].short if x[0] else 'module') for x in globalstate(fp, fan)}))
    want = (['Graph.drop', 'Graph.pick'], ['Graph.attach'], ['pairs'], ['cached_load', 'module', 'remember'])
    if got != want:
        raise AnalysisError(f'R25 positive fixture not reproduced (got {got})')
    insts = []
    nfunc = 0
    bad_f = falsy(prog, ctx.R)
    bad_m = mutdefault(prog)
    bad_g = genexhaust(prog)
    bad_s = globalstate(prog, an)
    flagged = set()
    for (f, e, why) in bad_f:
        rel = f.module.relpath
        flagged.add(f.qname)
        insts.append(Inst(
            RULE, f.short, f'FALSY: truthiness of {stmt_text(e, 60)}', 'violation',
            msg=(f"'{stmt_text(e, 80)}' ({why}) is tested for truthiness: 0 / 0.0 is a legitimate id / defense "
                 f"value and is treated like None (use `is None` / `is not None`)"),
            file=rel, line=e.lineno, props=props_for(f.short, rel)))
    for (f, n, p) in bad_m:
        rel = f.module.relpath
        flagged.add(f.qname)
        insts.append(Inst(
            RULE, f.short, f'MUTDEFAULT: {stmt_text(n, 60)}', 'violation',
            msg=(f"parameter '{p}' has a mutable default and '{stmt_text(n, 80)}' changes it in place: the default "
                 f"object is shared by every call that omits the argument, data of one call leaks into the next"),
            file=rel, line=n.lineno,
            # a shared default carries state from one graph into another: also between a deep copy and its original
            props=tuple(dict.fromkeys(tuple(props_for(f.short, rel)) + ('C16',) + (('C14',) if '/attackgraph/' in rel else ())))))
    for (f, it, name, how) in bad_g:
        rel = f.module.relpath
        flagged.add(f.qname)
        insts.append(Inst(
            RULE, f.short, f'GENEXHAUST: {name} {how}', 'violation',
            msg=(f"'{name}' is a one-shot generator and is {how}: after the first pass it is exhausted and "
                 f"yields nothing, later iterations silently do no work"),
            file=rel, line=it.lineno, props=props_for(f.short, rel)))
    for item in bad_s:
        f, n, msg = item[0], item[1], item[2]
        if f is not None:
            rel = f.module.relpath
            flagged.add(f.qname)
            name = f.short
            props = tuple(dict.fromkeys(props_for(f.short, rel) + ('C16', 'C03')))
        else:
            rel = item[3].relpath
            name = item[3].modname
            props = ('C16', 'C04', 'C03')
        insts.append(Inst(RULE, name, f'GLOBALSTATE: {stmt_text(n, 60)}', 'violation',
                          msg=msg + ': results no longer depend on the inputs only', file=rel,
                          line=getattr(n, 'lineno', 0), props=props))
    for (f, n, kind, msg) in misc_bugclasses(prog, ctx.cfg):
        rel = f.module.relpath
        if kind == 'DCEQ':
            from ..props import MODULE_DEFAULT
            insts.append(Inst(RULE, f.name, f'{kind}: {stmt_text(n, 60)}', 'violation', msg=msg, file=rel,
                              line=n.lineno, props=tuple(dict.fromkeys(MODULE_DEFAULT.get(rel, ()) + ('C15', 'C09')))))
            continue
        flagged.add(f.qname)
        insts.append(Inst(RULE, f.short, f'{kind}: {stmt_text(n, 60)}', 'violation', msg=msg, file=rel,
                          line=getattr(n, 'lineno', f.node.lineno),
                          props=tuple(dict.fromkeys(tuple(props_for(f.short, rel)) + (('C10', 'C09') if kind == 'CACHEDPROP' else ())
                                                    + (tuple(__import__('malsa.props', fromlist=['MODULE_DEFAULT']).MODULE_DEFAULT.get(rel, ()))
                                                       if kind in ('SHAREDINLOOP', 'ITERMUT', 'PROTOTYPE') else ())
                                                    + (('C11',) if kind == 'PROTOTYPE' and '/attackgraph/' in rel else ())
                                                    + (('C08',) if kind == 'ITERMUT' and 'apriori' in rel else ())
                                                    + (('C12',) if kind == 'SHAREDINLOOP' and f.short == 'AttackGraph.attach_attackers' else ())))))
    for f in prog.all_funcs():
        if f.qname in flagged:
            continue
        rel = f.module.relpath
        has_default = any(isinstance(d, (ast.List, ast.Dict, ast.Set)) for d in f.param_default.values())
        tests = sum(1 for n in own_nodes(f.node) if isinstance(n, (ast.If, ast.While, ast.IfExp, ast.BoolOp)))
        insts.append(Inst(RULE, f.short, 'no falsy-zero / mutable-default / generator / global-state defect', 'ok',
                          msg=f'{tests} boolean tests examined' + ('; mutable default never mutated' if has_default else ''),
                          file=rel, line=f.node.lineno, props=props_for(f.short, rel),
                          nontrivial=tests > 0 or has_default))
    return insts
