"""R14 TERM - evaluator loops and recursions have a structural termination argument (C01:
"generation terminates on every finite model, including cyclic and self associations").

In `_process_step_expression` (and module-level helpers it calls):
 (1) every recursive call passes, in the expression position, a strict projection of the expression
     parameter (e['lhs'], e['rhs'], e['stepExpression']) - structural descent - or is the frozen
     *variable expansion* site (the expression comes from the variable table; terminates because
     malc rejects cyclic `let`s: recorded assumption).  A recursive call that passes the SAME
     expression again (with targets obtained by navigation) has no termination argument on cyclic
     models.
 (2) every `while` loop whose body navigates associations is a visited-set worklist: an element
     enters the (next) frontier only under a `not in visited` test and is added to `visited` in the
     same branch; `visited` is never shrunk or reset inside the loop.
"""
from __future__ import annotations

import ast

from ..core import own_nodes, stmt_text, AnalysisError
from ..idioms import membership, is_name
from ..report import Inst

RULE = 'R14'
EVAL = '_process_step_expression'
PROJ = {'lhs', 'rhs', 'stepExpression'}
NAV = 'get_associated_assets_by_field_name'
PROPS = ('C01', 'C02')
PROPS2 = ('C01', 'C02', 'C15')   # closure+ (non-reflexive): what the language graph's typing of field* assumes


def run(ctx) -> list[Inst]:
    prog = ctx.prog
    f = prog.func(EVAL)
    rel = f.module.relpath
    cfg = ctx.cfg(f)
    R = ctx.R(f)
    from .r19_flow import evaluator_roles, _arg as _arg19
    roles = evaluator_roles(f)
    if roles is None:
        return [Inst(RULE, EVAL, 'evaluator parameters', 'unproven', msg='parameter roles not recognised', file=rel,
                     line=f.node.lineno, props=PROPS2, nontrivial=False)]
    P_E = roles[3]
    P_T = roles[2]
    insts = []
    nrec = 0
    for n in own_nodes(f.node):
        if isinstance(n, ast.Call) and isinstance(n.func, ast.Name) and n.func.id == EVAL:
            nrec += 1
            e = _arg19(n, f, P_E)
            t = _arg19(n, f, P_T)
            node = cfg.owner(n)
            construct = f'(1) recursive call with expression {stmt_text(e)}'
            if isinstance(e, ast.Subscript) and is_name(e.value, P_E) and isinstance(e.slice, ast.Constant) \
                    and e.slice.value in PROJ:
                insts.append(Inst(RULE, EVAL, construct, 'ok', msg='structural descent', file=rel,
                                  line=n.lineno, props=PROPS))
                continue
            vid = R.value_id(e, node) if e is not None else None
            if vid == ('param', P_E):
                insts.append(Inst(
                    RULE, EVAL, construct, 'violation',
                    msg=(f"the call re-evaluates the SAME expression on '{stmt_text(t)}' (targets obtained by "
                         f"navigation) with no visited set: on a model whose associations contain a cycle or a "
                         f"self-link the recursion never ends (RecursionError)"),
                    file=rel, line=n.lineno, props=PROPS))
                continue
            # variable expansion: expression bound from the variable table
            src = None
            if isinstance(e, ast.Name):
                for d in cfg.reaching(node, e.id):
                    if d.kind == 'stmt' and isinstance(d.ast, ast.Assign) and isinstance(d.ast.value, ast.Call) \
                            and '_get_variable_for_asset_type_by_name' in stmt_text(d.ast.value.func):
                        src = 'variable'
            if src == 'variable':
                insts.append(Inst(RULE, EVAL, construct, 'ok',
                                  msg='variable expansion (assumption: the compiler rejects cyclic lets)',
                                  file=rel, line=n.lineno, props=PROPS))
            else:
                insts.append(Inst(RULE, EVAL, construct, 'unproven',
                                  msg='expression argument is neither a projection nor the variable table',
                                  file=rel, line=n.lineno, props=PROPS))
    if nrec < 5:
        # the evaluator no longer calls itself by name in a form this rule follows (a bound partial, a dispatch
        # table, an explicit stack): structural descent is not decided
        insts.append(Inst(RULE, EVAL, '(1) recursive calls descend structurally', 'unproven',
                          msg=f'only {nrec} recursive calls by name found: evaluator restructured', file=rel,
                          line=f.node.lineno, props=PROPS))
    # ---------------------------------------------------------------- (2) worklists
    for g in [f] + [x for x in prog.all_funcs() if x.module is f.module and x.cls is None and x is not f]:
        for n in own_nodes(g.node):
            if not isinstance(n, ast.While):
                continue
            navigates = any(isinstance(c, ast.Call) and isinstance(c.func, ast.Attribute) and c.func.attr == NAV
                            for c in ast.walk(n))
            if not navigates:
                continue
            construct = f'(2) while {stmt_text(n.test)}: visited-set worklist'
            ok, why = _worklist(n, ctx.cfg(g))
            if ok:
                # the visited set starts EMPTY: a start asset that is reached again (cycle, self-link, or
                # from another start asset) belongs to closure+ and must not be filtered out
                vs = _visited_names(n)
                for V in vs:
                    for st in own_nodes(g.node):
                        if isinstance(st, ast.Assign) and any(is_name(t, V) for t in st.targets) \
                                and st.lineno < n.lineno:
                            v = st.value
                            empty = (isinstance(v, ast.Call) and isinstance(v.func, ast.Name)
                                     and v.func.id in ('set', 'list', 'dict') and not v.args) or \
                                (isinstance(v, (ast.List, ast.Set, ast.Dict, ast.Tuple)) and not getattr(v, 'elts', getattr(v, 'keys', [])))
                            if not empty:
                                ok = False
                                why = (f"the visited set '{V}' is pre-filled with '{stmt_text(v, 60)}': an asset of the "
                                       f"start set that is reached again (cycle / self-link / from another start "
                                       f"asset) is dropped, the result falls below the transitive closure+")
                if not ok:
                    insts.append(Inst(RULE, g.short, '(2) visited set of the transitive closure starts empty',
                                      'violation', msg=why, file=g.module.relpath, line=n.lineno, props=PROPS2))
                    continue
            insts.append(Inst(RULE, g.short, construct, 'ok' if ok else 'violation',
                              msg='' if ok else
                              (f"the loop navigates associations but is not a visited-guarded worklist ({why}): "
                               f"it does not terminate on cyclic or self-linked models"),
                              file=g.module.relpath, line=n.lineno, props=PROPS2))
    return insts


def _worklist(w: ast.While, cfg=None):
    if not isinstance(w.test, ast.Name):
        # `while frontier != []` / len(frontier) > 0
        names = [x.id for x in ast.walk(w.test) if isinstance(x, ast.Name) and x.id != 'len']
        lens = [x.args[0].id for x in ast.walk(w.test) if isinstance(x, ast.Call) and isinstance(x.func, ast.Name)
                and x.func.id == 'len' and len(x.args) == 1 and isinstance(x.args[0], ast.Name)]
        if len(names) == 2 and len(lens) == 1 and isinstance(w.test, ast.Compare) and len(w.test.ops) == 1 \
                and isinstance(w.test.ops[0], (ast.Lt, ast.Gt, ast.NotEq)):
            # index scan of a list that grows while it is scanned: `while i < len(work)`; i must advance
            idx = [nm for nm in names if nm != lens[0]]
            adv = any(isinstance(x, ast.AugAssign) and isinstance(x.target, ast.Name) and x.target.id == idx[0]
                      and isinstance(x.op, ast.Add) for x in ast.walk(w)) if idx else False
            if not adv:
                return False, 'the scan index is not advanced in the loop'
            names = [lens[0]]
        if len(names) != 1:
            return False, 'loop condition is not a frontier variable'
        W = names[0]
    else:
        W = w.test.id
    # lists that feed the frontier: W itself and any F with `W = F` / `W = list(F)` inside the loop
    feeds = {W}
    for n in ast.walk(w):
        if isinstance(n, ast.Assign) and len(n.targets) == 1 and is_name(n.targets[0], W):
            for x in ast.walk(n.value):
                if isinstance(x, ast.Name):
                    feeds.add(x.id)
    # parent map for guards
    pm = {}
    for n in ast.walk(w):
        for ch in ast.iter_child_nodes(n):
            pm[id(ch)] = n
    adds = []
    for n in ast.walk(w):
        if isinstance(n, ast.Call) and isinstance(n.func, ast.Attribute) and n.func.attr in ('append', 'extend', 'add') \
                and isinstance(n.func.value, ast.Name) and n.func.value.id in feeds and n.args:
            adds.append(n)
    if not adds:
        # W shrinks only (pop) and nothing is added: terminates trivially
        return True, ''
    visited_names = set()
    for a in adds:
        arg = a.args[0]
        if not isinstance(arg, ast.Name):
            return False, f"'{stmt_text(a)}' adds a whole navigation result to the frontier without a visited test"
        x = arg.id
        # enclosing if with `x(.id) not in V`
        cur = a
        guard = None
        while id(cur) in pm and pm[id(cur)] is not w:
            par = pm[id(cur)]
            if isinstance(par, ast.If) and any(cur is s or _contains(s, cur) for s in par.body):
                m = membership(par.test, x)
                if m is not None and m[0] is False and m[2] == 'member' and isinstance(m[1], ast.Name):
                    guard = (par, m[1].id)
                    break
            cur = par
        region = None
        if guard is None and cfg is not None:
            # guard clause form: `if x in V: continue` earlier in the same iteration - an if-node that dominates the
            # add, tests membership of x in V, and whose "is a member" branch cannot reach the add in this iteration
            anode = cfg.owner(a)
            hdr = anode.loop if anode is not None else None
            for gnode in (cfg.nodes if anode is not None else []):
                if gnode.kind != 'if' or gnode is anode or not cfg.dominates(gnode, anode):
                    continue
                m = membership(gnode.ast.test, x)
                if m is None or m[2] != 'member' or not isinstance(m[1], ast.Name):
                    continue
                member_lab = 'T' if m[0] else 'F'
                avoid = {hdr.idx} if hdr is not None else set()
                outer = hdr
                while outer is not None:
                    avoid.add(outer.idx)
                    outer = outer.loop
                reach = set()
                for t, l in gnode.succ:
                    if l == member_lab:
                        reach |= {t.idx} | cfg.reachable_from(t, avoiding=avoid)
                if anode.idx not in reach:
                    guard = (gnode.ast, m[1].id)
                    # statements controlled by the non-member branch, up to the add: the region where V must be marked
                    region = [n_.ast for n_ in cfg.nodes if cfg.dominates(gnode, n_) and n_.loop is anode.loop
                              and n_.kind == 'stmt']
                    break
        if guard is None:
            return False, f"'{stmt_text(a)}' is not guarded by a 'not in visited' test of '{x}'"
        ifn, V = guard
        scope = region if region is not None else ifn.body
        marked = any(isinstance(c, ast.Call) and isinstance(c.func, ast.Attribute)
                     and c.func.attr in ('add', 'append') and is_name(c.func.value, V)
                     for s in scope for c in ast.walk(s))
        if not marked:
            return False, f"'{x}' is never added to '{V}' in the guarded branch"
        visited_names.add(V)
    for V in visited_names:
        for n in ast.walk(w):
            if isinstance(n, ast.Assign) and any(is_name(t, V) for t in n.targets):
                return False, f"'{V}' is reset inside the loop"
            if isinstance(n, ast.Call) and isinstance(n.func, ast.Attribute) and is_name(n.func.value, V) \
                    and n.func.attr in ('remove', 'discard', 'pop', 'clear'):
                return False, f"'{V}' is shrunk inside the loop"
    return True, ''


def _visited_names(w: ast.While):
    out = set()
    for n in ast.walk(w):
        if isinstance(n, ast.If):
            for sub in ast.walk(n.test):
                if isinstance(sub, ast.Compare) and len(sub.ops) == 1 and isinstance(sub.ops[0], ast.NotIn) \
                        and isinstance(sub.comparators[0], ast.Name):
                    V = sub.comparators[0].id
                    if any(isinstance(c, ast.Call) and isinstance(c.func, ast.Attribute) and c.func.attr in ('add', 'append')
                           and is_name(c.func.value, V) for s in n.body for c in ast.walk(s)):
                        out.add(V)
    return out


def _contains(stmt, node) -> bool:
    return any(x is node for x in ast.walk(stmt))
