"""R4 KEY - ids: explicit id honoured, uniqueness guard tests the stored key, counter monotone,
names unique.

For each id adder (slot table below):
 (a) the id stored on the object is selected by an ``is None`` / ``is not None`` test on the
     explicit-id parameter, never by truthiness (``x or counter``, ``if x:``) - id 0 is an id;
 (b) where the adder keeps an index of used ids, a duplicate test ``k in D`` whose true branch
     raises dominates the store ``D[k] = ...`` / ``S.add(k)`` and tests THE SAME VALUE of k that is
     stored (reaching definitions of attribute k between test and store are compared);
 (c) the counter is advanced so that it never falls at or below a stored id
     (``max(id + 1, counter)`` or an equivalent guarded assignment);
 (d) Model.add_asset: the value of ``asset.name`` that reaches ``asset_names.add`` was tested
     ``in asset_names`` after its last assignment on every path.
"""
from __future__ import annotations

import ast

from ..core import stmt_text, own_nodes
from ..report import Inst
from ..props import props_for

RULE = 'R4'

ADDERS = [
    # function, explicit id param, object param, counter attr, index attr, props
    ('AttackGraph.add_node', 'node_id', 'node', 'next_node_id', '_id_to_node', ('C02', 'C09', 'C10')),
    ('AttackGraph.add_attacker', 'attacker_id', 'attacker', 'next_attacker_id', '_id_to_attacker',
     ('C09', 'C10')),
    ('Model.add_asset', 'asset_id', 'asset', 'next_id', 'asset_ids', ('C05', 'C07', 'C18', 'C19')),
    ('Model.add_attacker', 'attacker_id', 'attacker', 'next_id', None, ('C05', 'C07', 'C18', 'C19')),
]


def _is_none_test(test, param):
    """-> 'is-none' | 'is-not-none' | 'truthy' | 'falsy' | None for a test on `param`."""
    if isinstance(test, ast.Compare) and len(test.ops) == 1 and isinstance(test.left, ast.Name) \
            and test.left.id == param and isinstance(test.comparators[0], ast.Constant) \
            and test.comparators[0].value is None:
        if isinstance(test.ops[0], (ast.Is, ast.Eq)):
            return 'is-none'
        if isinstance(test.ops[0], (ast.IsNot, ast.NotEq)):
            return 'is-not-none'
    if isinstance(test, ast.Name) and test.id == param:
        return 'truthy'
    if isinstance(test, ast.UnaryOp) and isinstance(test.op, ast.Not) and isinstance(test.operand, ast.Name) \
            and test.operand.id == param:
        return 'falsy'
    return None


def _expand(R, cfg, e, node, depth=0):
    """copy-propagate local names (single reaching definition, plain assignment)."""
    if depth > 6:
        return e, node
    if isinstance(e, ast.Name) and node is not None:
        defs = cfg.reaching(node, e.id)
        if len(defs) == 1 and defs[0].kind == 'stmt':
            a = defs[0].ast
            if isinstance(a, ast.Assign) and len(a.targets) == 1 and isinstance(a.targets[0], ast.Name):
                return _expand(R, cfg, a.value, defs[0], depth + 1)
            if isinstance(a, ast.AnnAssign) and a.value is not None:
                return _expand(R, cfg, a.value, defs[0], depth + 1)
    return e, node


def _attr_assignments(f, cfg, R, obj_param, attr):
    """CFG nodes that assign <obj_param>.<attr> (directly or via setattr)."""
    out = []
    for n in own_nodes(f.node):
        tgts = []
        val = None
        if isinstance(n, ast.Assign):
            tgts, val = n.targets, n.value
        elif isinstance(n, ast.AnnAssign) and n.value is not None:
            tgts, val = [n.target], n.value
        elif isinstance(n, ast.AugAssign):
            tgts, val = [n.target], n
        for t in tgts:
            if isinstance(t, ast.Attribute) and t.attr == attr:
                node = cfg.node_of(n)
                v = R.value_id(t.value, node)
                if v == ('param', obj_param):
                    out.append((node, val, n))
    return out


def _reaching_attr_defs(cfg, assign_nodes, use_node):
    """which assignments of the attribute (or 'init' = value at function entry) reach use_node."""
    aset = {a.idx for a in assign_nodes}
    out = set()
    seen = set()
    st = list(use_node.pred)
    while st:
        x = st.pop()
        if x.idx in seen:
            continue
        seen.add(x.idx)
        if x.idx in aset:
            out.add(x.idx)
            continue
        if x is cfg.entry:
            out.add('init')
            continue
        st.extend(x.pred)
    return out


def _always_raises(cfg, ifnode, label):
    """every path from the `label` branch of ifnode ends in raise (never reaches exit)."""
    starts = [t for t, l in ifnode.succ if l == label]
    if not starts:
        return False
    seen = set()
    st = list(starts)
    while st:
        x = st.pop()
        if x is cfg.exit:
            return False
        if x.idx in seen:
            continue
        seen.add(x.idx)
        # leaving through a loop back edge etc. is still "not raising" only if exit reachable
        st.extend(t for t, _ in x.succ)
    return True


def run(ctx) -> list[Inst]:
    prog = ctx.prog
    insts: list[Inst] = []
    for (fname, idp, objp, counter, index, props) in ADDERS:
        f = prog.func(fname)
        if idp not in f.params or objp not in f.params:
            raise_msg = f'{fname}: parameters {idp}/{objp} not found (slot table out of date)'
            from ..core import AnalysisError
            raise AnalysisError(raise_msg)
        cfg = ctx.cfg(f)
        R = ctx.R(f)
        rel = f.module.relpath
        selfn = f.self_name
        id_assigns = _attr_assignments(f, cfg, R, objp, 'id')
        # ------------------------------------------------------------ (a) selection
        construct_a = f'(a) explicit id selection for {objp}.id'
        verdict, msg, line = None, '', f.node.lineno
        if not id_assigns:
            verdict, msg = 'unproven', f'no assignment to {objp}.id found'
        for (node, val, st) in id_assigns:
            v, vnode = _expand(R, cfg, val, node)
            line = st.lineno
            if isinstance(v, ast.BoolOp) and isinstance(v.op, ast.Or) and any(
                    isinstance(x, ast.Name) and x.id == idp for x in v.values[:-1]):
                verdict, msg = 'violation', (
                    f"'{stmt_text(st)}' selects the id by truthiness ('{stmt_text(v)}'): an "
                    f"explicit id 0 is replaced by the counter")
                break
            if isinstance(v, ast.IfExp):
                t = _is_none_test(v.test, idp)
                if t in ('truthy', 'falsy'):
                    verdict, msg = 'violation', (
                        f"'{stmt_text(st)}' tests the explicit id by truthiness: id 0 is not honoured")
                    break
                if t == 'is-not-none' and isinstance(v.body, ast.Name) and v.body.id == idp:
                    verdict = verdict or 'ok'
                    continue
                if t == 'is-none' and isinstance(v.orelse, ast.Name) and v.orelse.id == idp:
                    verdict = verdict or 'ok'
                    continue
                verdict, msg = 'unproven', f"unrecognised selection '{stmt_text(v)}'"
                continue
            if isinstance(v, ast.Name) and v.id == idp:
                # plain obj.id = param: must sit under an is-not-None test of the param
                ok = False
                bad = False
                for n in cfg.nodes:
                    if n.kind == 'if' and cfg.dominates(n, node):
                        t = _is_none_test(n.ast.test, idp)
                        if t is None:
                            continue
                        tsucc = [s for s, l in n.succ if l == 'T']
                        fsucc = [s for s, l in n.succ if l == 'F']
                        in_true = any(cfg.dominates(s, node) for s in tsucc)
                        in_false = any(cfg.dominates(s, node) for s in fsucc)
                        if (t == 'is-not-none' and in_true) or (t == 'is-none' and in_false):
                            ok = True
                        if (t == 'truthy' and in_true) or (t == 'falsy' and in_false):
                            bad = True
                if bad:
                    verdict, msg = 'violation', (
                        f"'{stmt_text(st)}' is guarded by a truthiness test of {idp}: id 0 is not honoured")
                    break
                if ok:
                    verdict = verdict or 'ok'
                else:
                    verdict, msg = 'unproven', f"'{stmt_text(st)}' not under a None test of {idp}"
                continue
            # assignment from the counter (the else side of an if) or something else
            txt = stmt_text(v)
            if counter in txt:
                verdict = verdict or 'ok'
                continue
            verdict, msg = 'unproven', f"unrecognised id source '{txt}'"
        insts.append(Inst(RULE, fname, construct_a, verdict or 'unproven', msg=msg, file=rel,
                          line=line, props=props))

        # ------------------------------------------------------------ (b) guard vs store
        if index is not None:
            construct_b = f'(b) uniqueness guard on {index} tests the stored key'
            stores = []     # (node, key expr)
            guards = []     # (ifnode, key expr)
            for n in own_nodes(f.node):
                if isinstance(n, (ast.Assign, ast.AnnAssign)):
                    tgts = n.targets if isinstance(n, ast.Assign) else [n.target]
                    for t in tgts:
                        if isinstance(t, ast.Subscript) and isinstance(t.value, ast.Attribute) \
                                and t.value.attr == index:
                            stores.append((cfg.node_of(n), t.slice, n))
                elif isinstance(n, ast.Call) and isinstance(n.func, ast.Attribute) \
                        and n.func.attr in ('add', 'setdefault') and isinstance(n.func.value, ast.Attribute) \
                        and n.func.value.attr == index and n.args:
                    stores.append((cfg.owner(n), n.args[0], n))
            for n in cfg.nodes:
                if n.kind != 'if':
                    continue
                test = n.ast.test
                for sub in ast.walk(test):
                    if isinstance(sub, ast.Compare) and len(sub.ops) == 1 \
                            and isinstance(sub.ops[0], (ast.In, ast.NotIn)) \
                            and isinstance(sub.comparators[0], ast.Attribute) \
                            and sub.comparators[0].attr == index:
                        lab = 'T' if isinstance(sub.ops[0], ast.In) else 'F'
                        if sub is not test and not (isinstance(test, ast.UnaryOp)):
                            continue
                        if _always_raises(cfg, n, lab):
                            guards.append((n, sub.left))
            if not stores:
                insts.append(Inst(RULE, fname, construct_b, 'unproven',
                                  msg=f'no store into {index} found', file=rel, line=f.node.lineno,
                                  props=props))
            for (snode, skey, sst) in stores:
                dom_guards = [(g, k) for g, k in guards if cfg.dominates(g, snode)]
                if not dom_guards:
                    insts.append(Inst(
                        RULE, fname, construct_b, 'violation',
                        msg=(f"'{stmt_text(sst)}' stores into {index} but no raising duplicate test "
                             f"'<key> in {index}' dominates it: a second object can take a used id"),
                        file=rel, line=sst.lineno, props=props))
                    continue
                ok = False
                why = ''
                for g, gkey in dom_guards:
                    sv = _key_value(cfg, R, f, objp, skey, snode)
                    gv = _key_value(cfg, R, f, objp, gkey, g)
                    if sv is not None and sv == gv:
                        ok = True
                        break
                    why = (f"the guard at line {g.lineno} tests '{stmt_text(gkey)}' "
                           f"(value: {_show(gv)}) but the store uses '{stmt_text(skey)}' "
                           f"(value: {_show(sv)})")
                if ok:
                    insts.append(Inst(RULE, fname, construct_b, 'ok', file=rel, line=sst.lineno,
                                      props=props))
                else:
                    insts.append(Inst(
                        RULE, fname, construct_b, 'violation',
                        msg=(f"duplicate test and store disagree on the key: {why}; the id actually "
                             f"stored is never checked against {index}"),
                        file=rel, line=sst.lineno, props=props))

        # ------------------------------------------------------------ (c) counter
        construct_c = f'(c) {counter} advanced past the stored id'
        cassign = []
        for n in own_nodes(f.node):
            tg = None
            if isinstance(n, ast.Assign) and len(n.targets) == 1:
                tg = n.targets[0]
            elif isinstance(n, ast.AugAssign):
                tg = n.target
            if isinstance(tg, ast.Attribute) and tg.attr == counter and isinstance(tg.value, ast.Name) \
                    and tg.value.id == selfn:
                cassign.append(n)
        if not cassign:
            insts.append(Inst(RULE, fname, construct_c, 'violation',
                              msg=f'{fname} never advances {counter}: the next automatic id collides',
                              file=rel, line=f.node.lineno, props=props))
        for n in cassign:
            node = cfg.node_of(n)
            verdict, msg = 'unproven', f"unrecognised counter update '{stmt_text(n)}'"
            if isinstance(n, ast.AugAssign):
                verdict, msg = 'violation', (
                    f"'{stmt_text(n)}' ignores the id actually stored: after an explicit larger id the "
                    f"counter re-issues used ids")
            else:
                v = n.value
                if isinstance(v, ast.Call) and isinstance(v.func, ast.Name) and v.func.id == 'max' \
                        and len(v.args) == 2:
                    texts = [stmt_text(a) for a in v.args]
                    has_counter = any(counter in t and '+' not in t for t in texts)
                    has_id = any(_is_id_plus_one(a, objp, idp, cfg, R, node) for a in v.args)
                    if has_counter and has_id:
                        verdict, msg = 'ok', ''
                elif _is_id_plus_one(v, objp, idp, cfg, R, node):
                    # unconditional id + 1: fine only under a guard comparing id and counter
                    guarded = any(g.kind == 'if' and cfg.dominates(g, node) and counter in stmt_text(g.ast.test)
                                  for g in cfg.nodes)
                    if guarded:
                        verdict, msg = 'ok', ''
                    else:
                        verdict, msg = 'violation', (
                            f"'{stmt_text(n)}' lets the counter fall back below ids already issued "
                            f"when a smaller explicit id is added")
            insts.append(Inst(RULE, fname, construct_c, verdict, msg=msg, file=rel, line=n.lineno,
                              props=props))

    # ---------------------------------------------------------------- (d) name uniqueness
    f = prog.func('Model.add_asset')
    cfg = ctx.cfg(f)
    R = ctx.R(f)
    rel = f.module.relpath
    props_d = ('C02', 'C05', 'C01')
    construct_d = '(d) asset.name reaching asset_names.add was tested after its last assignment'
    adds = []
    for n in own_nodes(f.node):
        if isinstance(n, ast.Call) and isinstance(n.func, ast.Attribute) and n.func.attr == 'add' \
                and isinstance(n.func.value, ast.Attribute) and n.func.value.attr == 'asset_names':
            adds.append((cfg.owner(n), n))
    name_assigns = _attr_assignments(f, cfg, R, 'asset', 'name')
    # setattr-free repository: direct assignments only
    anodes = {a[0].idx: a for a in name_assigns}
    if not adds:
        insts.append(Inst(RULE, f.short, construct_d, 'violation',
                          msg='asset names are never recorded in asset_names', file=rel,
                          line=f.node.lineno, props=props_d))
    for (snode, call) in adds:
        # the value that ends up in asset_names is followed backwards: through `asset.name = <local>` and
        # `<local> = <local>` copies; a membership test of the followed expression in asset_names whose
        # "not in" branch is taken ends the search on that path (tested); any other definition is untested
        def tests_of(n):
            """-> {tracked text: label of the 'not in asset_names' branch} for an if / while node"""
            out = {}
            if n.kind not in ('if', 'while'):
                return out
            t = n.ast.test
            neg = False
            if isinstance(t, ast.UnaryOp) and isinstance(t.op, ast.Not):
                neg, t = True, t.operand
            if isinstance(t, ast.Compare) and len(t.ops) == 1 and isinstance(t.ops[0], (ast.In, ast.NotIn)) \
                    and isinstance(t.comparators[0], ast.Attribute) and t.comparators[0].attr == 'asset_names':
                is_in = isinstance(t.ops[0], ast.In) != neg
                lab = 'F' if is_in else 'T'
                if isinstance(t.left, ast.Attribute) and t.left.attr == 'name' \
                        and R.value_id(t.left.value, n) == ('param', 'asset'):
                    out['asset.name'] = lab
                elif isinstance(t.left, ast.Name):
                    out[t.left.id] = lab
            return out

        def local_def(p, tracked):
            """assignment node p defines the tracked local: -> new tracked text / 'BAD' / None (not a def)"""
            if p.kind != 'stmt' or not isinstance(p.ast, ast.Assign) or len(p.ast.targets) != 1:
                return None
            tg = p.ast.targets[0]
            if isinstance(tg, ast.Name) and tg.id == tracked:
                v = p.ast.value
                if isinstance(v, ast.Name):
                    return v.id
                if isinstance(v, ast.Attribute) and v.attr == 'name' and isinstance(v.value, ast.Name) \
                        and v.value.id == 'asset':
                    return 'asset.name'
                if isinstance(v, ast.Constant) and v.value is None:
                    return 'NONE'       # "keep the name": never stored (guarded by `is not None`)
                return 'BAD'
            return None

        def none_test(p):
            """`if v is None` / `if v is not None` -> (v, label of the branch on which v IS None)"""
            if p.kind not in ('if', 'while'):
                return None
            t = p.ast.test
            if isinstance(t, ast.Compare) and len(t.ops) == 1 and isinstance(t.left, ast.Name) \
                    and isinstance(t.comparators[0], ast.Constant) and t.comparators[0].value is None:
                if isinstance(t.ops[0], (ast.Is, ast.Eq)):
                    return t.left.id, 'T'
                if isinstance(t.ops[0], (ast.IsNot, ast.NotEq)):
                    return t.left.id, 'F'
            return None

        bad = []
        seen = set()
        # what is recorded: the asset's name, or a local (followed through its definitions like any other copy)
        arg0 = call.args[0] if call.args else None
        start_tracked = 'asset.name'
        if isinstance(arg0, ast.Name):
            start_tracked = arg0.id
        elif not (isinstance(arg0, ast.Attribute) and arg0.attr == 'name'):
            start_tracked = 'asset.name'
        st = [(snode, start_tracked, frozenset())]
        if isinstance(arg0, ast.Name):
            # ... and the local must BE the asset's name at that point: on every path from its definition to the add,
            # asset.name is not given another value (else a name other than the asset's own is reserved)
            stale = None
            for d in cfg.reaching(snode, arg0.id):
                if d.kind == 'stmt' and isinstance(d.ast, ast.Assign) and isinstance(d.ast.value, ast.Attribute) \
                        and d.ast.value.attr == 'name' and isinstance(d.ast.value.value, ast.Name) and d.ast.value.value.id == 'asset':
                    reach = cfg.reachable_from(d, avoiding=set())
                    for a in name_assigns:
                        if a[0].idx in reach and snode.idx in cfg.reachable_from(a[0], avoiding=set()) and a[0].idx != d.idx:
                            rhs = a[2].value if isinstance(a[2], ast.Assign) else None
                            if not (isinstance(rhs, ast.Name) and rhs.id == arg0.id):
                                stale = a
            if stale is not None:
                insts.append(Inst(
                    RULE, f.short, '(d) the name recorded in asset_names is the name the asset ends up with', 'violation',
                    msg=(f"'{stmt_text(call)}' records '{arg0.id}', a copy of asset.name taken before "
                         f"'{stmt_text(stale[2], 60)}' changes it: the name the asset finally carries is not reserved, a "
                         f"later asset may be given exactly that name - two live assets share a name"),
                    file=rel, line=call.lineno, props=props_d))
        while st:
            x, tracked, nones = st.pop()
            for p in x.pred:
                labs = [l for t, l in p.succ if t is x]
                tmap = tests_of(p)
                if tracked in tmap and all(l == tmap[tracked] for l in labs):
                    continue
                # correlation through "x is None": walking back over the None-branch of a test of v means v is
                # None on this path; an assignment of something that cannot be None to v contradicts it
                nn = nones
                ntst = none_test(p)
                if ntst is not None and len(labs) == 1:
                    v_, none_lab = ntst
                    if labs[0] == none_lab:
                        nn = nones | {v_}
                if p.kind == 'stmt' and isinstance(p.ast, ast.Assign) and len(p.ast.targets) == 1 \
                        and isinstance(p.ast.targets[0], ast.Name) and p.ast.targets[0].id in nn:
                    val = p.ast.value
                    if isinstance(val, ast.Constant) and val.value is None:
                        nn = nn - {p.ast.targets[0].id}
                    elif isinstance(val, ast.Name):
                        nn = (nn - {p.ast.targets[0].id}) | {val.id}
                    else:
                        continue        # infeasible: v was assigned a non-None value but is None later
                nones_next = nn
                nxt = tracked
                if tracked == 'asset.name' and p.idx in anodes:
                    rhs = anodes[p.idx][2].value if isinstance(anodes[p.idx][2], ast.Assign) else None
                    if isinstance(rhs, ast.Name):
                        nxt = rhs.id            # follow the local the name was taken from
                    else:
                        bad.append(anodes[p.idx])
                        continue
                elif tracked != 'asset.name':
                    d = local_def(p, tracked)
                    if d == 'BAD':
                        # a freshly computed candidate: fine only if a test of it follows - it did not (we came
                        # from the use without meeting one)
                        bad.append((p, None, p.ast))
                        continue
                    if d == 'NONE':
                        continue
                    if d is not None:
                        nxt = d
                if p is cfg.entry:
                    if nxt == 'asset.name':
                        bad.append(None)
                    continue
                if (p.idx, nxt, nones_next) in seen:
                    continue
                seen.add((p.idx, nxt, nones_next))
                st.append((p, nxt, nones_next))
        # raising branches do not reach the add: prune definitions whose only way is through raise
        if not bad:
            insts.append(Inst(RULE, f.short, construct_d, 'ok', file=rel, line=call.lineno,
                              props=props_d))
        # membership tests against asset_names this walk cannot interpret (inside a generator / comprehension /
        # any(), part of a compound condition, on a computed expression): the name may well be tested there
        understood = set()
        for g in cfg.nodes:
            if tests_of(g):
                t = g.ast.test
                if isinstance(t, ast.UnaryOp):
                    t = t.operand
                understood.add(id(t))
        opaque_tests = [c for c in own_nodes(f.node) if isinstance(c, ast.Compare) and len(c.ops) == 1
                        and isinstance(c.ops[0], (ast.In, ast.NotIn)) and isinstance(c.comparators[0], ast.Attribute)
                        and c.comparators[0].attr == 'asset_names' and id(c) not in understood]
        for b in bad:
            what = 'the incoming name' if b is None else f"'{stmt_text(b[2])}'"
            if opaque_tests:
                insts.append(Inst(
                    RULE, f.short, construct_d + (f' [{stmt_text(b[2])}]' if b else ' [incoming]'), 'unproven',
                    msg=(f"{what} is not followed by a test this rule can read, but '{stmt_text(opaque_tests[0], 80)}' "
                         f"tests asset_names in a form that is not interpreted"),
                    file=rel, line=(b[2].lineno if b else call.lineno), props=props_d))
                continue
            insts.append(Inst(
                RULE, f.short, construct_d + (f' [{stmt_text(b[2])}]' if b else ' [incoming]'),
                'violation',
                msg=(f"{what} reaches asset_names.add without a membership test after it: two live "
                     f"assets can end up with the same name (e.g. names A, A:2, A with ids 1,2,3)"),
                file=rel, line=(b[2].lineno if b else call.lineno), props=props_d))
    insts += _stable_keys(ctx)
    insts += _remove_self(ctx)
    return insts


REMOVERS = [
    # function, object parameter, primary container attribute, props
    ('Model.remove_attacker', 'attacker', 'attackers', ('C05',)),
    ('Model.remove_asset', 'asset', 'assets', ('C05',)),
    ('Model.remove_association', 'association', 'associations', ('C05',)),
    ('AttackGraph.remove_node', 'node', 'nodes', ('C09', 'C13')),
    ('AttackGraph.remove_attacker', 'attacker', 'attackers', ('C09', 'C11')),
]


def _remove_self(ctx) -> list[Inst]:
    """(f) a remover takes out THE object it was given: `C.remove(obj)` (or an index obtained from obj itself).
    Selecting the element to delete by comparing a key (`cand.id == obj.id`) removes a look-alike whenever that key
    is not guaranteed unique in the container (Model attacker ids are not: add_attacker accepts duplicates)."""
    from .r08_codec import UNIQUE_KEYS
    prog = ctx.prog
    insts = []
    for fname, objp, cattr, props in REMOVERS:
        if not prog.has_func(fname):
            continue
        f = prog.func(fname)
        rel = f.module.relpath
        env = prog.env(f)
        construct = f'(f) {fname} removes the object it was given from {cattr}'
        found = None
        for n in own_nodes(f.node):
            # self.C.remove(obj)
            if isinstance(n, ast.Call) and isinstance(n.func, ast.Attribute) and n.func.attr == 'remove' \
                    and isinstance(n.func.value, ast.Attribute) and n.func.value.attr == cattr and n.args:
                a = n.args[0]
                found = ('ok', n, '') if isinstance(a, ast.Name) and a.id == objp else \
                    ('unproven', n, f"'{stmt_text(n)}' removes something other than the parameter")
            # del self.C[i] / self.C.pop(i)
            tgt = None
            if isinstance(n, ast.Delete):
                for t in n.targets:
                    if isinstance(t, ast.Subscript) and isinstance(t.value, ast.Attribute) and t.value.attr == cattr:
                        tgt = (n, t.slice)
            if isinstance(n, ast.Call) and isinstance(n.func, ast.Attribute) and n.func.attr == 'pop' \
                    and isinstance(n.func.value, ast.Attribute) and n.func.value.attr == cattr and n.args:
                tgt = (n, n.args[0])
            if tgt is not None:
                stn, idx = tgt
                itxt = stmt_text(idx)
                if f'.index({objp})' in itxt:
                    found = ('ok', stn, '')
                    continue
                # index chosen by a comparison in an enclosing if: which fields are compared?
                keys = []
                for g in own_nodes(f.node):
                    if isinstance(g, ast.If) and any(x is stn for b in g.body for x in ast.walk(b)):
                        for cmp_ in ast.walk(g.test):
                            if isinstance(cmp_, ast.Compare) and len(cmp_.ops) == 1 and isinstance(cmp_.ops[0], ast.Eq):
                                l, r = cmp_.left, cmp_.comparators[0]
                                if isinstance(l, ast.Attribute) and isinstance(r, ast.Attribute) and l.attr == r.attr \
                                        and any(isinstance(z, ast.Name) and z.id == objp for z in (l.value, r.value)):
                                    keys.append((l.attr, cmp_))
                            if isinstance(cmp_, ast.Compare) and len(cmp_.ops) == 1 and isinstance(cmp_.ops[0], ast.Is) \
                                    and any(isinstance(z, ast.Name) and z.id == objp
                                            for z in (cmp_.left, cmp_.comparators[0])):
                                keys.append(('<identity>', cmp_))
                if any(k == '<identity>' for k, _ in keys):
                    found = ('ok', stn, '')
                elif keys:
                    k, c_ = keys[0]
                    t = env.type_of(ast.Name(id=objp, ctx=ast.Load()))
                    owner = t[1] if t[0] == 'cls' else 'pjs'
                    if (owner, k) in UNIQUE_KEYS:
                        found = ('ok', stn, f'{owner}.{k} is unique')
                    else:
                        found = ('violation', stn,
                                 f"'{stmt_text(stn, 60)}' deletes the first element whose {k} equals {objp}.{k} "
                                 f"('{stmt_text(c_)}'), not {objp} itself: {owner}.{k} is not guaranteed unique in "
                                 f"{cattr}, so another object is removed and {objp} stays")
                else:
                    found = found or ('unproven', stn, 'how the deleted position is chosen is not recognised')
        if found is None:
            insts.append(Inst(RULE, fname, construct, 'unproven', msg=f'no removal from {cattr} recognised', file=rel,
                              line=f.node.lineno, props=props))
        else:
            v, n, msg = found
            insts.append(Inst(RULE, fname, construct, v, msg=msg, file=rel, line=n.lineno, props=props))
    return insts


def _property_reads(prog, env, obj_expr, attr):
    """fields a property getter `attr` of the object's class reads from self (one level)."""
    t = env.type_of(obj_expr)
    if t[0] != 'cls':
        return None
    c = prog.classes.get(t[1])
    if c is None or attr not in c.methods:
        return None
    m = c.methods[attr]
    if not any('property' in stmt_text(d) for d in m.node.decorator_list):
        return None
    return {n.attr for n in own_nodes(m.node) if isinstance(n, ast.Attribute) and isinstance(n.value, ast.Name)
            and n.value.id == m.self_name and isinstance(n.ctx, ast.Load)}


def _stable_keys(ctx) -> list[Inst]:
    """(e) an object is filed in a lookup dictionary under a key read from its own fields
    (``D[x.k] = x``, also through a property such as full_name): no path from that store reaches a
    later assignment to one of those fields of x in the same function - otherwise the object sits
    under the key it had BEFORE the assignment (stale key: lookups by the real key miss it)."""
    prog = ctx.prog
    insts = []
    for f in prog.all_funcs():
        if f.cls is None or f.cls.name not in ('AttackGraph', 'Model', 'LanguageGraph'):
            continue
        cfg = ctx.cfg(f)
        env = prog.env(f)
        rel = f.module.relpath
        for n in own_nodes(f.node):
            if not (isinstance(n, ast.Assign) and len(n.targets) == 1 and isinstance(n.targets[0], ast.Subscript)
                    and isinstance(n.value, ast.Name)):
                continue
            t = n.targets[0]
            if not (isinstance(t.value, ast.Attribute) and isinstance(t.value.value, ast.Name)
                    and t.value.value.id == f.self_name):
                continue
            x = n.value.id
            fields = set()
            for sub in ast.walk(t.slice):
                if isinstance(sub, ast.Attribute) and isinstance(sub.value, ast.Name) and sub.value.id == x:
                    pr = _property_reads(prog, env, sub.value, sub.attr)
                    fields |= pr if pr is not None else {sub.attr}
            if not fields:
                continue
            store = cfg.node_of(n)
            if store is None:
                continue
            after = cfg.reachable_from(store)
            late = []
            for m in own_nodes(f.node):
                if isinstance(m, (ast.Assign, ast.AugAssign, ast.AnnAssign)):
                    tg = m.targets if isinstance(m, ast.Assign) else [m.target]
                    for g in tg:
                        if isinstance(g, ast.Attribute) and isinstance(g.value, ast.Name) and g.value.id == x \
                                and g.attr in fields:
                            mn = cfg.node_of(m)
                            if mn is not None and mn.idx in after:
                                late.append(m)
            construct = f'(e) key of {stmt_text(t.value)} is read after {x}.{{{",".join(sorted(fields))}}} are final'
            if late:
                insts.append(Inst(
                    RULE, f.short, construct, 'violation',
                    msg=(f"'{stmt_text(n, 70)}' files {x} under a key computed from its fields, but "
                         f"'{stmt_text(late[0], 60)}' changes such a field afterwards: the dictionary keeps the key "
                         f"{x} had before (lookups by the real key miss it, the stale key stays behind)"),
                    file=rel, line=n.lineno, props=props_for(f.short, rel)))
            else:
                insts.append(Inst(RULE, f.short, construct, 'ok', file=rel, line=n.lineno,
                                  props=props_for(f.short, rel)))
    return insts


def _is_id_plus_one(e, objp, idp, cfg, R, node):
    if isinstance(e, ast.BinOp) and isinstance(e.op, ast.Add) and isinstance(e.right, ast.Constant) \
            and e.right.value == 1:
        l = e.left
        if isinstance(l, ast.Attribute) and l.attr == 'id' and isinstance(l.value, ast.Name) \
                and l.value.id == objp:
            return True
        if isinstance(l, ast.Name):
            v, _ = _expand(R, cfg, l, node)
            return True if isinstance(v, (ast.IfExp, ast.Name, ast.BoolOp)) else False
    return False


def _key_value(cfg, R, f, objp, key, at):
    """value identity of a key expression at a CFG node; <obj>.id is resolved through the
    assignments of the attribute that reach the node."""
    if isinstance(key, ast.Attribute) and key.attr == 'id':
        if R.value_id(key.value, at) == ('param', objp):
            assigns = _attr_assignments(f, cfg, R, objp, 'id')
            nodes = [a[0] for a in assigns]
            reach = _reaching_attr_defs(cfg, nodes, at)
            if len(reach) == 1:
                r = next(iter(reach))
                if r == 'init':
                    return ('attr-init', objp, 'id')
                a = [x for x in assigns if x[0].idx == r][0]
                v = R.value_id(a[1], a[0]) if isinstance(a[1], ast.expr) else None
                if v is not None:
                    return v
                return ('attr-def', r)
            return ('attr-multi', tuple(sorted(str(x) for x in reach)))
    v = R.value_id(key, at)
    if v is None and isinstance(key, ast.Name):
        # a local with several definitions (e.g. a parameter defaulted under `if x is None`): its value at this
        # point is identified by the SET of definitions that reach it - equal sets at guard and store, with no
        # definition in between, mean the same value
        defs = tuple(sorted(d.idx for d in cfg.reaching(at, key.id)))
        if defs:
            return ('defs', key.id, defs)
    return v


def _show(v):
    if v is None:
        return 'unknown'
    if v and v[0] == 'attr-init':
        return f'{v[1]}.{v[2]} as passed in (before any assignment)'
    if v and v[0] == 'attr-def':
        return f'value assigned at CFG node {v[1]}'
    return str(v)
