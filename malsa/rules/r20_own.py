"""R20 OWN - who may read what.

CLOSURE   The inheritance link fields ``sub_assets`` / ``super_assets`` are read only by the
          closure functions (is_subasset_of, get_all_subassets, get_all_superassets), by the code
          that builds / pushes associations down the hierarchy, by to_dict and by the class factory
          (direct ``allOf`` parents).  Anywhere else a direct read is a non-transitive (one level)
          sub-type test: indirect descendants / ancestors are missed.
OWNNODES  A graph attacker only ever reaches nodes taken from the graph's own containers: the
          argument of ``attacker.compromise(...)`` and whatever is appended to an attacker's
          ``entry_points`` inside AttackGraph.attach_attackers / add_attacker comes from
          ``self.nodes`` / ``self._id_to_node`` / ``self._full_name_to_node`` (directly or through
          get_node_by_id / get_node_by_full_name), never from model-side caches such as
          ``asset.attack_step_nodes`` (those belong to whichever graph was generated last).
"""
from __future__ import annotations

import ast

from ..core import own_nodes, stmt_text
from ..props import props_for
from ..report import Inst

RULE = 'R20'
CLOSURE_FIELDS = {'sub_assets', 'super_assets'}
CLOSURE_READERS = {
    'LanguageGraphAsset.to_dict', 'LanguageGraphAsset.is_subasset_of', 'LanguageGraphAsset.get_all_subassets',
    'LanguageGraphAsset.get_all_superassets', 'LanguageGraph._generate_graph',
    'LanguageClassesFactory._generate_assets',
}
OWN_FUNCS = ['AttackGraph.attach_attackers', 'AttackGraph.add_attacker']
OWN_CONTAINERS = {'nodes', '_id_to_node', '_full_name_to_node'}


def run(ctx) -> list[Inst]:
    prog = ctx.prog
    insts = []
    # ---------------------------------------------------------------- CLOSURE
    nreads = 0
    for f in prog.all_funcs():
        rel = f.module.relpath
        for n in own_nodes(f.node):
            if isinstance(n, ast.Attribute) and n.attr in CLOSURE_FIELDS and isinstance(n.ctx, ast.Load):
                nreads += 1
                construct = f'CLOSURE: read of .{n.attr}'
                top = f.short
                allowed = top in CLOSURE_READERS or any(top.startswith(a + '.') for a in CLOSURE_READERS)
                props = props_for(f.short, rel) or ('C15',)
                if allowed:
                    insts.append(Inst(RULE, f.short, construct, 'ok', file=rel, line=n.lineno,
                                      props=('C15',) + tuple(p for p in props if p != 'C15')))
                else:
                    insts.append(Inst(
                        RULE, f.short, construct, 'violation',
                        msg=(f"'{stmt_text(n)}' reads the direct inheritance links outside the closure functions: "
                             f"only one level of the hierarchy is considered, indirect sub-types / super-types are "
                             f"missed (use is_subasset_of / get_all_subassets / get_all_superassets)"),
                        file=rel, line=n.lineno, props=props))
    # ---------------------------------------------------------------- OWNNODES
    for fname in OWN_FUNCS:
        f = prog.func(fname)
        rel = f.module.relpath
        cfg = ctx.cfg(f)
        R = ctx.R(f)
        selfn = f.self_name
        for n in own_nodes(f.node):
            if not isinstance(n, ast.Call) or not isinstance(n.func, ast.Attribute) or not n.args:
                continue
            what = None
            if n.func.attr == 'compromise':
                what = n.args[0]
            elif n.func.attr == 'append' and isinstance(n.func.value, ast.Attribute) \
                    and n.func.value.attr in ('entry_points', 'reached_attack_steps'):
                what = n.args[0]
            if what is None:
                continue
            node = cfg.owner(n)
            paths = R.paths(what, node)
            construct = f'OWNNODES: {stmt_text(n, 60)} takes a node of this graph'
            bad = [p for p in paths if not (p.root == ('param', selfn) and p.steps and p.steps[0] in OWN_CONTAINERS)
                   and p.root[0] != 'fresh']
            unknown = [p for p in bad if p.root[0] in ('unk', 'ret', 'global')]
            foreign = [p for p in bad if p.root[0] == 'param']
            if not bad and paths:
                insts.append(Inst(RULE, fname, construct, 'ok', msg=', '.join(repr(p) for p in paths), file=rel,
                                  line=n.lineno, props=('C11', 'C09')))
            elif foreign:
                insts.append(Inst(
                    RULE, fname, construct, 'violation',
                    msg=(f"'{stmt_text(what)}' may be {foreign[0]!r}, which is not one of this graph's node "
                         f"containers: after a second graph was generated from the same model (or a node was "
                         f"removed) the attacker reaches nodes that are not in this graph"),
                    file=rel, line=n.lineno, props=('C11', 'C09')))
            else:
                insts.append(Inst(RULE, fname, construct, 'unproven',
                                  msg='origin: ' + ', '.join(repr(p) for p in paths), file=rel, line=n.lineno,
                                  props=('C11', 'C09')))
    return insts
