"""R20 OWN - who may read what.

CLOSURE   The inheritance link fields ``sub_assets`` / ``super_assets`` are read only by the
          closure functions (is_subasset_of, get_all_subassets, get_all_superassets), by the code
          that builds / pushes associations down the hierarchy, by to_dict and by the class factory
          (direct ``allOf`` parents).  Anywhere else a direct read is a non-transitive (one level)
          sub-type test: indirect descendants / ancestors are missed.
CLOSUREFN The closure functions themselves compute a reflexive-transitive closure in the right direction:
          each reads only its own link field (super_assets for is_subasset_of / get_all_superassets,
          sub_assets for get_all_subassets), iterates it transitively (a worklist fed with the link of the
          element taken from the worklist, a recursive call, or delegation to another closure function) and
          includes the asset itself.  Unknown shapes are 'unproven'.
OWNNODES  A graph attacker only ever reaches nodes taken from the graph's own containers: the
          argument of ``attacker.compromise(...)`` and whatever is appended to an attacker's
          ``entry_points`` inside AttackGraph.attach_attackers / add_attacker comes from
          ``self.nodes`` / ``self._id_to_node`` / ``self._full_name_to_node`` (directly or through
          get_node_by_id / get_node_by_full_name), never from model-side caches such as
          ``asset.attack_step_nodes`` (those belong to whichever graph was generated last).
"""
from __future__ import annotations

import ast

from ..core import own_nodes, stmt_text
from ..props import props_for
from ..report import Inst

RULE = 'R20'
CLOSURE_FIELDS = {'sub_assets', 'super_assets'}
CLOSURE_READERS = {
    'LanguageGraphAsset.to_dict', 'LanguageGraphAsset.is_subasset_of', 'LanguageGraphAsset.get_all_subassets',
    'LanguageGraphAsset.get_all_superassets', 'LanguageGraph._generate_graph',
    'LanguageClassesFactory._generate_assets',
}
OWN_FUNCS = ['AttackGraph.attach_attackers', 'AttackGraph.add_attacker']
OWN_CONTAINERS = {'nodes', '_id_to_node', '_full_name_to_node'}


CLOSURE_FUNCS = {
    'LanguageGraphAsset.is_subasset_of': 'super_assets',
    'LanguageGraphAsset.get_all_subassets': 'sub_assets',
    'LanguageGraphAsset.get_all_superassets': 'super_assets',
}


def _is_transitive_walk(f, link=None) -> bool:
    """does f walk a link field transitively: a loop whose worklist is fed with the links of the element taken from
    the worklist (directly or through a local), or a recursive call?"""
    selfn = f.self_name
    for c in own_nodes(f.node):
        if isinstance(c, ast.Call) and isinstance(c.func, ast.Attribute) and c.func.attr == f.name:
            return True
    for lp in [n for n in own_nodes(f.node) if isinstance(n, (ast.While, ast.For))]:
        for n in ast.walk(lp):
            if isinstance(n, ast.Call) and isinstance(n.func, ast.Attribute) and n.func.attr in ('extend', 'append', 'update', 'add') \
                    and isinstance(n.func.value, ast.Name) and n.args:
                wl = n.func.value.id
                arg = n.args[0]
                if isinstance(arg, ast.Name):
                    for a_ in ast.walk(lp):
                        if isinstance(a_, ast.Assign) and len(a_.targets) == 1 and isinstance(a_.targets[0], ast.Name) \
                                and a_.targets[0].id == arg.id:
                            arg = a_.value
                            break
                reads = [x for x in ast.walk(arg) if isinstance(x, ast.Attribute) and x.attr in CLOSURE_FIELDS
                         and (link is None or x.attr == link)]
                consumed = (isinstance(lp, ast.While) and any(isinstance(x, ast.Name) and x.id == wl for x in ast.walk(lp.test))) or \
                    any(isinstance(x, ast.Call) and isinstance(x.func, ast.Attribute) and x.func.attr in ('pop', 'popleft')
                        and isinstance(x.func.value, ast.Name) and x.func.value.id == wl for x in ast.walk(lp))
                if reads and consumed and not all(isinstance(x.value, ast.Name) and x.value.id == selfn for x in reads):
                    return True
    return False


def _closure_functions(ctx) -> list[Inst]:
    prog = ctx.prog
    insts = []
    props = ('C15', 'C01', 'C02')
    for fname, link in CLOSURE_FUNCS.items():
        f = prog.func(fname)
        rel = f.module.relpath
        selfn = f.self_name
        reads = [n for n in own_nodes(f.node) if isinstance(n, ast.Attribute) and n.attr in CLOSURE_FIELDS
                 and isinstance(n.ctx, ast.Load)]
        calls = [n for n in own_nodes(f.node) if isinstance(n, ast.Call) and isinstance(n.func, ast.Attribute)]
        delegates = [c for c in calls if c.func.attr in ('get_all_subassets', 'get_all_superassets', 'is_subasset_of')
                     and c.func.attr != f.name]
        # delegation to another method of the class that walks the links transitively
        if f.cls is not None:
            for c in calls:
                g_ = f.cls.methods.get(c.func.attr)
                if g_ is not None and g_ is not f and c not in delegates and _is_transitive_walk(g_, link):
                    delegates.append(c)
        recursive = [c for c in calls if c.func.attr == f.name]
        # (a) direction
        construct = f'CLOSUREFN: {f.name} follows {link} only'
        wrong = [r for r in reads if r.attr != link]
        wrong_deleg = [c for c in delegates if (c.func.attr == 'get_all_subassets') != (link == 'sub_assets')
                       and c.func.attr != 'is_subasset_of']
        if wrong or wrong_deleg:
            w = wrong[0] if wrong else wrong_deleg[0]
            insts.append(Inst(
                RULE, f.short, construct, 'violation',
                msg=(f"'{stmt_text(w)}' walks the hierarchy in the wrong direction: {f.name} must follow {link} "
                     f"(sub-types and super-types get exchanged)"),
                file=rel, line=w.lineno, props=props))
        elif reads or delegates:
            insts.append(Inst(RULE, f.short, construct, 'ok', file=rel, line=f.node.lineno, props=props))
        else:
            insts.append(Inst(RULE, f.short, construct, 'unproven', msg='no link read and no delegation found',
                              file=rel, line=f.node.lineno, props=props))
        # (b) transitivity
        construct = f'CLOSUREFN: {f.name} is transitive'
        loops = [n for n in own_nodes(f.node) if isinstance(n, (ast.While, ast.For))]
        fed = False
        why = ''
        for lp in loops:
            # names that receive elements inside the loop and are also consumed by it
            for n in ast.walk(lp):
                if isinstance(n, ast.Call) and isinstance(n.func, ast.Attribute) and n.func.attr in ('extend', 'append', 'update', 'add') \
                        and isinstance(n.func.value, ast.Name) and n.args:
                    wl = n.func.value.id
                    arg = n.args[0]
                    if isinstance(arg, ast.Name):
                        # the links may be taken into a local first: `nxt = wl.pop().sub_assets; wl.extend(nxt)`
                        for a_ in ast.walk(lp):
                            if isinstance(a_, ast.Assign) and len(a_.targets) == 1 and isinstance(a_.targets[0], ast.Name) \
                                    and a_.targets[0].id == arg.id:
                                arg = a_.value
                                break
                    link_reads = [x for x in ast.walk(arg) if isinstance(x, ast.Attribute) and x.attr == link]
                    consumed = isinstance(lp, ast.While) and any(
                        isinstance(x, ast.Name) and x.id == wl for x in ast.walk(lp.test)) or \
                        any(isinstance(x, ast.Call) and isinstance(x.func, ast.Attribute) and x.func.attr == 'pop'
                            and isinstance(x.func.value, ast.Name) and x.func.value.id == wl for x in ast.walk(lp))
                    if link_reads and consumed:
                        base = link_reads[0].value
                        if isinstance(base, ast.Name) and base.id == selfn:
                            why = (f"'{stmt_text(n)}' feeds the worklist with the links of the asset itself, not of "
                                   f"the asset taken from the worklist: only one level is explored")
                        else:
                            fed = True
                if isinstance(n, ast.AugAssign) and isinstance(n.target, ast.Name) and \
                        any(isinstance(x, ast.Attribute) and x.attr == link and not (
                            isinstance(x.value, ast.Name) and x.value.id == selfn) for x in ast.walk(n.value)):
                    fed = True
        if fed or recursive or delegates:
            insts.append(Inst(RULE, f.short, construct, 'ok',
                              msg='worklist fed from the popped element' if fed else
                              ('recursive' if recursive else 'delegates to a closure function'),
                              file=rel, line=f.node.lineno, props=props))
        elif reads:
            insts.append(Inst(
                RULE, f.short, construct, 'violation',
                msg=(why or f"{f.name} reads .{link} but neither iterates a worklist fed from the visited assets "
                            f"nor recurses: only direct {link} are considered, indirect ones are missed"),
                file=rel, line=reads[0].lineno, props=props))
        else:
            insts.append(Inst(RULE, f.short, construct, 'unproven', msg='shape not recognised', file=rel,
                              line=f.node.lineno, props=props))
        # (c) reflexivity
        construct = f'CLOSUREFN: {f.name} includes the asset itself'
        has_self_list = any(isinstance(n, ast.List) and any(isinstance(e, ast.Name) and e.id == selfn for e in n.elts)
                            for n in own_nodes(f.node))
        self_eq = any(isinstance(n, ast.Compare) and len(n.ops) == 1 and isinstance(n.ops[0], (ast.Eq, ast.Is))
                      and any(isinstance(x, ast.Name) and x.id == selfn for x in (n.left, n.comparators[0]))
                      for n in own_nodes(f.node))
        if f.name == 'is_subasset_of':
            ok = has_self_list or self_eq
        else:
            # every list that is returned starts from [self]
            ok = has_self_list
            rets = [n for n in own_nodes(f.node) if isinstance(n, ast.Return) and isinstance(n.value, ast.Name)]
            for r in rets:
                for n in own_nodes(f.node):
                    if isinstance(n, ast.Assign) and len(n.targets) == 1 and isinstance(n.targets[0], ast.Name) \
                            and n.targets[0].id == r.value.id and n.lineno < r.lineno:
                        v = n.value
                        starts_self = isinstance(v, ast.List) and any(isinstance(e, ast.Name) and e.id == selfn for e in v.elts)
                        empty_or_links = (isinstance(v, ast.List) and not v.elts) or \
                            any(isinstance(x, ast.Attribute) and x.attr == link for x in ast.walk(v))
                        if not starts_self and empty_or_links:
                            selfadd = any(isinstance(c, ast.Call) and isinstance(c.func, ast.Attribute)
                                          and c.func.attr in ('append', 'insert') and isinstance(c.func.value, ast.Name)
                                          and c.func.value.id == r.value.id and
                                          any(isinstance(a, ast.Name) and a.id == selfn for a in c.args)
                                          for c in own_nodes(f.node) if isinstance(c, ast.Call))
                            if not selfadd:
                                ok = False
                                insts.append(Inst(
                                    RULE, f.short, construct, 'violation',
                                    msg=(f"the result list starts as '{stmt_text(v, 50)}' and the asset itself is never "
                                         f"added: {f.name} returns the strict closure, but the documented result "
                                         f"(and the sub-type tests built on it) include the asset itself"),
                                    file=rel, line=n.lineno, props=props))
                                break
                else:
                    continue
                break
            else:
                insts.append(Inst(RULE, f.short, construct, 'ok' if ok else 'unproven',
                                  msg='' if ok else 'no [self] start found', file=rel, line=f.node.lineno, props=props))
            continue
        insts.append(Inst(RULE, f.short, construct, 'ok' if ok else 'unproven',
                          msg='' if ok else 'no [self] start and no equality with self found', file=rel,
                          line=f.node.lineno, props=props))
    return insts


def _build_order(ctx) -> list[Inst]:
    """BUILDORDER  while LanguageGraph._generate_graph is filling `<asset>.attack_steps` (one pass over self.assets),
    nothing in that pass reads the attack_steps of ANOTHER asset: declarations may come in any order (a sub-type
    before its super-type), so such a read sees whatever happens to be built already.  Likewise a single element
    of super_assets / sub_assets (`x.super_assets[0]`) is never a substitute for the closure."""
    prog = ctx.prog
    insts = []
    props = ('C03', 'C15', 'C01')
    # (1) indexed access into the link lists, anywhere
    for f in prog.all_funcs():
        rel = f.module.relpath
        for n in own_nodes(f.node):
            if isinstance(n, ast.Subscript) and isinstance(n.value, ast.Attribute) and n.value.attr in CLOSURE_FIELDS \
                    and not isinstance(n.slice, ast.Slice):
                insts.append(Inst(
                    RULE, f.short, f'BUILDORDER: {stmt_text(n, 50)} takes one element of the inheritance links', 'violation',
                    msg=(f"'{stmt_text(n, 60)}' stands for the whole inheritance relation: indirect ancestors / further "
                         f"parents are ignored, and what the element itself has been given so far depends on the order "
                         f"in which the assets are processed"),
                    file=rel, line=n.lineno, props=tuple(dict.fromkeys(props + tuple(props_for(f.short, rel))))))
    # (2) the filling pass
    f = prog.func('LanguageGraph._generate_graph')
    cfg = ctx.cfg(f)
    rel = f.module.relpath
    fills = []
    for n in own_nodes(f.node):
        if isinstance(n, ast.Call) and isinstance(n.func, ast.Attribute) and n.func.attr == 'append' \
                and isinstance(n.func.value, ast.Attribute) and n.func.value.attr == 'attack_steps' \
                and isinstance(n.func.value.value, ast.Name) and n.func.value.value.id != f.self_name:
            fills.append(n)
    construct = 'BUILDORDER: the pass that fills asset.attack_steps reads no other asset\'s attack_steps'
    if not fills:
        insts.append(Inst(RULE, f.short, construct, 'unproven', msg='filling pass not recognised', file=rel,
                          line=f.node.lineno, props=props))
        return insts
    bad = None
    for fill in fills:
        node = cfg.owner(fill)
        outer = node.loop
        while outer is not None and outer.loop is not None:
            outer = outer.loop
        if outer is None:
            continue
        owner_name = fill.func.value.value.id
        for x in cfg.nodes:
            l = x.loop
            inside = x is outer
            while l is not None and not inside:
                inside = l is outer
                l = l.loop
            if not inside:
                continue
            roots = [x.ast.test] if x.kind in ('if', 'while') else ([x.ast.iter] if x.kind == 'for' else (
                [x.ast] if x.kind == 'stmt' else []))
            for r in roots:
                for a in ast.walk(r):
                    if isinstance(a, ast.Attribute) and a.attr == 'attack_steps' and isinstance(a.ctx, ast.Load) \
                            and not (isinstance(a.value, ast.Name) and a.value.id in (owner_name, f.self_name)):
                        bad = a
    if bad is not None:
        insts.append(Inst(
            RULE, f.short, construct, 'violation',
            msg=(f"'{stmt_text(bad, 60)}' is read inside the pass that is still creating the attack steps of the "
                 f"assets: for an asset processed before the one it reads from (a sub-type declared before its "
                 f"super-type) the list is still empty, the result depends on the declaration order"),
            file=rel, line=bad.lineno, props=props))
    else:
        insts.append(Inst(RULE, f.short, construct, 'ok', file=rel, line=fills[0].lineno, props=props))
    return insts


def _own_default(ctx) -> list[Inst]:
    """OWNDEFAULT  the schema default of a defense property is the default state of THAT (already folded) step: in
    LanguageClassesFactory._generate_assets every `.ttc` read is on the loop variable whose `.name` keys the property
    being written.  A default state fetched from another definition (an ancestor's step of the same name, a table
    built elsewhere) resurrects what an overriding '->' redefinition replaced."""
    f = ctx.prog.funcs.get('LanguageClassesFactory._generate_assets') if hasattr(ctx.prog, 'funcs') else None
    if f is None:
        try:
            f = ctx.prog.func('LanguageClassesFactory._generate_assets')
        except Exception:
            return []
    rel = f.module.relpath
    construct = "OWNDEFAULT: a defense property's default comes from that step's own ttc"
    props = ('C03', 'C06')
    reads = [n for n in ast.walk(f.node) if isinstance(n, ast.Attribute) and n.attr == 'ttc' and isinstance(n.ctx, ast.Load)]
    if not reads:
        return [Inst(RULE, f.short, construct, 'unproven', msg='no .ttc read in the function (computed elsewhere)',
                     file=rel, line=f.node.lineno, props=props, nontrivial=False)]
    # the loop variable that names the property: `for d in ...: entry['properties'][d.name] = {...}`
    owners = set()
    for lp in ast.walk(f.node):
        if isinstance(lp, ast.For) and isinstance(lp.target, ast.Name):
            v = lp.target.id
            nested = {id(x) for sub in ast.walk(lp) if isinstance(sub, ast.For) and sub is not lp for x in ast.walk(sub)}
            for st in ast.walk(lp):
                if id(st) in nested:
                    continue
                if isinstance(st, ast.Assign) and isinstance(st.targets[0], ast.Subscript):
                    k = st.targets[0].slice
                    if isinstance(k, ast.Attribute) and isinstance(k.value, ast.Name) and k.value.id == v and k.attr == 'name' \
                            and any(isinstance(r, ast.Attribute) and r.attr == 'ttc' and id(r) not in nested
                                    for r in ast.walk(lp)):
                        owners.add(v)
    if len(owners) != 1:
        return [Inst(RULE, f.short, construct, 'unproven', msg='property loop not recognised', file=rel,
                     line=f.node.lineno, props=props, nontrivial=False)]
    owner = next(iter(owners))
    out = []
    for r in reads:
        if isinstance(r.value, ast.Name) and r.value.id == owner:
            out.append(Inst(RULE, f.short, construct, 'ok', msg=stmt_text(r), file=rel, line=r.lineno, props=props))
        elif isinstance(r.value, ast.Name):
            out.append(Inst(
                RULE, f.short, construct, 'violation',
                msg=(f"'{stmt_text(r)}' takes a default state from another step than '{owner}', the one whose property "
                     f"is written: the folded step already is what the type exposes ('->' replaces the inherited "
                     f"definition with its default state), a default fetched elsewhere disagrees with it"),
                file=rel, line=r.lineno, props=props))
        else:
            out.append(Inst(RULE, f.short, construct, 'unproven', msg=f"'{stmt_text(r)}'", file=rel, line=r.lineno,
                            props=props, nontrivial=False))
    return out


LABELS = {'is_viable', 'is_necessary'}
LABEL_WRITERS_MODULES = ('maltoolbox/attackgraph/analyzers/apriori.py',)
LABEL_WRITERS = {'AttackGraph._from_dict'}      # restores what a file recorded


def _label_owner(ctx) -> list[Inst]:
    """LABELOWN  the analysis labels start at the top of the lattice (True) and are only ever lowered by the apriori
    analysis; the greatest fixed point is reached only from there.  Outside the analysis module, the node class and
    the graph reader, a store to is_viable / is_necessary (attribute store, setattr, constructor keyword) may only
    put the constant True."""
    out = []
    props = ('C08',)
    funcs = [f for f in ctx.prog.all_funcs() if not f.module.generated]
    callers = {}
    for g in funcs:
        try:
            for h in ctx.an.callees(g):
                callers.setdefault(h.qname, set()).add(g.qname)
        except Exception:
            pass
    ok_q = {f.qname for f in funcs if f.module.relpath in LABEL_WRITERS_MODULES or f.short in LABEL_WRITERS or
            (f.cls is not None and f.cls.name == 'AttackGraphNode')}
    # helpers that only the allowed writers call (the reader split into pieces) are writers of the same kind
    changed = True
    while changed:
        changed = False
        for f in funcs:
            if f.qname not in ok_q and callers.get(f.qname) and callers[f.qname] <= ok_q:
                ok_q.add(f.qname)
                changed = True
    for f in funcs:
        rel = f.module.relpath
        allowed = f.qname in ok_q
        stores = []      # (node, label, value or None)
        for n in own_nodes(f.node):
            if isinstance(n, ast.Assign):
                for t in n.targets:
                    if isinstance(t, ast.Attribute) and t.attr in LABELS:
                        stores.append((n, t.attr, n.value))
                    elif isinstance(t, (ast.Tuple, ast.List)):
                        for i, e in enumerate(t.elts):
                            if isinstance(e, ast.Attribute) and e.attr in LABELS:
                                v = n.value.elts[i] if isinstance(n.value, (ast.Tuple, ast.List)) and \
                                    len(n.value.elts) == len(t.elts) else None
                                stores.append((n, e.attr, v))
            elif isinstance(n, (ast.AugAssign, ast.AnnAssign)) and isinstance(n.target, ast.Attribute) \
                    and n.target.attr in LABELS:
                stores.append((n, n.target.attr, getattr(n, 'value', None) if isinstance(n, ast.AnnAssign) else None))
            elif isinstance(n, ast.Call) and isinstance(n.func, ast.Name) and n.func.id == 'setattr' and len(n.args) == 3 \
                    and isinstance(n.args[1], ast.Constant) and n.args[1].value in LABELS:
                stores.append((n, n.args[1].value, n.args[2]))
            elif isinstance(n, ast.Call) and stmt_text(n.func).split('.')[-1] in ('AttackGraphNode', 'replace'):
                for k in n.keywords:
                    if k.arg in LABELS:
                        stores.append((n, k.arg, k.value))
        for (n, lab, v) in stores:
            construct = f'LABELOWN: store to {lab}'
            top = isinstance(v, ast.Constant) and v.value is True
            if allowed or top:
                out.append(Inst(RULE, f.short, construct, 'ok', msg=stmt_text(n, 60), file=rel, line=n.lineno, props=props))
            else:
                out.append(Inst(
                    RULE, f.short, construct, 'violation',
                    msg=(f"'{stmt_text(n, 70)}' stores an analysis label outside the analysis (apriori), the node class "
                         f"and the graph reader, and not the top value True: the analysis only ever lowers labels, so "
                         f"a label that is already low when it starts stays low - the result is not the greatest fixed "
                         f"point of the graph it runs on"),
                    file=rel, line=n.lineno, props=props))
    return out


def _closure_pass(ctx) -> list[Inst]:
    """CLOSUREPASS  a transitive set (all ancestors, all descendants ...) kept per object and filled by ONE pass
    `x.F.update(y.F)` / `x.F |= y.F` over a container is complete only if every y is finished before the x that copy
    from it - i.e. only for a topologically ordered container.  Languages may declare a subtype before its parent;
    the containers of the language graph are in declaration order.  Accepted: the copy sits in a fixpoint `while`,
    in a recursive function, or the container went through sorted(...) / a *sort* helper (then: unproven)."""
    out = []
    for f in ctx.prog.all_funcs():
        if f.module.generated:
            continue
        rel = f.module.relpath
        parent = {}
        for x in ast.walk(f.node):
            for ch in ast.iter_child_nodes(x):
                parent[id(ch)] = x
        recursive = any(isinstance(c, ast.Call) and stmt_text(c.func).split('.')[-1] == f.name for c in own_nodes(f.node))
        for n in own_nodes(f.node):
            A = B = None
            if isinstance(n, ast.Call) and isinstance(n.func, ast.Attribute) and n.func.attr in ('update', 'extend') \
                    and len(n.args) == 1:
                A, B = n.func.value, n.args[0]
            elif isinstance(n, ast.AugAssign) and isinstance(n.op, (ast.BitOr, ast.Add)):
                A, B = n.target, n.value
            if not (isinstance(A, ast.Attribute) and isinstance(B, ast.Attribute) and A.attr == B.attr
                    and isinstance(A.value, ast.Name) and isinstance(B.value, ast.Name) and A.value.id != B.value.id):
                continue
            loops, cur = [], parent.get(id(n))
            while cur is not None and cur is not f.node:
                if isinstance(cur, (ast.For, ast.While)):
                    loops.append(cur)
                cur = parent.get(id(cur))
            if not loops:
                continue
            construct = f"CLOSUREPASS: '{stmt_text(n, 50)}' accumulates .{A.attr} transitively"
            props = props_for(f.short, rel) or ('C15',)
            if recursive or any(isinstance(l, ast.While) for l in loops):
                out.append(Inst(RULE, f.short, construct, 'ok', msg='inside a fixpoint loop / recursion', file=rel,
                                line=n.lineno, props=props))
                continue
            it = loops[-1].iter
            ordered = any(isinstance(c, ast.Call) and 'sort' in stmt_text(c.func).lower() for c in ast.walk(it)) or \
                any(isinstance(c, ast.Call) and isinstance(c.func, ast.Name) and c.func.id == 'reversed' for c in ast.walk(it))
            if ordered:
                out.append(Inst(RULE, f.short, construct, 'unproven', msg=f"order of '{stmt_text(it, 40)}' not decided",
                                file=rel, line=n.lineno, props=props))
                continue
            out.append(Inst(
                RULE, f.short, construct, 'violation',
                msg=(f"'{stmt_text(n, 60)}' copies {B.value.id}.{A.attr} as it is at that moment, in a single pass over "
                     f"'{stmt_text(it, 40)}' (declaration / insertion order): when {A.value.id} is visited before "
                     f"{B.value.id} is complete (a subtype declared before its parent) the set misses the indirect "
                     f"members, and whatever is answered from it (sub-type tests) is wrong for chains of three or more"),
                file=rel, line=n.lineno, props=tuple(dict.fromkeys(tuple(props) + ('C15', 'C18')))))
    return out


def _member_direction(ctx) -> list[Inst]:
    """DIRECTION  members are inherited downwards: what a type HAS (attack steps, variables) is found on the type
    itself (already flattened) or on its super types - never on its sub types.  A search that walks
    `X.get_all_subassets()` / `X.sub_assets` and reads the elements' attack_steps / variables to resolve a reference
    on X links it to a member X does not have."""
    out = []
    MEMBERS = {'attack_steps', 'variables'}
    for f in ctx.prog.all_funcs():
        if f.module.generated:
            continue
        rel = f.module.relpath
        gens = []       # (target name, iter expr, scope node)
        for n in own_nodes(f.node):
            if isinstance(n, ast.For) and isinstance(n.target, ast.Name):
                gens.append((n.target.id, n.iter, n))
            elif isinstance(n, (ast.ListComp, ast.SetComp, ast.GeneratorExp, ast.DictComp)):
                for g in n.generators:
                    if isinstance(g.target, ast.Name):
                        gens.append((g.target.id, g.iter, n))
        for (v, it, scope) in gens:
            down = (isinstance(it, ast.Call) and isinstance(it.func, ast.Attribute) and it.func.attr == 'get_all_subassets') \
                or (isinstance(it, ast.Attribute) and it.attr == 'sub_assets')
            if not down:
                continue
            reads = [a for a in ast.walk(scope) if isinstance(a, ast.Attribute) and a.attr in MEMBERS
                     and isinstance(a.value, ast.Name) and a.value.id == v and isinstance(a.ctx, ast.Load)]
            # pushing something DOWN (a store into the sub type's members) is the legitimate direction
            stores = [c for c in ast.walk(scope) if isinstance(c, ast.Call) and isinstance(c.func, ast.Attribute)
                      and c.func.attr in ('append', 'extend', 'add', 'update') and isinstance(c.func.value, ast.Attribute)
                      and c.func.value.attr in MEMBERS and isinstance(c.func.value.value, ast.Name) and c.func.value.value.id == v]
            if not reads or stores:
                continue
            construct = f"DIRECTION: members looked up on '{stmt_text(it, 40)}'"
            props = tuple(dict.fromkeys(tuple(props_for(f.short, rel) or ()) + ('C15',)))
            out.append(Inst(
                RULE, f.short, construct, 'violation',
                msg=(f"'{stmt_text(reads[0])}' is searched over '{stmt_text(it, 50)}': a type has its own and its super "
                     f"types' members, not those of its sub types - a reference to a member the type lacks is resolved "
                     f"to a same-named member of a descendant instead of being rejected"),
                file=rel, line=reads[0].lineno, props=props))
    return out


def _nearest_wins(ctx) -> list[Inst]:
    """SHADOW  a lookup that walks UP the inheritance chain (a loop whose step is `x = <..>['superAsset']` /
    `.super_assets`) answers with the NEAREST definition: once a match is stored the walk ends (break / return / the
    loop test mentions the result) or later matches do not overwrite it (`if r is None`).  A walk that goes on and
    overwrites returns the root-most definition - a sub type can no longer shadow what it inherits."""
    out = []
    for f in ctx.prog.all_funcs():
        if f.module.generated:
            continue
        rel = f.module.relpath
        for lp in own_nodes(f.node):
            if not isinstance(lp, ast.While):
                continue
            step = None
            for n in ast.walk(lp):
                if isinstance(n, ast.Assign) and len(n.targets) == 1 and isinstance(n.targets[0], ast.Name) and (
                        (isinstance(n.value, ast.Subscript) and isinstance(n.value.slice, ast.Constant)
                         and n.value.slice.value == 'superAsset') or
                        (isinstance(n.value, ast.Attribute) and n.value.attr in ('super_asset', 'superAsset'))):
                    step = n
            if step is None:
                continue
            walker = step.targets[0].id
            test_names = {x.id for x in ast.walk(lp.test) if isinstance(x, ast.Name)}
            if walker not in test_names:
                continue
            parent = {}
            for x in ast.walk(lp):
                for ch in ast.iter_child_nodes(x):
                    parent[id(ch)] = x
            for n in ast.walk(lp):
                if not (isinstance(n, ast.Assign) and len(n.targets) == 1 and isinstance(n.targets[0], ast.Name)):
                    continue
                r = n.targets[0].id
                if r == walker or n is step:
                    continue
                # r must be a result: read after the loop
                after = False
                seen_lp = False
                for st in ast.walk(f.node):
                    pass
                used_after = any(isinstance(x, ast.Name) and x.id == r and isinstance(x.ctx, ast.Load)
                                 and getattr(x, 'lineno', 0) > getattr(lp, 'end_lineno', 0) for x in ast.walk(f.node))
                if not used_after:
                    continue
                # stored under a match test inside the loop?
                cur, guard = parent.get(id(n)), None
                in_inner_loop = False
                while cur is not None and cur is not lp:
                    if isinstance(cur, ast.If) and guard is None:
                        guard = cur
                    if isinstance(cur, (ast.For, ast.While)):
                        in_inner_loop = True
                    cur = parent.get(id(cur))
                if guard is None:
                    continue
                gnames = {x.id for x in ast.walk(guard.test) if isinstance(x, ast.Name)}
                if r in gnames or r in test_names:
                    continue            # `if r is None and ..` / `while cur and r is None`: the first match is kept
                # does the walk end after the store?  (break out of the WHILE, or return)
                blk = guard.body
                ends = any(isinstance(x, ast.Return) for st in blk for x in ast.walk(st)) or \
                    (not in_inner_loop and any(isinstance(x, ast.Break) for st in blk for x in ast.walk(st)))
                if ends:
                    continue
                construct = f"SHADOW: the walk up the inheritance chain stops at the first match of '{r}'"
                props = tuple(dict.fromkeys(tuple(props_for(f.short, rel) or ()) + ('C15', 'C01')))
                out.append(Inst(
                    RULE, f.short, construct, 'violation',
                    msg=(f"'{stmt_text(n, 60)}' is stored for every match while '{walker}' keeps climbing "
                         f"('{stmt_text(step, 50)}'): the definition of the most distant ancestor overwrites the nearer "
                         f"ones, a sub type's own definition no longer shadows the inherited one"),
                    file=rel, line=n.lineno, props=props))
    return out


def _wrapper_analysis(ctx) -> list[Inst]:
    """WRAPPER  create_attack_graph runs the apriori analysis whenever its caller asks for it: the call is guarded by
    the function's own flag parameter(s) only.  A guard that looks at the graph ("no defense node, nothing to do")
    second-guesses the analysis - exist / notExist steps drive it as well."""
    fname = 'create_attack_graph'
    if not ctx.prog.has_func(fname):
        return []
    f = ctx.prog.func(fname)
    rel = f.module.relpath
    construct = 'WRAPPER: the analysis runs whenever the caller asks for it'
    parent = {}
    for x in ast.walk(f.node):
        for ch in ast.iter_child_nodes(x):
            parent[id(ch)] = x
    params = set(f.params) | {a.arg for a in f.node.args.kwonlyargs}
    out = []
    calls = [n for n in own_nodes(f.node) if isinstance(n, ast.Call) and stmt_text(n.func).split('.')[-1] == 'calculate_viability_and_necessity']
    for c in calls:
        cur, bad = parent.get(id(c)), None
        while cur is not None and cur is not f.node:
            if isinstance(cur, (ast.If, ast.IfExp, ast.While)):
                names = {x.id for x in ast.walk(cur.test) if isinstance(x, ast.Name)}
                if not names <= (params | {'True', 'False', 'None', 'any', 'all', 'bool', 'not'}) or \
                        any(isinstance(x, (ast.Attribute, ast.Call, ast.GeneratorExp, ast.ListComp)) for x in ast.walk(cur.test)):
                    bad = cur
            cur = parent.get(id(cur))
        if bad is not None:
            out.append(Inst(
                RULE, f.short, construct, 'violation',
                msg=(f"the call of calculate_viability_and_necessity hangs on '{stmt_text(bad.test, 60)}', which looks at the "
                     f"graph instead of the caller's flag: graphs for which the test fails keep the default labels although "
                     f"the analysis would lower some (exist / notExist steps drive it too)"),
                file=rel, line=bad.lineno, props=('C08', 'C16')))
        else:
            out.append(Inst(RULE, f.short, construct, 'ok', file=rel, line=c.lineno, props=('C08', 'C16')))
    return out


def _target_steps(ctx) -> list[Inst]:
    """TARGETSTEPS  in LanguageGraph._generate_graph the step a reaches expression leads to is looked up among the steps
    of the TARGET ASSET that process_step_expression returned (already flattened over inheritance) - not in the list of
    all step nodes of the graph, where the first step of that name belongs to whichever type was generated first."""
    fname = 'LanguageGraph._generate_graph'
    if not ctx.prog.has_func(fname):
        return []
    f = ctx.prog.func(fname)
    rel = f.module.relpath
    out = []
    tvars = set()
    for n in own_nodes(f.node):
        if isinstance(n, ast.Assign) and isinstance(n.value, ast.Call) and stmt_text(n.value.func).split('.')[-1] == 'process_step_expression' \
                and isinstance(n.targets[0], (ast.Tuple, ast.List)) and n.targets[0].elts and isinstance(n.targets[0].elts[0], ast.Name):
            tvars.add(n.targets[0].elts[0].id)
    if not tvars:
        return []
    construct = 'TARGETSTEPS: the linked step is found among the target asset\'s steps'
    for n in own_nodes(f.node):
        gens = n.generators if isinstance(n, (ast.GeneratorExp, ast.ListComp)) else []
        for g in gens:
            if isinstance(g.iter, ast.Attribute) and g.iter.attr == 'attack_steps' and isinstance(g.target, ast.Name) \
                    and any('.name' in stmt_text(c, 100) and 'attack_step_name' in stmt_text(c, 100) or
                            ('.name ==' in stmt_text(c, 100)) for c in g.ifs):
                base = g.iter.value
                if isinstance(base, ast.Name) and base.id in tvars:
                    out.append(Inst(RULE, f.short, construct, 'ok', file=rel, line=n.lineno, props=('C15', 'C03')))
                elif isinstance(base, ast.Name) and base.id == f.self_name:
                    out.append(Inst(
                        RULE, f.short, construct, 'violation',
                        msg=(f"the step is searched in '{stmt_text(g.iter)}', the step nodes of ALL types: the first node of "
                             f"that name wins, so a reference is linked to the same-named step of an ancestor or of an "
                             f"unrelated type instead of the target asset's own step node"),
                        file=rel, line=n.lineno, props=('C15', 'C03', 'C01')))
    return out


def run(ctx) -> list[Inst]:
    prog = ctx.prog
    insts = _closure_functions(ctx) + _wrapper_analysis(ctx) + _target_steps(ctx)
    insts += _nearest_wins(ctx)
    insts += _closure_pass(ctx)
    insts += _member_direction(ctx)
    insts += _build_order(ctx)
    insts += _own_default(ctx)
    insts += _label_owner(ctx)
    # ---------------------------------------------------------------- CLOSURE
    nreads = 0
    for f in prog.all_funcs():
        rel = f.module.relpath
        for n in own_nodes(f.node):
            if isinstance(n, ast.Attribute) and n.attr in CLOSURE_FIELDS and isinstance(n.ctx, ast.Load):
                nreads += 1
                construct = f'CLOSURE: read of .{n.attr}'
                top = f.short
                allowed = top in CLOSURE_READERS or any(top.startswith(a + '.') for a in CLOSURE_READERS)
                if not allowed and f.cls is not None and f.cls.name == 'LanguageGraphAsset' and _is_transitive_walk(f):
                    allowed = True          # a further closure function: it walks the links transitively itself
                props = props_for(f.short, rel) or ('C15',)
                if allowed:
                    insts.append(Inst(RULE, f.short, construct, 'ok', file=rel, line=n.lineno,
                                      props=('C15',) + tuple(p for p in props if p != 'C15')))
                else:
                    insts.append(Inst(
                        RULE, f.short, construct, 'violation',
                        msg=(f"'{stmt_text(n)}' reads the direct inheritance links outside the closure functions: "
                             f"only one level of the hierarchy is considered, indirect sub-types / super-types are "
                             f"missed (use is_subasset_of / get_all_subassets / get_all_superassets)"),
                        file=rel, line=n.lineno, props=props))
    # ---------------------------------------------------------------- OWNNODES
    for fname in OWN_FUNCS:
        f = prog.func(fname)
        rel = f.module.relpath
        cfg = ctx.cfg(f)
        R = ctx.R(f)
        selfn = f.self_name
        for n in own_nodes(f.node):
            if not isinstance(n, ast.Call) or not isinstance(n.func, ast.Attribute) or not n.args:
                continue
            what = None
            if n.func.attr == 'compromise':
                what = n.args[0]
            elif n.func.attr == 'append' and isinstance(n.func.value, ast.Attribute) \
                    and n.func.value.attr in ('entry_points', 'reached_attack_steps'):
                what = n.args[0]
            if what is None:
                continue
            node = cfg.owner(n)
            paths = R.paths(what, node)
            construct = f'OWNNODES: {stmt_text(n, 60)} takes a node of this graph'
            bad = [p for p in paths if not (p.root == ('param', selfn) and p.steps and p.steps[0] in OWN_CONTAINERS)
                   and p.root[0] != 'fresh']
            unknown = [p for p in bad if p.root[0] in ('unk', 'ret', 'global')]
            foreign = [p for p in bad if p.root[0] == 'param']
            if not bad and paths:
                insts.append(Inst(RULE, fname, construct, 'ok', msg=', '.join(repr(p) for p in paths), file=rel,
                                  line=n.lineno, props=('C11', 'C09', 'C16', 'C14')))
            elif foreign:
                insts.append(Inst(
                    RULE, fname, construct, 'violation',
                    msg=(f"'{stmt_text(what)}' may be {foreign[0]!r}, which is not one of this graph's node "
                         f"containers: after a second graph was generated from the same model (or a node was "
                         f"removed) the attacker reaches nodes that are not in this graph"),
                    file=rel, line=n.lineno, props=('C11', 'C09', 'C16', 'C14')))
            else:
                insts.append(Inst(RULE, fname, construct, 'unproven',
                                  msg='origin: ' + ', '.join(repr(p) for p in paths), file=rel, line=n.lineno,
                                  props=('C11', 'C09', 'C16', 'C14')))
    return insts
