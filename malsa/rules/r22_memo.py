"""R22 MEMO - a memo cache is keyed by everything the memoised value depends on.

Pattern (any function of the package): a mapping C is consulted with key K (``K in C``,
``C.get(K)``, ``C[K]`` under such a test) and later stored ``C[K] = V`` where V is the result of a
computation (a call).  Then every input of that computation that can vary while the cache is
alive must occur in K:
  * C is an attribute (``self._cache``) or a module global: alive across calls, so every parameter
    of the function (except self) that V depends on must be part of K;
  * C is a local: alive for one activation, so every loop-variant name V depends on must be in K.
Otherwise the first caller's answer is replayed for callers asking a different question
(deterministic but wrong: e.g. a variable cache keyed by name only, shared by all asset types).
Expected count on a healthy tree may be zero: a built-in positive fixture is checked on each run.
"""
from __future__ import annotations

import ast
import os

from ..core import own_nodes, stmt_text, Program, AnalysisError
from ..props import props_for
from ..report import Inst

RULE = 'R22'
FIXTURE = os.path.join(os.path.dirname(os.path.dirname(os.path.abspath(__file__))), 'fixtures', 'r22')


def _names(e):
    return {n.id for n in ast.walk(e) if isinstance(n, ast.Name)}


def _attr_paths(e):
    """attribute paths rooted at a name: {'field.asset.name', ...} (maximal chains only) and bare names."""
    paths, bare = set(), set()
    covered = set()
    for n in ast.walk(e):
        if isinstance(n, ast.Attribute):
            cur, parts = n, []
            while isinstance(cur, ast.Attribute):
                parts.append(cur.attr)
                cur = cur.value
            if isinstance(cur, ast.Name):
                paths.add(cur.id + '.' + '.'.join(reversed(parts)))
                x = n.value
                while isinstance(x, ast.Attribute):
                    covered.add(id(x))
                    x = x.value
                covered.add(id(x))
    for n in ast.walk(e):
        if isinstance(n, ast.Name) and id(n) not in covered:
            bare.add(n.id)
    # drop proper prefixes
    paths = {p for p in paths if not any(q != p and q.startswith(p + '.') for q in paths)}
    return paths, bare


def _partial_key_miss(f, st, cache, kexpr, vexpr, node, cfg):
    kpaths, kbare = _attr_paths(kexpr)
    if not kpaths:
        return []
    roots = {p.split('.')[0] for p in kpaths} - kbare
    if not roots:
        return []
    # value: the stored expression plus later stores into the cached entry  C[K][..] = e  and their guards
    exprs = [vexpr]
    ctext, ktext = stmt_text(cache), stmt_text(st.targets[0].slice)
    for n in own_nodes(f.node):
        if isinstance(n, ast.Assign) and len(n.targets) == 1 and isinstance(n.targets[0], ast.Subscript):
            t = n.targets[0]
            inner = t.value
            while isinstance(inner, ast.Subscript):
                if stmt_text(inner.value) == ctext and stmt_text(inner.slice) == ktext and n is not st:
                    exprs.append(n.value)
                    gn = cfg.node_of(n)
                    for g in cfg.nodes:
                        if g.kind == 'if' and gn is not None and cfg.dominates(g, gn) and g is not gn \
                                and cfg.dominates(node, g):
                            exprs.append(g.ast.test)
                    break
                inner = inner.value
    # locals the stored value is built from: their definitions, and the tests those definitions depend on
    # (`d = 1.0 if x.ttc ... else 0.0` / `if x.ttc: d = 1.0 else: d = 0.0`), as long as they lie between the lookup
    # and the store (inside the miss branch or before it in the same iteration)
    todo = [nm for e in exprs for nm in _names(e)]
    seen_names = set()
    while todo:
        nm = todo.pop()
        if nm in seen_names or nm in roots:
            continue
        seen_names.add(nm)
        for d in cfg.reaching(node, nm):
            if d.kind == 'stmt' and isinstance(d.ast, ast.Assign) and d.loop is node.loop:
                exprs.append(d.ast.value)
                todo.extend(_names(d.ast.value))
                for g in cfg.nodes:
                    if g.kind == 'if' and g is not d and cfg.dominates(g, d) and g.loop is node.loop \
                            and not cfg.dominates(g, node):
                        exprs.append(g.ast.test)
    miss = set()
    for e in exprs:
        vp, vb = _attr_paths(e)
        for p in vp:
            r = p.split('.')[0]
            if r in roots and not any(p == k or p.startswith(k + '.') for k in kpaths):
                miss.add(p)
    return sorted(miss)


def analyse(prog, ctx_cfg) -> list:
    """-> list of (func, store stmt, cache text, key expr, missing names, total deps)"""
    out = []
    for f in prog.all_funcs():
        cfg = ctx_cfg(f)
        stores = []
        for n in own_nodes(f.node):
            if isinstance(n, ast.Assign) and len(n.targets) == 1 and isinstance(n.targets[0], ast.Subscript):
                t = n.targets[0]
                if isinstance(t.slice, ast.Constant):
                    continue
                stores.append((n, t.value, t.slice, n.value))
        if not stores:
            continue
        lookups = []        # (cache text, key text)
        for n in own_nodes(f.node):
            if isinstance(n, ast.Compare) and len(n.ops) == 1 and isinstance(n.ops[0], (ast.In, ast.NotIn)):
                lookups.append((stmt_text(n.comparators[0]), stmt_text(n.left)))
            if isinstance(n, ast.Call) and isinstance(n.func, ast.Attribute) and n.func.attr == 'get' and n.args:
                lookups.append((stmt_text(n.func.value), stmt_text(n.args[0])))
        for (st, cache, key, val) in stores:
            ctext, ktext = stmt_text(cache), stmt_text(key)
            # a key held in a local: resolve through its single definition
            key_names = _names(key)
            node = cfg.node_of(st)
            kexpr = key
            if isinstance(key, ast.Name):
                defs = cfg.reaching(node, key.id)
                if len(defs) == 1 and defs[0].kind == 'stmt' and isinstance(defs[0].ast, ast.Assign):
                    kexpr = defs[0].ast.value
                    key_names = _names(kexpr)
            if not any(c == ctext and (k == ktext) for c, k in lookups):
                continue
            # a memo stores on the MISS path of the lookup: the store is reached only through the "not in cache" side
            # of a membership test of this cache and key (a store that does not depend on the lookup - e.g. made
            # under an unrelated condition while another branch does get-or-create grouping - fills an index)
            has_get = any(isinstance(n, ast.Call) and isinstance(n.func, ast.Attribute) and n.func.attr == 'get'
                          and n.args and stmt_text(n.func.value) == ctext and stmt_text(n.args[0]) == ktext
                          for n in own_nodes(f.node))
            on_miss = has_get
            hit_reach = None
            for g in cfg.nodes:
                if on_miss or g.kind != 'if' or node is None or not cfg.dominates(g, node) or g is node:
                    continue
                for c in ast.walk(g.ast.test):
                    if isinstance(c, ast.Compare) and len(c.ops) == 1 and isinstance(c.ops[0], (ast.In, ast.NotIn)) \
                            and stmt_text(c.comparators[0]) == ctext and stmt_text(c.left) == ktext:
                        neg = isinstance(g.ast.test, ast.UnaryOp) and isinstance(g.ast.test.op, ast.Not)
                        miss_lab = 'T' if (isinstance(c.ops[0], ast.NotIn) != neg) else 'F'
                        hit = [t for t, l in g.succ if l != miss_lab]
                        reach = set()
                        for t in hit:
                            reach |= {t.idx} | cfg.reachable_from(t, avoiding={g.idx})
                        if node.idx not in reach:
                            on_miss = True
                            hit_reach = reach
            if not on_miss:
                continue
            # get-or-create of a bucket: the entry found on a hit is filled further (C[K].append(..), C[K][j] = ..):
            # grouping by key, not a replayed answer
            grouped = False
            for n in own_nodes(f.node):
                tgt = None
                if isinstance(n, ast.Call) and isinstance(n.func, ast.Attribute) \
                        and n.func.attr in ('append', 'extend', 'add', 'update', 'insert', 'setdefault'):
                    tgt = n.func.value
                elif isinstance(n, ast.Assign) and isinstance(n.targets[0], ast.Subscript):
                    tgt = n.targets[0].value
                inner_ = tgt
                hit_entry = False
                while isinstance(inner_, (ast.Subscript, ast.Attribute)):
                    if isinstance(inner_, ast.Subscript) and stmt_text(inner_.value) == ctext \
                            and stmt_text(inner_.slice) == ktext and n is not st:
                        hit_entry = True
                        break
                    inner_ = inner_.value
                if hit_entry:
                    mn = cfg.owner(n) if not isinstance(n, ast.stmt) else cfg.node_of(n)
                    # filled on the hit path (or after the two paths join): grouping.  Filled only inside the miss
                    # branch: still part of building the cached answer
                    if hit_reach is None or (mn is not None and mn.idx in hit_reach):
                        grouped = True
            if grouped:
                continue
            # value: a call, possibly through a local
            vexpr = val
            if isinstance(val, ast.Name):
                defs = [d for d in cfg.reaching(node, val.id)]
                cands = [d.ast.value for d in defs if d.kind == 'stmt' and isinstance(d.ast, ast.Assign)
                         and isinstance(d.ast.value, ast.Call)]
                if len(cands) >= 1:
                    vexpr = cands[0]
                elif len(defs) == 1 and defs[0].kind == 'stmt' and isinstance(defs[0].ast, ast.Assign):
                    vexpr = defs[0].ast.value
            # (p) the key is built from attribute paths of an object (x.a, x.b.c) rather than from x itself: then
            # every attribute path of x the stored value is computed from must be part of the key
            partial = _partial_key_miss(f, st, cache, kexpr, vexpr, node, cfg)
            if partial:
                out.append((f, st, ctext, kexpr, partial, partial))
                continue
            computed = not isinstance(vexpr, (ast.Name, ast.Attribute, ast.Constant))
            if not computed:
                continue            # an index (object stored under its own key), not a memo
            direct = _names(vexpr)
            # transitive closure through local definitions (used for caches that outlive the call)
            frontier = list(direct)
            seen = set(direct)
            while frontier:
                nm = frontier.pop()
                if nm in key_names:
                    continue
                for d in cfg.reaching(node, nm):
                    if d.kind == 'stmt' and isinstance(d.ast, ast.Assign):
                        for x in _names(d.ast.value):
                            if x not in seen:
                                seen.add(x)
                                frontier.append(x)
            variant = None
            is_local_cache = isinstance(cache, ast.Name) and cache.id not in f.params and \
                any(d.kind != 'entry' for d in cfg.reaching(node, cache.id))
            if is_local_cache:
                # loop-variant names: (re)bound inside the innermost loop enclosing the store
                loop = node.loop
                variant = set()
                if loop is not None:
                    for x in cfg.nodes:
                        l = x.loop
                        inside = x is loop
                        while l is not None and not inside:
                            inside = l is loop
                            l = l.loop
                        if inside:
                            variant.update(cfg.defs_of(x))
                must = {d for d in direct if d in variant}
            else:
                must = {d for d in seen if d in f.params and d != f.self_name}
            # names bound by the key expression itself count as covered
            missing = sorted(m for m in must if m not in key_names and m != (cache.id if isinstance(cache, ast.Name) else ''))
            # a dependency that is itself derived only from key names is covered
            really = []
            for m in missing:
                derived = False
                for d in cfg.reaching(node, m):
                    if d.kind == 'stmt' and isinstance(d.ast, ast.Assign) and _names(d.ast.value) and \
                            _names(d.ast.value) <= key_names | {f.self_name or ''}:
                        derived = True
                    # a per-call cache: what does not change from one loop iteration to the next (the language graph,
                    # the factory) needs no place in the key
                    if variant is not None and d.kind == 'stmt' and isinstance(d.ast, ast.Assign) and _names(d.ast.value) and \
                            all(x in key_names or x not in variant for x in _names(d.ast.value)):
                        derived = True
                if not derived:
                    really.append(m)
            out.append((f, st, ctext, kexpr, really, sorted(must)))
    return out


def run(ctx) -> list[Inst]:
    # positive fixture
    fp = Program(FIXTURE)
    from ..cfg import cfg_of
    fres = analyse(fp, cfg_of)
    bad = sorted((r[0].short, tuple(r[4])) for r in fres if r[4])
    if bad != [('Lang.lookup', ('asset_type',)), ('rebuild', ('left', 'right'))]:
        raise AnalysisError(f'R22 positive fixture not reproduced (got {bad})')
    insts = []
    for (f, st, ctext, kexpr, missing, must) in analyse(ctx.prog, ctx.cfg):
        rel = f.module.relpath
        construct = f'memo {ctext}[{stmt_text(kexpr, 60)}] keyed by all inputs'
        props = props_for(f.short, rel)
        if missing:
            insts.append(Inst(
                RULE, f.short, construct, 'violation',
                msg=(f"'{stmt_text(st, 100)}' caches a computed value under a key that leaves out "
                     f"{missing} although the value depends on them: the answer computed for the first "
                     f"caller is returned to callers asking about a different {missing[0]}"),
                file=rel, line=st.lineno, props=props))
        else:
            insts.append(Inst(RULE, f.short, construct, 'ok', msg=f'key covers {must}', file=rel,
                              line=st.lineno, props=props))
    return insts
