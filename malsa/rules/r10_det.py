"""R10 DET / MODREF and R11 PURE.

DET     In every function reachable (resolved call graph) from the generation / load / save /
        analysis entry points: no iteration order is taken from a hash set (``for`` or an
        order-sensitive comprehension over a set-typed expression, ``list(S)``, ``tuple(S)``,
        ``S.pop()``, ``next(iter(S))``), no ``id()`` / ``hash()`` as a sort key, no random / time /
        uuid / os.urandom, no unsorted directory listing.  Sets used for membership, len,
        truthiness, any/all/sum/min/max/sorted or to build another set are fine.
MODREF  Generation, attacker attachment, analysis, pruning and graph loading write nothing that is
        reachable from the model or the language graph except ``asset.attack_step_nodes``
        (which Model._to_dict never reads).
PURE    (R11) the functions of query.py have no effect on any AttackGraph / AttackGraphNode /
        Attacker field; the only permitted effect is growing the caller's current_attack_surface.
Expected violation count is zero: a positive fixture is analysed on every run.
"""
from __future__ import annotations

import ast
import os

from ..core import own_nodes, stmt_text, Program, AnalysisError, UNK
from ..effects import Analyzer
from ..props import props_for
from ..report import Inst

RULE = 'R10'
FIXTURE = os.path.join(os.path.dirname(os.path.dirname(os.path.abspath(__file__))), 'fixtures', 'r10')
ROOTS = ['AttackGraph.__init__', 'AttackGraph._generate_graph', 'AttackGraph.regenerate_graph',
         'AttackGraph.attach_attackers', 'AttackGraph._to_dict', 'AttackGraph.save_to_file',
         'AttackGraph._from_dict', 'AttackGraph.load_from_file',
         'LanguageGraph.__init__', 'LanguageGraph.from_mar_archive', 'LanguageGraph.from_mal_spec',
         'MalCompiler.compile', 'LanguageClassesFactory.__init__', 'Model.load_from_file',
         'Model._from_dict', 'Model._to_dict', 'Model.save_to_file',
         'calculate_viability_and_necessity', 'prune_unviable_and_unnecessary_nodes',
         'create_attack_graph']
ORDER_FREE = {'any', 'all', 'sum', 'min', 'max', 'sorted', 'set', 'frozenset', 'len'}
NONDET_CALLS = {'random', 'uuid', 'time', 'urandom', 'listdir', 'scandir', 'glob', 'iglob', 'shuffle',
                'choice', 'sample', 'uuid4', 'uuid1', 'getrandbits', 'perf_counter', 'monotonic', 'now'}
MODREF_WRITERS = ['AttackGraph.__init__', 'AttackGraph._generate_graph', 'AttackGraph.regenerate_graph',
                  'AttackGraph.attach_attackers', 'AttackGraph._from_dict',
                  'calculate_viability_and_necessity', 'prune_unviable_and_unnecessary_nodes']
MODEL_WRITE_OK = {'attack_step_nodes'}


def is_set_expr(env, e) -> bool:
    if isinstance(e, (ast.Set, ast.SetComp)):
        return True
    if isinstance(e, ast.Call):
        if isinstance(e.func, ast.Name) and e.func.id in ('set', 'frozenset'):
            return True
        if isinstance(e.func, ast.Attribute) and e.func.attr in ('intersection', 'union', 'difference',
                                                                  'symmetric_difference') \
                and is_set_expr(env, e.func.value):
            return True
    if isinstance(e, ast.BinOp) and isinstance(e.op, (ast.BitAnd, ast.BitOr, ast.Sub, ast.BitXor)):
        return is_set_expr(env, e.left) or is_set_expr(env, e.right)
    try:
        return env.type_of(e)[0] == 'set'
    except Exception:
        return False


def det_findings(prog, an, funcs):
    out = []
    for f in funcs:
        env = prog.env(f)
        pm = {}
        for n in ast.walk(f.node):
            for ch in ast.iter_child_nodes(n):
                pm[id(ch)] = n
        for n in own_nodes(f.node):
            if isinstance(n, ast.For) and is_set_expr(env, n.iter):
                out.append((f, n, f"'for {stmt_text(n.target)} in {stmt_text(n.iter, 70)}' takes its iteration "
                                  f"order from a hash set: the order of what it builds (edges, ids, output) "
                                  f"changes with PYTHONHASHSEED"))
            if isinstance(n, (ast.ListComp, ast.GeneratorExp, ast.DictComp)):
                if any(is_set_expr(env, g.iter) for g in n.generators):
                    par = pm.get(id(n))
                    free = isinstance(par, ast.Call) and isinstance(par.func, ast.Name) and par.func.id in ORDER_FREE
                    if not free:
                        out.append((f, n, f"comprehension '{stmt_text(n, 80)}' keeps the iteration order of a hash set"))
            if isinstance(n, ast.Call):
                fn = n.func
                if isinstance(fn, ast.Name) and fn.id in ('list', 'tuple') and n.args and is_set_expr(env, n.args[0]):
                    out.append((f, n, f"'{stmt_text(n, 70)}' materialises a hash set in hash order"))
                if isinstance(fn, ast.Attribute) and fn.attr == 'pop' and not n.args and is_set_expr(env, fn.value):
                    out.append((f, n, f"'{stmt_text(n, 70)}' pops an arbitrary element of a hash set"))
                if isinstance(fn, ast.Name) and fn.id == 'next' and n.args and isinstance(n.args[0], ast.Call) \
                        and isinstance(n.args[0].func, ast.Name) and n.args[0].func.id == 'iter' \
                        and n.args[0].args and is_set_expr(env, n.args[0].args[0]):
                    out.append((f, n, f"'{stmt_text(n, 70)}' takes an arbitrary element of a hash set"))
                nm = fn.attr if isinstance(fn, ast.Attribute) else (fn.id if isinstance(fn, ast.Name) else '')
                base = stmt_text(fn.value) if isinstance(fn, ast.Attribute) else ''
                if nm in NONDET_CALLS and (base in ('random', 'uuid', 'time', 'os', 'glob', 'datetime', 'datetime.datetime')
                                           or (isinstance(fn, ast.Name) and nm in ('uuid4', 'shuffle', 'urandom'))):
                    par = pm.get(id(n))
                    if not (isinstance(par, ast.Call) and isinstance(par.func, ast.Name) and par.func.id == 'sorted'):
                        out.append((f, n, f"'{stmt_text(n, 70)}' is a source of non-determinism"))
                # id()/hash() as ordering key
                if nm in ('sorted', 'sort', 'min', 'max'):
                    for kw in n.keywords:
                        if kw.arg == 'key' and (stmt_text(kw.value) in ('id', 'hash')
                                                or 'id(' in stmt_text(kw.value) or 'hash(' in stmt_text(kw.value)):
                            out.append((f, n, f"'{stmt_text(n, 70)}' orders by id()/hash(): differs between processes"))
    return out


def run(ctx) -> list[Inst]:
    prog, an = ctx.prog, ctx.an
    # ---- positive fixture
    fp = Program(FIXTURE)
    fan = Analyzer(fp)
    ff = det_findings(fp, fan, list(fp.all_funcs()))
    got = sorted((f.short, 'iter' if type(n).__name__ in ('For', 'ListComp') else type(n).__name__) for f, n, _ in ff)
    # (the append loop of the fixture is a comprehension after normalisation N17: both spellings count as iteration)
    if got != [('gen', 'iter'), ('gen', 'iter'), ('pick', 'Call')]:
        raise AnalysisError(f'R10 positive fixture not reproduced (got {got})')
    insts = []
    roots = [prog.func(r) for r in ROOTS]
    vis = prog.cls('malVisitor')
    roots += list(vis.methods.values())
    reach = an.reachable(roots)
    funcs = list(reach.values())
    if len(funcs) < 60:
        raise AnalysisError(f'R10: only {len(funcs)} functions reachable from the generation roots')
    bad = det_findings(prog, an, funcs)
    badf = {}
    for f, n, msg in bad:
        badf.setdefault(f.qname, []).append((n, msg))
    det_props = ('C16',)
    for f in funcs:
        rel = f.module.relpath
        sets = sum(1 for n in own_nodes(f.node) if isinstance(n, (ast.Set, ast.SetComp)) or (
            isinstance(n, ast.Call) and isinstance(n.func, ast.Name) and n.func.id in ('set', 'frozenset')))
        if f.qname in badf:
            for n, msg in badf[f.qname]:
                insts.append(Inst(RULE, f.short, f'DET: {stmt_text(n, 80)}', 'violation', msg=msg, file=rel,
                                  line=n.lineno, props=det_props + tuple(p for p in props_for(f.short, rel)
                                                                          if p not in det_props)))
        else:
            insts.append(Inst(RULE, f.short, 'DET: no hash-order / random source', 'ok',
                              msg=f'{sets} set construction(s), none iterated order-sensitively' if sets else '',
                              file=rel, line=f.node.lineno, props=det_props, nontrivial=sets > 0))
    # ---------------------------------------------------------------- MODREF
    for wn in MODREF_WRITERS:
        f = prog.func(wn)
        rel = f.module.relpath
        facts = an.of(f)
        offending = []
        for e in facts.effects:
            steps = e.path.steps
            inner = steps[:-1]
            through_model = 'model' in inner or 'lang_graph' in inner or '_lang_spec' in inner \
                or (e.path.root[0] == 'param' and e.path.root[1] in ('model', 'lang_graph') and steps)
            if not through_model:
                continue
            if e.path.truncated:
                continue
            last = [s for s in steps if not s.startswith('[')]
            if last and last[-1] in MODEL_WRITE_OK and e.kind == 'rebind':
                continue
            offending.append(e)
        construct = 'MODREF: writes nothing reachable from the model / language except attack_step_nodes'
        if offending:
            e = offending[0]
            insts.append(Inst(
                RULE, wn, construct, 'violation',
                msg=(f"'{e.text}' ({e.func}:{e.lineno}) performs {e.kind} on {e.path!r}: generation / analysis "
                     f"modifies its input model or language"),
                file=rel, line=e.lineno, props=('C16',)))
        else:
            insts.append(Inst(RULE, wn, construct, 'ok', file=rel, line=f.node.lineno, props=('C16',)))
    # ---------------------------------------------------------------- LABELS
    # only the apriori evaluation / propagation (and loading, copying, construction) assign viability and
    # necessity labels: pruning and node removal must leave the labels of the remaining nodes as they are
    for fn in ('prune_unviable_and_unnecessary_nodes', 'AttackGraph.remove_node', 'AttackGraph.remove_attacker',
               'Attacker.compromise', 'Attacker.undo_compromise'):
        f = prog.func(fn)
        facts = an.of(f)
        offending = [e for e in facts.effects if e.path.steps and e.path.steps[-1] in ('is_viable', 'is_necessary')]
        construct = 'LABELS: no assignment to is_viable / is_necessary is reachable'
        lp = tuple(dict.fromkeys(('C13',) + tuple(props_for(f.short, f.module.relpath))))
        if offending:
            e = offending[0]
            insts.append(Inst(
                RULE, f.short, construct, 'violation',
                msg=(f"'{e.text}' ({e.func}:{e.lineno}) is reachable from {fn}: labels of nodes that stay in the "
                     f"graph are rewritten (pruning must leave every remaining node with its labels unchanged; "
                     f"re-running the analysis on the pruned graph re-labels steps whose pruned parents made them "
                     f"necessary)"),
                file=f.module.relpath, line=f.node.lineno, props=lp))
        else:
            insts.append(Inst(RULE, f.short, construct, 'ok', msg=f'{len(facts.effects)} transitive effects examined',
                              file=f.module.relpath, line=f.node.lineno, props=lp))
    # ---------------------------------------------------------------- PUREQ: getters are pure
    # a lookup (get_* / is_* / *_exists_* method of Model, AttackGraph, LanguageGraph, LanguageGraphAsset,
    # AttackGraphNode, Attacker) changes nothing on its object: a result cached on the object answers for the
    # state at the time of the FIRST call and has to be invalidated by every mutator - none of them knows about it
    for cname in ('Model', 'AttackGraph', 'LanguageGraph', 'LanguageGraphAsset', 'AttackGraphNode', 'Attacker',
                  'LanguageGraphAttackStep', 'LanguageClassesFactory'):
        c = prog.classes.get(cname)
        if c is None:
            continue
        for m in c.methods.values():
            nm = m.name
            serialiser = nm in ('_to_dict', 'to_dict', 'save_to_file') or nm.endswith('_to_dict')
            if not (nm.startswith(('get_', 'is_', 'has_')) or '_exists_' in nm or nm in ('full_name',) or serialiser):
                continue
            if nm.startswith('_') and not serialiser:
                continue
            facts = an.of(m)
            own = [e for e in facts.effects if e.path.root == ('param', m.self_name)]
            construct = f'PUREQ: {cname}.{nm} changes nothing on its object'
            lp = tuple(dict.fromkeys(tuple(props_for(m.short, m.module.relpath)) + ('C16',)))
            if own:
                e = own[0]
                insts.append(Inst(
                    RULE, m.short, construct, 'violation',
                    msg=(f"'{e.text}' ({e.func}:{e.lineno}) writes {e.path!r} from inside a lookup: state kept on the "
                         f"object by a getter (a cache) is not refreshed when the object changes later (add / remove / "
                         f"regenerate), the lookup then answers for an earlier state"),
                    file=m.module.relpath, line=e.lineno, props=lp))
            else:
                insts.append(Inst(RULE, m.short, construct, 'ok', file=m.module.relpath, line=m.node.lineno,
                                  props=lp, nontrivial=False))
    # ---------------------------------------------------------------- PURE (R11)
    qmod = prog.module('maltoolbox/attackgraph/query.py')
    for f in qmod.functions.values():
        facts = an.of(f)
        offending = [e for e in facts.effects
                     if e.ptype in ('AttackGraph', 'AttackGraphNode', 'Attacker', 'Model', 'pjs')
                     or any(s in ('nodes', 'attackers', 'children', 'parents', 'compromised_by',
                                  'reached_attack_steps', 'entry_points', 'is_viable', 'is_necessary')
                            for s in e.path.steps)]
        construct = 'PURE: query has no effect on graph, nodes or attackers'
        if offending:
            e = offending[0]
            insts.append(Inst(
                'R11', f.short, construct, 'violation',
                msg=f"'{e.text}' ({e.func}:{e.lineno}) performs {e.kind} on {e.path!r}: a query changes the graph",
                file=qmod.relpath, line=e.lineno, props=('C12',)))
        else:
            other = [repr(e.path) for e in facts.effects]
            insts.append(Inst('R11', f.short, construct, 'ok',
                              msg=('only effect: ' + ', '.join(sorted(set(other)))) if other else 'no effect at all',
                              file=qmod.relpath, line=f.node.lineno, props=('C12',)))
    return insts
