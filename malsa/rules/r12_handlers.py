"""R12 HANDLERS - every opcode has a handler in every dispatcher.

Producer tables are read from the visitor on each run (string constants in *result* positions):
  expression opcodes  values stored under "type" by visitExpr / visitParts / visitPart (through
                      visitSetop and _resolve_part_ID_type)
  step types          values returned by visitSteptype
  dependency kinds    ``type=`` arguments of DependencyChain(...) (constants, or the constants of the
                      enclosing case when the type is passed through)
Consumers (frozen list of dispatchers): a producer constant is handled when a ``case`` pattern
(or an ``==`` / ``in`` comparison against the dispatch subject) names it.  A constant that only
reaches ``case _`` is a missing handler.
"""
from __future__ import annotations

import ast

from ..core import own_nodes, stmt_text, AnalysisError
from ..report import Inst

RULE = 'R12'

CONSUMERS = [
    ('_process_step_expression', 'expr', ('C01',), None),
    ('LanguageGraph.process_step_expression', 'expr', ('C15',), None),
    ('LanguageGraph.reverse_dep_chain', 'dep', ('C15',), None),
    ('DependencyChain.to_dict', 'dep', ('C15',), None),
    ('evaluate_viability', 'step', ('C08',), None),
    ('evaluate_necessity', 'step', ('C08',), None),
    ('is_node_traversable_by_attacker', 'step', ('C12',), None),
    ('AttackGraph._generate_graph', 'step', ('C02',), {'defense', 'exist', 'notExist'}),
]


def _result_consts(e, out, cls=None):
    """string constants an expression can evaluate to (result positions only)."""
    if isinstance(e, ast.Constant):
        if isinstance(e.value, str):
            out.add(e.value)
    elif isinstance(e, ast.Call) and isinstance(e.func, ast.Name) and e.func.id == 'next' and e.args \
            and isinstance(e.args[0], ast.GeneratorExp) and len(e.args[0].generators) == 1 and cls is not None:
        # table-driven: next((value for token, value in self.TABLE if ...), default) - the constants in the element
        # position the result variable is bound from, plus the default
        g = e.args[0]
        gen = g.generators[0]
        if len(e.args) > 1:
            _result_consts(e.args[1], out, cls)
        tbl = None
        if isinstance(gen.iter, ast.Attribute) and isinstance(gen.iter.value, ast.Name) and gen.iter.value.id in ('self', 'cls'):
            for st in cls.node.body:
                if isinstance(st, ast.Assign) and len(st.targets) == 1 and isinstance(st.targets[0], ast.Name) \
                        and st.targets[0].id == gen.iter.attr and isinstance(st.value, (ast.Tuple, ast.List)):
                    tbl = st.value
        if tbl is not None and isinstance(g.elt, ast.Name):
            idx = None
            if isinstance(gen.target, ast.Tuple):
                for k, t in enumerate(gen.target.elts):
                    if isinstance(t, ast.Name) and t.id == g.elt.id:
                        idx = k
            for row in tbl.elts:
                if idx is None:
                    _result_consts(row, out, cls)
                elif isinstance(row, (ast.Tuple, ast.List)) and idx < len(row.elts):
                    _result_consts(row.elts[idx], out, cls)
    elif isinstance(e, ast.IfExp):
        _result_consts(e.body, out, cls)
        _result_consts(e.orelse, out, cls)
    elif isinstance(e, ast.BoolOp):
        for v in e.values:
            _result_consts(v, out, cls)


def _returned_consts(f):
    out = set()
    for n in own_nodes(f.node):
        if isinstance(n, ast.Return) and n.value is not None:
            _result_consts(n.value, out, f.cls)
    return out


def producers(ctx):
    prog = ctx.prog
    vis = prog.cls('malVisitor')
    expr = set()
    for mname in ('visitExpr', 'visitParts', 'visitPart'):
        m = vis.methods.get(mname)
        if m is None:
            raise AnalysisError(f'malVisitor.{mname} not found')
        for n in own_nodes(m.node):
            vals = []
            if isinstance(n, ast.Assign) and isinstance(n.targets[0], ast.Subscript) \
                    and isinstance(n.targets[0].slice, ast.Constant) and n.targets[0].slice.value == 'type':
                vals.append(n.value)
            if isinstance(n, ast.Dict):
                for k, v in zip(n.keys, n.values):
                    if isinstance(k, ast.Constant) and k.value == 'type':
                        vals.append(v)
            for v in vals:
                _result_consts(v, expr)
                if isinstance(v, ast.Call) and isinstance(v.func, ast.Attribute):
                    if v.func.attr == 'visit':
                        # visits the operator child: visitSetop
                        so = vis.methods.get('visitSetop')
                        if so is not None:
                            expr |= _returned_consts(so)
                    elif v.func.attr in vis.methods:
                        expr |= _returned_consts(vis.methods[v.func.attr])
    st = vis.methods.get('visitSteptype')
    if st is None:
        raise AnalysisError('malVisitor.visitSteptype not found')
    step = _returned_consts(st)
    dep = set()
    for f in prog.all_funcs():
        if not f.module.relpath.endswith('languagegraph.py'):
            continue
        pm = None
        for n in own_nodes(f.node):
            if isinstance(n, ast.Call) and isinstance(n.func, ast.Name) and n.func.id == 'DependencyChain':
                targ = None
                for kw in n.keywords:
                    if kw.arg == 'type':
                        targ = kw.value
                if targ is None and n.args:
                    targ = n.args[0]
                if isinstance(targ, ast.Constant) and isinstance(targ.value, str):
                    dep.add(targ.value)
                elif targ is not None:
                    # passed through: constants of the enclosing case
                    if pm is None:
                        pm = {}
                        for x in ast.walk(f.node):
                            for ch in ast.iter_child_nodes(x):
                                pm[id(ch)] = x
                    cur = n
                    while id(cur) in pm:
                        cur = pm[id(cur)]
                        if isinstance(cur, ast.match_case):
                            for sub in ast.walk(cur.pattern):
                                if isinstance(sub, ast.MatchValue) and isinstance(sub.value, ast.Constant):
                                    dep.add(sub.value.value)
                            break
    return {'expr': expr, 'step': step, 'dep': dep}


def _module_dicts(mod):
    """module-level NAME = {<str>: ...} (also annotated) -> {NAME: set of string keys}; tuple tables of
    ((<str>, ...), rule) rows -> the strings of the first column"""
    out = {}
    bodies = list(mod.tree.body)
    for c_ in mod.tree.body:
        if isinstance(c_, ast.ClassDef):
            bodies += c_.body          # class-level tables (self.TABLE / cls.TABLE)
    for st in bodies:
        tg, val = None, None
        if isinstance(st, ast.Assign) and len(st.targets) == 1 and isinstance(st.targets[0], ast.Name):
            tg, val = st.targets[0].id, st.value
        elif isinstance(st, ast.AnnAssign) and isinstance(st.target, ast.Name) and st.value is not None:
            tg, val = st.target.id, st.value
        if tg is None:
            continue
        keys = set()
        if isinstance(val, ast.Dict):
            for k in val.keys:
                if isinstance(k, ast.Constant) and isinstance(k.value, str):
                    keys.add(k.value)
                elif isinstance(k, ast.Tuple):
                    keys |= {e.value for e in k.elts if isinstance(e, ast.Constant) and isinstance(e.value, str)}
        elif isinstance(val, (ast.Tuple, ast.List)):
            for row in val.elts:
                if isinstance(row, (ast.Tuple, ast.List)) and row.elts:
                    first = row.elts[0]
                    for e in ([first] if isinstance(first, ast.Constant) else
                              (first.elts if isinstance(first, (ast.Tuple, ast.List, ast.Set)) else [])):
                        if isinstance(e, ast.Constant) and isinstance(e.value, str):
                            keys.add(e.value)
        if keys:
            out[tg] = keys
    return out


def handled_consts(f, ctx=None):
    out = set()
    has_wild = False
    funcs = [f]
    if ctx is not None:
        funcs += [g for g in ctx.an.reachable([f]).values() if g is not f and g.module is f.module]
    tables = _module_dicts(f.module)
    for g in funcs:
        for n in ast.walk(g.node):
            # table-driven dispatch: `x.type in TABLE`, `TABLE[x.type]`, `TABLE.get(x.type)`, `for types, rule in TABLE`
            if isinstance(n, ast.Name) and isinstance(n.ctx, ast.Load) and n.id in tables:
                out |= tables[n.id]
            if isinstance(n, ast.Attribute) and isinstance(n.ctx, ast.Load) and n.attr in tables \
                    and isinstance(n.value, ast.Name):
                out |= tables[n.attr]
    # a dispatch dict built inside the function: `by_type = {'defense': h1, 'exist': h2}` ... `by_type.get(x['type'], d)`
    for g in funcs:
        local = {}
        for n in ast.walk(g.node):
            if isinstance(n, ast.Assign) and len(n.targets) == 1 and isinstance(n.targets[0], ast.Name) \
                    and isinstance(n.value, ast.Dict) and n.value.keys \
                    and all(isinstance(k, ast.Constant) and isinstance(k.value, str) for k in n.value.keys):
                local[n.targets[0].id] = {k.value for k in n.value.keys}
        for n in ast.walk(g.node):
            if isinstance(n, ast.Subscript) and isinstance(n.value, ast.Name) and n.value.id in local \
                    and isinstance(n.ctx, ast.Load) and 'type' in stmt_text(n.slice):
                out |= local[n.value.id]
            if isinstance(n, ast.Call) and isinstance(n.func, ast.Attribute) and n.func.attr == 'get' \
                    and isinstance(n.func.value, ast.Name) and n.func.value.id in local and n.args \
                    and 'type' in stmt_text(n.args[0]):
                out |= local[n.func.value.id]
    for n in [x for g in funcs for x in (own_nodes(g.node) if g is f else ast.walk(g.node))]:
        if isinstance(n, ast.Match):
            for c in n.cases:
                for sub in ast.walk(c.pattern):
                    if isinstance(sub, ast.MatchValue) and isinstance(sub.value, ast.Constant) \
                            and isinstance(sub.value.value, str):
                        out.add(sub.value.value)
                if isinstance(c.pattern, ast.MatchAs) and c.pattern.pattern is None:
                    has_wild = True
        elif isinstance(n, ast.Compare) and len(n.ops) == 1:
            if isinstance(n.ops[0], (ast.Eq,)) and isinstance(n.comparators[0], ast.Constant) \
                    and isinstance(n.comparators[0].value, str) and 'type' in stmt_text(n.left):
                out.add(n.comparators[0].value)
            if isinstance(n.ops[0], ast.In) and isinstance(n.comparators[0], (ast.List, ast.Tuple, ast.Set)) \
                    and 'type' in stmt_text(n.left):
                for el in n.comparators[0].elts:
                    if isinstance(el, ast.Constant) and isinstance(el.value, str):
                        out.add(el.value)
    return out, has_wild


def run(ctx) -> list[Inst]:
    prog = ctx.prog
    prod = producers(ctx)
    if len(prod['expr']) < 6 or len(prod['step']) < 4 or len(prod['dep']) < 4:
        # the visitor no longer names its result constants in a form this rule reads (return of constants,
        # conditional expressions, next() over a class-level table): nothing is decided
        return [Inst(RULE, fname, f'handlers of {table} constants', 'unproven',
                     msg=('producer constants of the visitor not recognised '
                          f'({ {k: len(v) for k, v in prod.items()} }): the dispatcher is not compared'),
                     file=prog.func(fname).module.relpath, line=prog.func(fname).node.lineno, props=props)
                for (fname, table, props, subset) in CONSUMERS]
    insts = []
    for (fname, table, props, subset) in CONSUMERS:
        f = prog.func(fname)
        handled, wild = handled_consts(f, ctx)
        need = prod[table] if subset is None else (prod[table] & subset)
        for c in sorted(need):
            construct = f"handler for {table} constant '{c}'"
            if c in handled:
                insts.append(Inst(RULE, fname, construct, 'ok', file=f.module.relpath, line=f.node.lineno,
                                  props=props))
            else:
                insts.append(Inst(
                    RULE, fname, construct, 'violation',
                    msg=(f"the visitor can produce '{c}' but {fname} has no case for it"
                         + (": it falls through to the wildcard case (logged, empty result)" if wild else
                            ": no branch handles it")),
                    file=f.module.relpath, line=f.node.lineno, props=props))
    return insts
