"""Rule catalogue (DESIGN section 4). Each module exposes run(ctx) -> list[Inst]."""
