"""R19 FLOW / T9 - provenance obligations for the step-expression evaluator (C01) and for node
construction / attacker attachment (C02, C11).

Evaluator skeleton (`_process_step_expression`, one obligation per opcode):
  attackStep   returns the incoming targets unchanged together with expr['name']
  union/intersection/difference
               lhs and rhs are both evaluated on the SAME incoming targets (T9):
               union        = L (alias or copy) plus every r of R that is not a member (or all r)
               intersection = the elements of one side that are members of the other
               difference   = the l of L that are not members of R, built without removing from
                              the list being walked
               membership is recognised in its in / any / next(gen) / id-list forms (idioms.py); an
               "exists ANOTHER element" test (!= inside the generator) is not a membership
  collect      lhs evaluated on the incoming targets, rhs on the targets lhs produced; rhs's pair returned
  field        union over ALL incoming targets of get_associated_assets_by_field_name(t, expr['name'])
  subType      keeps the elements whose language asset is_subasset_of(asset named expr['subType'])
               (receiver from the element's type, argument from expr['subType'])
  variable     looks the variable up by (type of a target, expr['name']) and evaluates it on the
               same targets
"""
from __future__ import annotations

import ast

from ..core import own_nodes, stmt_text, AnalysisError
from ..idioms import membership, append_loops, comprehension_filter, snapshot_of, is_empty_list, is_name, same
from ..report import Inst

RULE = 'R19'
EVAL = '_process_step_expression'


def _cases(f, subject_param):
    """opcode -> (context statements before, case body, context statements after)"""
    out = {}

    def is_type_subject(e):
        e2 = e
        if isinstance(e2, ast.Subscript) and isinstance(e2.value, ast.Name) and e2.value.id == subject_param \
                and isinstance(e2.slice, ast.Constant) and e2.slice.value == 'type':
            return True
        return False

    def consts(pattern):
        cs = []
        for sub in ast.walk(pattern):
            if isinstance(sub, ast.MatchValue) and isinstance(sub.value, ast.Constant):
                cs.append(sub.value.value)
        return cs

    def visit(stmts, before, after):
        for i, st in enumerate(stmts):
            if isinstance(st, ast.Match) and is_type_subject(st.subject):
                for c in st.cases:
                    cs = consts(c.pattern)
                    inner = [x for x in c.body if isinstance(x, ast.Match) and is_type_subject(x.subject)]
                    if inner:
                        j = c.body.index(inner[0])
                        visit(c.body, before + list(c.body[:j]), list(c.body[j + 1:]) + after)
                    else:
                        for k in cs:
                            out[k] = (before + list(stmts[:i]) if before or i else list(stmts[:i]),
                                      list(c.body), list(stmts[i + 1:]) + after, c)
    visit(f.node.body, [], [])
    return out


def _rec_calls(stmts, fname):
    """assignments binding the result of a recursive evaluator call:
       -> list of dict(targets=(names...), call, stmt)"""
    out = []
    for st in stmts:
        for n in ast.walk(st):
            if isinstance(n, (ast.Assign, ast.Return)) and isinstance(n.value, ast.Call) \
                    and isinstance(n.value.func, ast.Name) and n.value.func.id == fname:
                tg = None
                if isinstance(n, ast.Assign):
                    t = n.targets[0]
                    if isinstance(t, (ast.Tuple, ast.List)):
                        tg = tuple(e.id if isinstance(e, ast.Name) else None for e in t.elts)
                    elif isinstance(t, ast.Name):
                        tg = (t.id,)
                out.append(dict(targets=tg, call=n.value, stmt=n, ret=isinstance(n, ast.Return)))
    return out


def _arg(call, f, pname):
    pos = [a.arg for a in f.node.args.posonlyargs + f.node.args.args]
    if pname in pos:
        idx = pos.index(pname)
        if idx < len(call.args) and not any(isinstance(a, ast.Starred) for a in call.args[:idx + 1]):
            return call.args[idx]
    for kw in call.keywords:
        if kw.arg == pname:
            return kw.value
    return None


def evaluator_roles(f):
    """(language graph, model, targets, expression) parameters of the evaluator by ROLE, whatever their order and
    kind (positional / keyword-only): the expression is the one subscripted with 'type', the targets the one iterated
    or returned next to expr['name']; the other two by their names."""
    allp = [a.arg for a in f.node.args.posonlyargs + f.node.args.args + f.node.args.kwonlyargs]
    expr = next((p_ for p_ in allp if any(
        isinstance(n, ast.Subscript) and isinstance(n.value, ast.Name) and n.value.id == p_
        and isinstance(n.slice, ast.Constant) and n.slice.value == 'type' for n in ast.walk(f.node))), None)
    lg = next((p_ for p_ in allp if 'lang' in p_), None)
    model = next((p_ for p_ in allp if 'model' in p_), None)
    rest = [p_ for p_ in allp if p_ not in (expr, lg, model)]
    targets = rest[0] if len(rest) == 1 else next((p_ for p_ in rest if 'target' in p_ or 'asset' in p_), None)
    if None in (expr, lg, model, targets) or len(allp) != 4:
        return None
    return lg, model, targets, expr


def _is_sub(e, base, key):
    return isinstance(e, ast.Subscript) and is_name(e.value, base) and isinstance(e.slice, ast.Constant) \
        and e.slice.value == key


def run(ctx) -> list[Inst]:
    prog = ctx.prog
    f = prog.func(EVAL)
    rel = f.module.relpath
    roles = evaluator_roles(f)
    if roles is None:
        raise AnalysisError(f'{EVAL}: expected 4 parameters (lang_graph, model, targets, expression)')
    P_LG, P_MODEL, P_T, P_E = roles
    cases = _cases(f, P_E)
    need = ['attackStep', 'union', 'intersection', 'difference', 'collect', 'field', 'subType', 'variable']
    miss = [k for k in need if k not in cases]
    if miss:
        raise AnalysisError(f'{EVAL}: no case found for {miss} (dispatch idiom not recognised)')
    insts = []
    props = ('C01', 'C02', 'C15')

    def add(op, what, verdict, msg='', line=0):
        insts.append(Inst(RULE, EVAL, f'{op}: {what}', verdict, msg=msg, file=rel,
                          line=line or cases[op][3].pattern.lineno, props=props))

    # ---------------------------------------------------------------- attackStep
    before, body, after, c = cases['attackStep']
    ok = False
    for st in body:
        if isinstance(st, ast.Return) and isinstance(st.value, ast.Tuple) and len(st.value.elts) == 2:
            a, b = st.value.elts
            if is_name(a, P_T) and _is_sub(b, P_E, 'name'):
                ok = True
    add('attackStep', 'returns (incoming targets, expr[name])', 'ok' if ok else 'violation',
        '' if ok else "the attackStep case does not return the incoming targets unchanged with expr['name']")

    # ---------------------------------------------------------------- set operators (T9)
    for op in ('union', 'intersection', 'difference'):
        before, body, after, c = cases[op]
        rc = _rec_calls(before + body, EVAL)
        L = R = None
        same_targets = True
        for r in rc:
            ea = _arg(r['call'], f, P_E)
            ta = _arg(r['call'], f, P_T)
            if _is_sub(ea, P_E, 'lhs') and r['targets']:
                L = r['targets'][0]
                same_targets &= is_name(ta, P_T)
            elif _is_sub(ea, P_E, 'rhs') and r['targets']:
                R = r['targets'][0]
                same_targets &= is_name(ta, P_T)
        if L is None or R is None:
            add(op, 'operands evaluated by recursive calls on lhs / rhs', 'unproven',
                'recursive evaluation of lhs/rhs not recognised')
            continue
        # both operands are evaluated on every path through the case: no return / raise between the two calls
        cfg = ctx.cfg(f)
        calls = [r for r in rc if (_is_sub(_arg(r['call'], f, P_E), P_E, 'lhs') or
                                   _is_sub(_arg(r['call'], f, P_E), P_E, 'rhs'))]
        cnodes = list({x.idx: x for x in (cfg.owner(r['call']) for r in calls) if x is not None}.values())
        if len(cnodes) >= 2:
            first, second = sorted(cnodes, key=lambda x: x.idx)[:2]
            # is there a path from the first evaluation to an exit that avoids the second one?
            reach = cfg.reachable_from(first, avoiding={second.idx})
            escapes = cfg.exit.idx in reach or cfg.raise_exit.idx in reach
            add(op, 'both operands are evaluated on every path',
                'violation' if escapes else 'ok',
                (f"a path leaves the {op} case after '{stmt_text(first.ast, 60)}' without evaluating the other "
                 f"operand (early return): for a union the elements of the skipped operand are lost")
                if escapes else '')
        add(op, 'lhs and rhs evaluated on the same incoming targets',
            'ok' if same_targets else 'violation',
            '' if same_targets else (f"one operand of {op} is not evaluated on '{P_T}': the set operator "
                                     f"combines sets computed from different start assets"))
        # shortcut exits: `if not R: return (L, None)` is right for union / difference, wrong for intersection ...
        for (stt, verdict_, msg_) in _shortcut_exits(op, before + body, L, R):
            add(op, 'shortcut exits return what the operator defines for an empty operand', verdict_, msg_, line=stt.lineno)
        # result variable
        res = None
        for st in after + body:
            if isinstance(st, ast.Return) and isinstance(st.value, ast.Tuple) and st.value.elts \
                    and isinstance(st.value.elts[0], ast.Name):
                res = st.value.elts[0].id
        # initial content of the result
        init = None
        for st in before + body:
            if isinstance(st, ast.Assign) and len(st.targets) == 1 and is_name(st.targets[0], res):
                init = st.value
        what = f'{op} builds the right set'
        shared = [sub.value.value for sub in ast.walk(c.pattern)
                  if isinstance(sub, ast.MatchValue) and isinstance(sub.value, ast.Constant)]
        if len(shared) > 1:
            # one case body for several operators, told apart inside it by something other than a nested `match`
            # (if / elif on the type, a conditional expression, a table): the per-operator construction is not isolated
            add(op, what, 'unproven', f'the operators {shared} share one case body without a nested match', line=c.pattern.lineno)
            continue
        verdict, msg = _classify_setop(op, body, res, init, L, R)
        add(op, what, verdict, msg, line=c.pattern.lineno)

    # ---------------------------------------------------------------- collect
    before, body, after, c = cases['collect']
    rc = _rec_calls(body, EVAL)
    lhs = [r for r in rc if _is_sub(_arg(r['call'], f, P_E), P_E, 'lhs')]
    rhs = [r for r in rc if _is_sub(_arg(r['call'], f, P_E), P_E, 'rhs')]
    if len(lhs) == 1 and len(rhs) == 1 and lhs[0]['targets']:
        lt = lhs[0]['targets'][0]
        ok1 = is_name(_arg(lhs[0]['call'], f, P_T), P_T)
        ok2 = is_name(_arg(rhs[0]['call'], f, P_T), lt)
        returned = rhs[0]['ret']
        if not returned and rhs[0]['targets']:
            # result bound to names and returned as a tuple of them
            for st in body:
                if isinstance(st, ast.Return) and isinstance(st.value, ast.Tuple) \
                        and [getattr(e, 'id', None) for e in st.value.elts] == list(rhs[0]['targets']):
                    returned = True
        add('collect', 'lhs on incoming targets, rhs on the targets of lhs, rhs pair returned',
            'ok' if (ok1 and ok2 and returned) else 'violation',
            '' if (ok1 and ok2 and returned) else
            ("collect must evaluate lhs on the incoming targets, feed lhs's targets into rhs and return "
             "rhs's result: " + ('lhs not on incoming targets; ' if not ok1 else '')
             + ('rhs not evaluated on the targets of lhs; ' if not ok2 else '')
             + ('rhs result not returned' if not returned else '')))
    else:
        add('collect', 'lhs then rhs', 'unproven', 'shape of the collect case not recognised')

    # ---------------------------------------------------------------- field
    before, body, after, c = cases['field']
    verdict, msg = 'unproven', 'shape of the field case not recognised'
    for n in body:
        for loop in ast.walk(n):
            if isinstance(loop, ast.For) and is_name(loop.iter, P_T) and isinstance(loop.target, ast.Name):
                v = loop.target.id
                for call in ast.walk(loop):
                    if isinstance(call, ast.Call) and isinstance(call.func, ast.Attribute) \
                            and call.func.attr == 'get_associated_assets_by_field_name':
                        a0 = call.args[0] if call.args else None
                        a1 = call.args[1] if len(call.args) > 1 else None
                        if is_name(a0, v) and _is_sub(a1, P_E, 'name'):
                            verdict, msg = 'ok', ''
                        else:
                            verdict, msg = 'violation', (
                                f"navigation call '{stmt_text(call, 80)}' does not navigate from each target "
                                f"by expr['name']")
        for comp in ast.walk(n):
            if isinstance(comp, (ast.ListComp, ast.GeneratorExp)) and any(
                    is_name(g.iter, P_T) for g in comp.generators):
                for call in ast.walk(comp):
                    if isinstance(call, ast.Call) and isinstance(call.func, ast.Attribute) \
                            and call.func.attr == 'get_associated_assets_by_field_name' \
                            and len(call.args) > 1 and _is_sub(call.args[1], P_E, 'name'):
                        verdict, msg = 'ok', ''
    if verdict == 'unproven':
        # navigation from a single element (targets[0]) is a definite defect
        for n in body:
            for call in ast.walk(n):
                if isinstance(call, ast.Call) and isinstance(call.func, ast.Attribute) \
                        and call.func.attr == 'get_associated_assets_by_field_name' and call.args \
                        and isinstance(call.args[0], ast.Subscript) and is_name(call.args[0].value, P_T):
                    verdict, msg = 'violation', (
                        f"'{stmt_text(call, 80)}' navigates from one element of the targets only: the other "
                        f"targets' neighbours are lost")
    add('field', 'navigates from every incoming target by expr[name]', verdict, msg)

    # ---------------------------------------------------------------- subType
    before, body, after, c = cases['subType']
    verdict, msg = 'unproven', 'sub-type filter not recognised'
    for n in body:
        for call in ast.walk(n):
            if isinstance(call, ast.Call) and isinstance(call.func, ast.Attribute) \
                    and call.func.attr == 'is_subasset_of' and call.args:
                recv, arg = call.func.value, call.args[0]
                rsrc = _lookup_source(body, recv)
                asrc = _lookup_source(body, arg)
                if rsrc == 'elem-type' and asrc == 'expr-subType':
                    verdict, msg = 'ok', ''
                elif rsrc == 'expr-subType' and asrc == 'elem-type':
                    verdict, msg = 'violation', (
                        f"'{stmt_text(call)}' asks whether the REQUESTED sub-type extends the element's type: "
                        f"receiver and argument are swapped (keeps super-types, drops proper sub-types)")
                else:
                    verdict, msg = 'unproven', f'sources of receiver/argument: {rsrc} / {asrc}'
    add('subType', 'keeps elements whose type is_subasset_of(expr[subType])', verdict, msg)
    rc = _rec_calls(body, EVAL)
    inner = [r for r in rc if _is_sub(_arg(r['call'], f, P_E), P_E, 'stepExpression')]
    if inner:
        ok = all(is_name(_arg(r['call'], f, P_T), P_T) for r in inner)
        add('subType', 'inner expression evaluated on the incoming targets', 'ok' if ok else 'violation',
            '' if ok else 'the inner expression of the sub-type filter is not evaluated on the incoming targets')

    # ---------------------------------------------------------------- variable
    before, body, after, c = cases['variable']
    verdict, msg = 'unproven', 'variable lookup not recognised'
    look = None
    for n in body:
        for call in ast.walk(n):
            if isinstance(call, ast.Call) and isinstance(call.func, ast.Attribute) \
                    and call.func.attr == '_get_variable_for_asset_type_by_name' and len(call.args) == 2:
                look = call
    if look is not None:
        a0, a1 = look.args
        t_ok = isinstance(a0, ast.Attribute) and a0.attr == 'type'
        n_ok = _is_sub(a1, P_E, 'name')
        rc = [r for r in _rec_calls(body, EVAL)]
        ev_ok = bool(rc) and all(is_name(_arg(r['call'], f, P_T), P_T) for r in rc)
        if t_ok and n_ok and ev_ok:
            verdict, msg = 'ok', ''
        else:
            verdict, msg = 'violation', (
                'variable must be looked up by (target.type, expr[name]) and evaluated on the same targets: '
                + ('' if t_ok else 'type argument is not a target type; ')
                + ('' if n_ok else "name argument is not expr['name']; ")
                + ('' if ev_ok else 'the variable body is not evaluated on the incoming targets'))
    add('variable', 'looked up by (target type, expr[name]), evaluated on the same targets', verdict, msg)
    insts += _static_setop(ctx)
    insts += _link_all(ctx)
    return insts


def _link_all(ctx) -> list[Inst]:
    """LINKALL  the linking loop of AttackGraph._generate_graph evaluates the reaches expressions of EVERY node; the only
    thing that makes a node's evaluation unnecessary is that it has no expressions.  A `continue` decided by anything
    else (the asset has no associations, the node's type ..) drops edges: a bare `-> step` targets the asset itself."""
    fname = 'AttackGraph._generate_graph'
    if not ctx.prog.has_func(fname):
        return []
    f = ctx.prog.func(fname)
    rel = f.module.relpath
    construct = 'LINKALL: every node with reaches expressions is linked'
    out = []
    for lp in own_nodes(f.node):
        if not isinstance(lp, ast.For):
            continue
        calls = [c for c in ast.walk(lp) if isinstance(c, ast.Call) and stmt_text(c.func).split('.')[-1] == EVAL
                 and 'reaches' in stmt_text(lp, 4000)]
        if not calls or any(isinstance(x, ast.For) and x is not lp and any(c in list(ast.walk(x)) for c in calls) and
                            not any(c2 for c2 in [1]) for x in []):
            continue
        # only the loop over the graph's nodes that reads `reaches` (the linking loop), top-level statements of its body
        if 'reaches' not in stmt_text(lp, 6000) or 'nodes' not in stmt_text(lp.iter, 100):
            continue
        for st in lp.body:
            if isinstance(st, ast.If) and any(isinstance(x, ast.Continue) for b in st.body for x in ast.walk(b)) \
                    and not any(isinstance(x, (ast.For, ast.While)) for b in st.body for x in ast.walk(b)):
                t = stmt_text(st.test, 300)
                if not any(w in t for w in ('reaches', 'stepExpressions', 'step_expressions', 'attributes')):
                    out.append(Inst(
                        RULE, f.short, construct, 'violation',
                        msg=(f"'if {stmt_text(st.test, 60)}: continue' leaves nodes out of the linking loop for a reason other "
                             f"than having no reaches expressions: their edges - also the ones to steps of the same asset "
                             f"(`-> step`) - are never created"),
                        file=rel, line=st.lineno, props=('C01', 'C02', 'C09')))
        if not out:
            out.append(Inst(RULE, f.short, construct, 'ok', file=rel, line=lp.lineno, props=('C01', 'C02', 'C09')))
        break
    return out


def _static_setop(ctx) -> list[Inst]:
    """Static counterpart (LanguageGraph.process_step_expression): the asset type a set operation is said to lead to
    must cover what the evaluator above returns.  `L - R` and `L \\/ R` contain elements of the LEFT operand that are
    no R: the type returned by the shared union / intersection / difference case is the left operand's; the right
    operand's (narrower) type is admissible under an explicit test for 'intersection' only."""
    prog = ctx.prog
    fname = 'LanguageGraph.process_step_expression'
    if not prog.has_func(fname):
        return []
    f = prog.func(fname)
    rel = f.module.relpath
    props = ('C15', 'C01')
    construct = 'static set operation: the resulting type is the left operand\'s'
    pe = None
    for p_ in f.params:
        if 'expr' in p_:
            pe = p_
    if pe is None:
        return [Inst(RULE, fname, construct, 'unproven', msg='expression parameter not recognised', file=rel,
                     line=f.node.lineno, props=props, nontrivial=False)]
    cases = _cases(f, pe)
    out = []
    done = set()
    for op in ('union', 'intersection', 'difference'):
        if op not in cases:
            continue
        before, body, after, c = cases[op]
        if id(c) in done:
            continue
        done.add(id(c))
        L = R = None
        for st in body:
            for n in ast.walk(st):
                if isinstance(n, ast.Assign) and isinstance(n.value, ast.Call) and isinstance(n.value.func, ast.Attribute) \
                        and n.value.func.attr == f.name and isinstance(n.targets[0], (ast.Tuple, ast.List)) \
                        and n.targets[0].elts and isinstance(n.targets[0].elts[0], ast.Name):
                    which = [a for a in n.value.args if isinstance(a, ast.Subscript) and is_name(a.value, pe)
                             and isinstance(a.slice, ast.Constant)]
                    if which and which[0].slice.value == 'lhs':
                        L = n.targets[0].elts[0].id
                    elif which and which[0].slice.value == 'rhs':
                        R = n.targets[0].elts[0].id
        if L is None or R is None:
            out.append(Inst(RULE, fname, construct, 'unproven', msg='operand evaluation not recognised', file=rel,
                            line=c.pattern.lineno, props=props, nontrivial=False))
            continue
        shared = [sub.value.value for sub in ast.walk(c.pattern)
                  if isinstance(sub, ast.MatchValue) and isinstance(sub.value, ast.Constant)]
        parent = {}
        for st in body:
            for x in ast.walk(st):
                for ch in ast.iter_child_nodes(x):
                    parent[id(ch)] = x

        def sources(name, depth=0):
            if name in (L, R):
                return {name}
            if depth > 4:
                return {'?'}
            res = set()
            for st in body:
                for n in ast.walk(st):
                    if isinstance(n, ast.Assign) and any(is_name(t, name) for t in n.targets):
                        v = n.value
                        if isinstance(v, ast.Name):
                            res |= sources(v.id, depth + 1)
                        elif isinstance(v, ast.IfExp) and isinstance(v.body, ast.Name) and isinstance(v.orelse, ast.Name):
                            res |= sources(v.body.id, depth + 1) | sources(v.orelse.id, depth + 1)
                        else:
                            res.add('?')
            return res or {'?'}

        def under_intersection_test(n):
            cur = parent.get(id(n))
            while cur is not None:
                if isinstance(cur, (ast.If, ast.IfExp)) and 'intersection' in stmt_text(cur.test, 200):
                    return True
                if isinstance(cur, ast.match_case) and 'intersection' in stmt_text(cur.pattern, 100) \
                        and 'union' not in stmt_text(cur.pattern, 100) and 'difference' not in stmt_text(cur.pattern, 100):
                    return True
                cur = parent.get(id(cur))
            return False

        for st in body:
            for n in ast.walk(st):
                if not (isinstance(n, ast.Return) and isinstance(n.value, ast.Tuple) and n.value.elts):
                    continue
                e0 = n.value.elts[0]
                if isinstance(e0, ast.Constant) and e0.value is None:
                    continue
                if not isinstance(e0, ast.Name):
                    out.append(Inst(RULE, fname, construct, 'unproven', msg=f"'{stmt_text(e0, 40)}'", file=rel,
                                    line=n.lineno, props=props, nontrivial=False))
                    continue
                src = sources(e0.id)
                if src == {L}:
                    out.append(Inst(RULE, fname, construct, 'ok', file=rel, line=n.lineno, props=props))
                elif R in src and len(shared) > 1 and not under_intersection_test(n) and not any(
                        under_intersection_test(a) for st2 in body for a in ast.walk(st2)
                        if isinstance(a, ast.Assign) and any(is_name(t, e0.id) for t in a.targets)
                        and isinstance(a.value, ast.Name) and R in sources(a.value.id)):
                    out.append(Inst(
                        RULE, fname, construct, 'violation',
                        msg=(f"the case for {shared} can return the RIGHT operand's type ('{R}') as the type the set "
                             f"operation leads to: a difference or union still contains left-operand elements that are "
                             f"not of that type, so the language graph links the following step to a narrower type "
                             f"than the attack graph reaches"),
                        file=rel, line=n.lineno, props=props))
                else:
                    out.append(Inst(RULE, fname, construct, 'unproven', msg=f'sources {sorted(src)}', file=rel,
                                    line=n.lineno, props=props, nontrivial=False))
    return out


def _lookup_source(body, e):
    """where does a language-graph asset expression come from: the element's type or expr['subType']?"""
    if isinstance(e, ast.Name):
        for st in body:
            for n in ast.walk(st):
                if isinstance(n, ast.Assign) and len(n.targets) == 1 and is_name(n.targets[0], e.id):
                    return _lookup_source(body, n.value)
        return None
    if isinstance(e, ast.Call) and isinstance(e.func, ast.Attribute) and e.func.attr == 'get_asset_by_name' and e.args:
        a = e.args[0]
        if isinstance(a, ast.Attribute) and a.attr == 'type':
            return 'elem-type'
        if isinstance(a, ast.Subscript) and isinstance(a.slice, ast.Constant) and a.slice.value == 'subType':
            return 'expr-subType'
        if isinstance(a, ast.Name):
            return _lookup_source(body, a)
    if isinstance(e, ast.Subscript) and isinstance(e.slice, ast.Constant) and e.slice.value == 'subType':
        return 'expr-subType'
    if isinstance(e, ast.Attribute) and e.attr == 'type':
        return 'elem-type'
    return None


def _emptiness(test, L, R):
    """truth of an emptiness test over (L empty?, R empty?) -> function, or None when not such a test"""
    if isinstance(test, ast.UnaryOp) and isinstance(test.op, ast.Not):
        if is_name(test.operand, L):
            return lambda le, re_: le
        if is_name(test.operand, R):
            return lambda le, re_: re_
        inner = _emptiness(test.operand, L, R)
        if inner is not None:
            return lambda le, re_: not inner(le, re_)
        return None
    if isinstance(test, ast.Name) and test.id in (L, R):
        return (lambda le, re_: not le) if test.id == L else (lambda le, re_: not re_)
    if isinstance(test, ast.Compare) and len(test.ops) == 1:
        l, r = test.left, test.comparators[0]
        who = None
        if isinstance(l, ast.Call) and isinstance(l.func, ast.Name) and l.func.id == 'len' and len(l.args) == 1 \
                and isinstance(l.args[0], ast.Name) and l.args[0].id in (L, R) and isinstance(r, ast.Constant) and r.value == 0:
            who = l.args[0].id
        elif isinstance(l, ast.Name) and l.id in (L, R) and isinstance(r, ast.List) and not r.elts:
            who = l.id
        if who is not None and isinstance(test.ops[0], (ast.Eq, ast.NotEq)):
            neg = isinstance(test.ops[0], ast.NotEq)
            if who == L:
                return lambda le, re_: le != neg
            return lambda le, re_: re_ != neg
        return None
    if isinstance(test, ast.BoolOp):
        parts = [_emptiness(v, L, R) for v in test.values]
        if any(p_ is None for p_ in parts):
            return None
        if isinstance(test.op, ast.Or):
            return lambda le, re_: any(p_(le, re_) for p_ in parts)
        return lambda le, re_: all(p_(le, re_) for p_ in parts)
    return None


def _shortcut_exits(op, stmts, L, R):
    """early `return (X, ..)` guarded by a test on the emptiness of the operands, at the top level of the case: the
    value returned must equal the operator's value in every emptiness situation the guard admits."""
    out = []
    for st in stmts:
        if not isinstance(st, ast.If):
            continue
        names = {n.id for n in ast.walk(st.test) if isinstance(n, ast.Name)}
        if not (names & {L, R}):
            continue
        if not (len(st.body) == 1 and isinstance(st.body[0], ast.Return) and isinstance(st.body[0].value, ast.Tuple)
                and st.body[0].value.elts):
            continue
        guard = _emptiness(st.test, L, R)
        x = st.body[0].value.elts[0]
        if isinstance(x, ast.Name) and x.id in (L, R):
            val = x.id
        elif isinstance(x, ast.List) and not x.elts:
            val = 'EMPTY'
        elif isinstance(x, ast.Call) and isinstance(x.func, ast.Name) and x.func.id == 'list' and len(x.args) == 1 \
                and isinstance(x.args[0], ast.Name) and x.args[0].id in (L, R):
            val = x.args[0].id
        else:
            val = None
        if guard is None or val is None:
            out.append((st, 'unproven', f"shortcut '{stmt_text(st.test, 50)}' -> '{stmt_text(x, 40)}' not recognised"))
            continue
        bad = None
        for le in (True, False):
            for re_ in (True, False):
                if not guard(le, re_):
                    continue
                if not le and not re_:
                    bad = ('both operands non-empty', None, None)
                    break
                want = {'union': ('EMPTY' if re_ else R) if le else L,
                        'intersection': 'EMPTY',
                        'difference': 'EMPTY' if le else L}[op]
                got = 'EMPTY' if (val == L and le) or (val == R and re_) else val
                if got != want:
                    bad = (f"{'empty' if le else 'non-empty'} left and {'empty' if re_ else 'non-empty'} right operand",
                           got, want)
                    break
            if bad:
                break
        if bad is None:
            out.append((st, 'ok', ''))
        elif bad[1] is None:
            out.append((st, 'unproven', f"shortcut '{stmt_text(st.test, 50)}' can be taken with both operands non-empty"))
        else:
            out.append((st, 'violation',
                        f"'if {stmt_text(st.test, 60)}: return ({stmt_text(x, 30)}, ..)' leaves the {op} case with "
                        f"{'nothing' if bad[1] == 'EMPTY' else 'the ' + ('left' if bad[1] == L else 'right') + ' operand'} "
                        f"for a {bad[0]}, where {op} yields "
                        f"{'nothing' if bad[2] == 'EMPTY' else 'the ' + ('left' if bad[2] == L else 'right') + ' operand'}"))
    return out


def _classify_setop(op, body, res, init, L, R):
    loops = append_loops(body)
    loops = [l for l in loops if l['dst'] == res]
    comp = None
    comp_prefix = None
    # comprehension forms: res = [v for v in SRC if COND]   /   res = L + [r for r in R if ...]
    for st in body:
        if isinstance(st, (ast.Assign, ast.Return)):
            v = st.value
            if isinstance(st, ast.Return) and isinstance(v, ast.Tuple) and v.elts:
                v = v.elts[0]
            if isinstance(v, ast.BinOp) and isinstance(v.op, ast.Add):
                cf = comprehension_filter(v.right)
                if cf:
                    comp, comp_prefix = cf, v.left
            else:
                cf = comprehension_filter(v)
                if cf and (isinstance(st, ast.Return) or is_name(st.targets[0], res)):
                    comp = cf
    if comp is not None:
        loops = [dict(var=comp['var'], src=comp['src'], cond=comp['cond'], dst=res, op='append')]
        init = comp_prefix if comp_prefix is not None else ast.List(elts=[])
    if not loops:
        return 'unproven', 'no construction loop / comprehension recognised'
    if len(loops) > 1:
        return 'unproven', 'several construction loops'
    lp = loops[0]

    def is_L(e):
        return is_name(e, L) or (snapshot_of(e) is not None and is_name(snapshot_of(e), L))

    def is_R(e):
        return is_name(e, R) or (snapshot_of(e) is not None and is_name(snapshot_of(e), R))

    init_kind = 'empty' if (init is None or is_empty_list(init)) else (
        'L' if is_L(init) else ('R' if is_R(init) else 'other'))
    cond = lp['cond']
    m = membership(cond, lp['var']) if cond is not None else None
    if cond is not None and m is None:
        return 'unproven', f"condition '{stmt_text(cond)}' is not a recognised membership test"
    if m is not None and m[2] == 'exists-other':
        return 'violation', (
            f"'{stmt_text(cond, 90)}' asks whether ANOTHER element exists (!=), not whether "
            f"'{lp['var']}' itself is a member: for {op} this selects the wrong elements "
            f"(e.g. with an empty or one-element side)")
    src_is_L, src_is_R = is_L(lp['src']), is_R(lp['src'])
    if lp['op'] == 'remove':
        # removal from the walked list is R1's finding; semantics: dst - {v in src | cond}
        if op == 'difference' and init_kind == 'L' and m is not None and m[0] is True and \
                ((src_is_L and (is_R(m[1]))) or (src_is_R and (is_name(m[1], res) or is_L(m[1])))):
            return 'ok', ''
        return 'unproven', 'removal-based construction'
    if op == 'union':
        if init_kind != 'L' and not (init_kind == 'R'):
            return 'violation', (f"the union result starts from {init_kind if init_kind != 'other' else stmt_text(init)}"
                                 f" instead of the left-hand targets: left-hand elements are lost")
        other = R if init_kind == 'L' else L
        if not is_name(lp['src'], other) and not (snapshot_of(lp['src']) is not None and is_name(snapshot_of(lp['src']), other)):
            return 'violation', f"union iterates '{stmt_text(lp['src'])}' instead of the other operand"
        if m is None:
            return 'ok', ''
        pol, coll, kind = m
        coll_ok = is_name(coll, res) or is_L(coll) or is_R(coll)
        if pol is False and coll_ok:
            return 'ok', ''
        if pol is True:
            return 'violation', ("union appends an element only if it is ALREADY a member: new elements of the "
                                 "right-hand side are never added")
        return 'unproven', f"membership tested against '{stmt_text(coll)}'"
    if op == 'intersection':
        if init_kind != 'empty':
            return 'violation', 'intersection must start from an empty result'
        if m is None:
            return 'violation', 'intersection keeps every element of one side without a membership test'
        pol, coll, kind = m
        if pol is True and ((src_is_R and is_L(coll)) or (src_is_L and is_R(coll))):
            return 'ok', ''
        if pol is False:
            return 'violation', 'intersection keeps the elements that are NOT members of the other side'
        return 'violation', (f"intersection tests membership of the elements of '{stmt_text(lp['src'])}' in "
                             f"'{stmt_text(coll)}' (must be: one side in the other side)")
    if op == 'difference':
        if init_kind != 'empty':
            return 'violation', ('difference must build a fresh result from the left-hand elements that are '
                                 'not on the right-hand side')
        if not src_is_L:
            return 'violation', f"difference iterates '{stmt_text(lp['src'])}' instead of the left-hand targets"
        if m is None:
            return 'violation', 'difference keeps every left-hand element'
        pol, coll, kind = m
        if pol is False and is_R(coll):
            return 'ok', ''
        if pol is True and is_R(coll):
            return 'violation', 'difference keeps the elements that ARE on the right-hand side (that is the intersection)'
        return 'violation', f"difference tests membership in '{stmt_text(coll)}' instead of the right-hand targets"
    return 'unproven', ''
