"""R5 ATOMIC - Model mutators validate before they commit (C05: "an operation that raises leaves
the observable state unchanged").

In each public Model mutator: no explicit ``raise`` of the function is reachable, on a feasible
path, after a write to model state.  Model state = anything rooted at ``self`` and any parameter
object the function has established to be in the model (a dominating ``if X not in self.F: raise``).
Writes through callees count (effect summaries).  Boolean flags assigned constants are propagated
along the path, so ``found = True ... if not found: raise`` is recognised as infeasible.
Only explicit ``raise`` statements count (implicit exceptions are outside the rule).

R5' PRECOND  A Model mutator that calls another raising Model mutator once per element of an asset's
own ``associations`` list must iterate a duplicate-free collection: add_association lists a
reflexive association once per field, so the raw list can name the same association twice - the
first call removes it (or the asset from it), the second call hits the callee's precondition
``raise`` with the model already half-modified.  Accepted: a list built by a not-in-guarded append,
``set(...)`` / ``dict.fromkeys(...)``.
"""
from __future__ import annotations

import ast

from ..core import stmt_text, own_nodes
from ..idioms import append_loops, membership, is_name, snapshot_of
from ..report import Inst

RULE = 'R5'
MUTATORS = ['Model.add_asset', 'Model.remove_asset', 'Model.remove_asset_from_association',
            'Model.add_association', 'Model.remove_association', 'Model.add_attacker',
            'Model.remove_attacker']
PROPS = ('C05',)


def _in_model_params(f, cfg):
    """parameters X with a dominating guard `if X not in self.<F>: raise`."""
    out = {}
    for n in cfg.nodes:
        if n.kind != 'if':
            continue
        t = n.ast.test
        if isinstance(t, ast.Compare) and len(t.ops) == 1 and isinstance(t.ops[0], ast.NotIn) \
                and isinstance(t.left, ast.Name) and t.left.id in f.params \
                and isinstance(t.comparators[0], ast.Attribute):
            body = n.ast.body
            if body and isinstance(body[-1], ast.Raise):
                out[t.left.id] = n
    return out


def _const_flags_at(cfg, node):
    """local names whose single reaching definition at `node` is a boolean constant."""
    out = {}
    names = set()
    for n in cfg.nodes:
        for v in cfg.defs_of(n):
            names.add(v)
    for v in names:
        defs = cfg.reaching(node, v)
        if len(defs) == 1 and defs[0].kind == 'stmt' and isinstance(defs[0].ast, ast.Assign) \
                and isinstance(defs[0].ast.value, ast.Constant) \
                and isinstance(defs[0].ast.value.value, bool):
            out[v] = defs[0].ast.value.value
    return out


def _flag_test(test):
    """-> (name, value_for_true_branch) when the test is `flag` or `not flag`."""
    if isinstance(test, ast.Name):
        return test.id, True
    if isinstance(test, ast.UnaryOp) and isinstance(test.op, ast.Not) and isinstance(test.operand, ast.Name):
        return test.operand.id, False
    return None


def raise_after(cfg, wnode):
    """a feasible path wnode -> explicit raise; returns the raise CFG node or None."""
    flags0 = _const_flags_at(cfg, wnode)
    # the write node itself may assign flags (not in this repo) - start after it
    start = (wnode, tuple(sorted(flags0.items())))
    seen = set()
    st = [start]
    while st:
        node, fl = st.pop()
        if (node.idx, fl) in seen:
            continue
        seen.add((node.idx, fl))
        flags = dict(fl)
        a = node.ast
        if node is not wnode and node.kind == 'stmt' and isinstance(a, ast.Raise):
            return node
        # flag updates
        if node.kind == 'stmt' and isinstance(a, ast.Assign) and len(a.targets) == 1 \
                and isinstance(a.targets[0], ast.Name):
            nm = a.targets[0].id
            if isinstance(a.value, ast.Constant) and isinstance(a.value.value, bool):
                flags[nm] = a.value.value
            else:
                flags.pop(nm, None)
        else:
            for v in cfg.defs_of(node):
                flags.pop(v, None)
        nfl = tuple(sorted(flags.items()))
        ft = _flag_test(a.test) if node.kind in ('if', 'while') else None
        for t, lab in node.succ:
            if ft is not None and ft[0] in flags and lab in ('T', 'F'):
                val = flags[ft[0]] == ft[1]       # truth of the test
                if (lab == 'T') != val:
                    continue
            if t is cfg.raise_exit or t is cfg.exit:
                continue
            st.append((t, nfl))
    return None


def run(ctx) -> list[Inst]:
    prog, an = ctx.prog, ctx.an
    insts = []
    for fname in MUTATORS:
        f = prog.func(fname)
        cfg = ctx.cfg(f)
        facts = an.of(f)
        rel = f.module.relpath
        inmodel = _in_model_params(f, cfg)
        roots = {f.self_name} | set(inmodel)
        writes = [e for e in facts.effects
                  if e.path.root[0] == 'param' and e.path.root[1] in roots and e.node is not None]
        if not writes:
            insts.append(Inst(RULE, fname, 'no write to model state', 'ok', file=rel,
                              line=f.node.lineno, props=PROPS, nontrivial=False))
            continue
        nraise = sum(1 for n in cfg.nodes if n.kind == 'stmt' and isinstance(n.ast, ast.Raise))
        done = set()
        for e in writes:
            key = (e.node.idx, e.text)
            if key in done:
                continue
            done.add(key)
            r = raise_after(cfg, e.node)
            construct = f'no raise after write: {e.text}'
            if r is None:
                insts.append(Inst(RULE, fname, construct, 'ok',
                                  msg=f'{nraise} explicit raise(s) in the function, none reachable after',
                                  file=rel, line=e.lineno, props=PROPS, nontrivial=nraise > 0))
            else:
                insts.append(Inst(
                    RULE, fname, construct, 'violation',
                    msg=(f"'{e.text}' (line {e.node.lineno}) commits model state, but "
                         f"'{stmt_text(r.ast)}' at line {r.lineno} can still be reached afterwards: "
                         f"a rejected operation leaves a trace"),
                    file=rel, line=e.node.lineno, props=PROPS))
    insts += _precond(ctx)
    return insts


def _dedup_source(f, cfg, name, at):
    """is local `name` (at CFG node `at`) a duplicate-free rebuild of another collection?"""
    defs = cfg.reaching(at, name)
    for d in defs:
        a = d.ast
        if d.kind == 'stmt' and isinstance(a, ast.Assign) and isinstance(a.value, ast.Call):
            c = a.value
            txt = stmt_text(c)
            if 'dict.fromkeys' in txt or (isinstance(c.func, ast.Name) and c.func.id in ('set', 'frozenset')):
                return True
    for lp in append_loops(f.node.body):
        if lp['dst'] == name and lp['op'] == 'append' and lp['cond'] is not None:
            m = membership(lp['cond'], lp['var'])
            if m is not None and m[0] is False and m[2] == 'member' and is_name(m[1], name):
                return True
    return False


def _precond(ctx):
    prog, an = ctx.prog, ctx.an
    insts = []
    for fname in MUTATORS:
        f = prog.func(fname)
        cfg = ctx.cfg(f)
        env = prog.env(f)
        R = ctx.R(f)
        rel = f.module.relpath
        for h in [n for n in cfg.nodes if n.kind == 'for']:
            it = h.ast.iter
            base = snapshot_of(it) or it
            paths = R.paths(base, h)
            raw_assoc_list = any(p.steps and p.steps[-1] == 'associations' and p.root[0] == 'param'
                                 and p.root[1] != f.self_name for p in paths)
            dedup = isinstance(it, ast.Name) and _dedup_source(f, cfg, it.id, h)
            if not raw_assoc_list and not dedup:
                continue
            # raising, writing Model callee invoked in the body
            for n in cfg.nodes:
                l = n.loop
                inside = False
                while l is not None:
                    inside = inside or l is h
                    l = l.loop
                if not inside or n.kind != 'stmt':
                    continue
                for c in ast.walk(n.ast):
                    if not isinstance(c, ast.Call):
                        continue
                    res = env.resolve_call(c)
                    if res[0] != 'func' or res[1].cls is None or res[1].cls.name != 'Model':
                        continue
                    callee = res[1]
                    ccfg = ctx.cfg(callee)
                    raises = [x for x in ccfg.nodes if x.kind == 'stmt' and isinstance(x.ast, ast.Raise)]
                    writes = [e for e in an.of(callee).effects if e.path.root[0] == 'param']
                    if not raises or not writes:
                        continue
                    construct = f"PRECOND: {callee.short} called once per DISTINCT element of {stmt_text(base)}"
                    if dedup:
                        insts.append(Inst(RULE, fname, construct, 'ok', msg='iterates a de-duplicated list',
                                          file=rel, line=h.lineno, props=PROPS))
                    else:
                        insts.append(Inst(
                            RULE, fname, construct, 'violation',
                            msg=(f"'{stmt_text(c, 80)}' runs for every entry of '{stmt_text(it)}', and an asset's "
                                 f"associations list names a reflexive association once per field: the first call "
                                 f"already removes it, the second raises ({len(raises)} precondition raise(s) in "
                                 f"{callee.short}) after the model was modified - remove_asset fails half-way"),
                            file=rel, line=c.lineno, props=PROPS))
    return insts
