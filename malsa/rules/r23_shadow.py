"""R23 SHADOW - a local index taken from a container stays in step with it.

Pattern (any function): a local S is built from a container C before a loop
(``S = {x.k for x in C}``, ``set(...)``, a list / dict comprehension over C).  Inside the loop a
membership test on S guards a mutation of C (append / add / extend / remove), i.e. S is used as the
de-duplication index of C - but S itself is never updated in the loop.  After the first mutation
the index is stale: the same element can be added again (or a removed one is still "present").
The guarded-append idiom on C itself (``if x not in C: C.append(x)``) is the accepted form;
keeping S in step (``S.add(x.k)`` next to the append) is accepted as well.
Expected count zero on a healthy tree: positive fixture checked on every run.
"""
from __future__ import annotations

import ast
import os

from ..cfg import cfg_of
from ..core import own_nodes, stmt_text, Program, AnalysisError
from ..effects import Analyzer, ADDERS, REMOVERS
from ..props import props_for
from ..report import Inst

RULE = 'R23'
FIXTURE = os.path.join(os.path.dirname(os.path.dirname(os.path.abspath(__file__))), 'fixtures', 'r23')


def _source_collection(v):
    """expression C when v builds an index from C: {f(x) for x in C}, set(g(x) for x in C), [..]..."""
    if isinstance(v, (ast.SetComp, ast.ListComp, ast.DictComp, ast.GeneratorExp)) and len(v.generators) == 1:
        return v.generators[0].iter
    if isinstance(v, ast.Call) and isinstance(v.func, ast.Name) and v.func.id in ('set', 'list', 'dict', 'frozenset', 'tuple') \
            and len(v.args) == 1:
        inner = v.args[0]
        if isinstance(inner, (ast.SetComp, ast.ListComp, ast.DictComp, ast.GeneratorExp)):
            return _source_collection(inner)
        if isinstance(inner, (ast.Name, ast.Attribute)):
            return inner
    return None


def findings(prog, resolver_of):
    out = []
    for f in prog.all_funcs():
        cfg = cfg_of(f)
        R = resolver_of(f)
        for n in own_nodes(f.node):
            if not (isinstance(n, ast.Assign) and len(n.targets) == 1 and isinstance(n.targets[0], ast.Name)):
                continue
            S = n.targets[0].id
            C = _source_collection(n.value)
            if C is None:
                continue
            dnode = cfg.node_of(n)
            cvid = R.value_id(C, dnode)
            if cvid is None:
                continue
            # loops after the definition
            for h in [x for x in cfg.nodes if x.kind in ('for', 'while') and cfg.dominates(dnode, x)
                      and x is not dnode and dnode.loop is not x]:
                body = [x for x in cfg.nodes if _inside(x, h)]
                muts_c, muts_s, tests = [], [], []
                for x in body:
                    for r in _roots(x):
                        for sub in ast.walk(r):
                            if isinstance(sub, ast.Call) and isinstance(sub.func, ast.Attribute) \
                                    and sub.func.attr in (ADDERS | REMOVERS):
                                if R.value_id(sub.func.value, x) == cvid:
                                    muts_c.append((x, sub))
                                if isinstance(sub.func.value, ast.Name) and sub.func.value.id == S:
                                    muts_s.append((x, sub))
                            if isinstance(sub, ast.Compare) and len(sub.ops) == 1 \
                                    and isinstance(sub.ops[0], (ast.In, ast.NotIn)) \
                                    and isinstance(sub.comparators[0], ast.Name) and sub.comparators[0].id == S:
                                if [d for d in cfg.reaching(x, S)] == [dnode]:
                                    tests.append((x, sub))
                    if x.kind == 'stmt' and isinstance(x.ast, ast.Assign) and any(
                            isinstance(t, ast.Name) and t.id == S for t in x.ast.targets):
                        muts_s.append((x, x.ast))
                if not muts_c or not tests or muts_s:
                    continue
                # the test guards the mutation
                for (tn, t) in tests:
                    for (mn, m) in muts_c:
                        if tn.kind in ('if', 'while') and cfg.dominates(tn, mn) and tn is not mn:
                            out.append((f, n, t, m, stmt_text(C)))
                            break
                    else:
                        continue
                    break
    return out


def _inside(n, header):
    l = n.loop
    while l is not None:
        if l is header:
            return True
        l = l.loop
    return False


def _roots(n):
    a = n.ast
    if n.kind in ('if', 'while'):
        return [a.test]
    if n.kind == 'for':
        return [a.iter]
    if n.kind in ('entry', 'exit', 'raise', 'try', 'handler', 'case', 'match', 'with'):
        return []
    if isinstance(a, (ast.FunctionDef, ast.ClassDef)):
        return []
    return [a]


def run(ctx) -> list[Inst]:
    fp = Program(FIXTURE)
    fan = Analyzer(fp)
    ff = findings(fp, fan.resolver)
    got = sorted({f.short for f, *_ in ff})
    if got != ['extend_surface']:
        raise AnalysisError(f'R23 positive fixture not reproduced (got {got})')
    insts = []
    bad = findings(ctx.prog, ctx.R)
    seen = set()
    for (f, n, t, m, ctext) in bad:
        rel = f.module.relpath
        key = (f.short, stmt_text(n))
        if key in seen:
            continue
        seen.add(key)
        insts.append(Inst(
            RULE, f.short, f'index {stmt_text(n.targets[0])} of {ctext} kept in step', 'violation',
            msg=(f"'{stmt_text(n, 90)}' is built once from {ctext}; inside the loop '{stmt_text(t)}' decides whether "
                 f"'{stmt_text(m, 60)}' runs, but the index is never updated there: after the first change the "
                 f"test answers for the OLD content (the same element is added twice in one call)"),
            file=rel, line=n.lineno, props=props_for(f.short, rel)))
    # accounting: guarded appends on the container itself (the accepted idiom)
    for f in ctx.prog.all_funcs():
        rel = f.module.relpath
        for n in own_nodes(f.node):
            if isinstance(n, ast.If):
                t = n.test
                for sub in ast.walk(t):
                    if isinstance(sub, ast.Compare) and len(sub.ops) == 1 and isinstance(sub.ops[0], ast.NotIn) \
                            and isinstance(sub.comparators[0], ast.Name):
                        c = sub.comparators[0].id
                        if any(isinstance(x, ast.Call) and isinstance(x.func, ast.Attribute) and x.func.attr == 'append'
                               and isinstance(x.func.value, ast.Name) and x.func.value.id == c
                               for s in n.body for x in ast.walk(s)):
                            insts.append(Inst(RULE, f.short, f'guarded append on {c} itself', 'ok', file=rel,
                                              line=n.lineno, props=props_for(f.short, rel)))
    return insts
