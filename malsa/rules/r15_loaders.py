"""R15 LOADERS - legacy loaders treat every input element the way the native loader does.

EVERY   In each loader (Model._from_dict, the 0.0.39 loader, the securiCAD loader, neo4j.get_model)
        every iteration of a loop over input elements either transfers the element into the model
        (a *sink*: add_asset / add_association / add_attacker / add_entry_point / an entry-point
        append / setattr on the object being built) or leaves through return / raise.  An iteration
        path that comes back to the loop header without passing a sink silently drops the element
        (e.g. `if value:` around the defense setattr drops an explicit 0.0).
        Frozen exception: neo4j.get_model adds an association only when it does not exist yet in
        either direction (the query returns every linked pair twice).
ENTRY   Outside AttackerAttachment, entry points are added through add_entry_point, or appended
        as one tuple per key of a mapping keyed by asset id; a raw `.append((asset, [step]))` per
        input row breaks the one-tuple-per-asset invariant attacker_to_dict relies on.
"""
from __future__ import annotations

import ast

from ..core import own_nodes, stmt_text, AnalysisError
from ..report import Inst

RULE = 'R15'
LOADERS = [
    ('Model._from_dict', ('C07',)),
    ('load_model_from_version_0_0_39._process_model', ('C18',)),
    ('load_model_from_scad_archive', ('C18',)),
    ('get_model', ('C19', 'C18')),
]
SINK_CALLS = {'add_asset', 'add_association', 'add_attacker', 'add_entry_point', 'setattr', 'compromise'}
CONDITIONAL_SINK_OK = {
    ('get_model', 'add_association'):
        'the Cypher query returns each linked pair once per direction: the second occurrence is skipped',
}


HELPER_SINKS: dict = {}      # bare name of a package helper -> the sink it (transitively) performs


def _compute_helper_sinks(prog):
    """module-level / nested helpers of the loader modules that commit an element themselves (call add_asset,
    add_attacker ... directly or through another such helper)."""
    HELPER_SINKS.clear()
    cands = [g for g in prog.all_funcs() if not g.module.generated and g.cls is None]
    changed = True
    while changed:
        changed = False
        for g in cands:
            if g.name in HELPER_SINKS or g.name in SINK_CALLS:
                continue
            for n in own_nodes(g.node):
                k = _is_sink(n)
                if k and k not in ('setattr', 'extras'):
                    HELPER_SINKS[g.name] = k.split(':')[-1]
                    changed = True
                    break


def _is_sink(n) -> str:
    if isinstance(n, ast.Call):
        nm = n.func.attr if isinstance(n.func, ast.Attribute) else (n.func.id if isinstance(n.func, ast.Name) else '')
        if nm in SINK_CALLS:
            return nm
        if nm in HELPER_SINKS and isinstance(n.func, ast.Name):
            return HELPER_SINKS[nm]
        if nm == 'append' and isinstance(n.func, ast.Attribute) and isinstance(n.func.value, ast.Attribute) \
                and n.func.value.attr == 'entry_points':
            return 'entry_points.append'
    if isinstance(n, ast.Assign) and isinstance(n.targets[0], ast.Attribute) and n.targets[0].attr == 'extras':
        return 'extras'
    return ''


def _same_options(ctx) -> list[Inst]:
    """OPTIONS  the loaders hand elements to the model through the same API with the same behavioural options: an
    option of add_asset / add_association / add_attacker (anything but the element and its id) that one loader sets and
    the others leave at the default makes the same content load differently (duplicate names renamed by one loader,
    rejected by the other)."""
    prog = ctx.prog
    out = []
    ID_KW = {'asset_id', 'attacker_id', 'node_id'}
    per = {}
    for (fname, props) in LOADERS:
        if not prog.has_func(fname):
            continue
        f0 = prog.func(fname)
        group = [f0] + [g for g in prog.all_funcs() if g.short.startswith(f0.short + '.')]
        for g in group:
            for n in own_nodes(g.node):
                if isinstance(n, ast.Call) and isinstance(n.func, ast.Attribute) and n.func.attr in ('add_asset', 'add_association', 'add_attacker'):
                    opts = {k.arg: stmt_text(k.value, 40) for k in n.keywords if k.arg and k.arg not in ID_KW}
                    per.setdefault(n.func.attr, []).append((fname, props, n, opts))
    for api, sites in per.items():
        allopts = set()
        for (_f, _p, _n, o) in sites:
            allopts |= set(o)
        for opt in sorted(allopts):
            vals = {(fn, o.get(opt)) for (fn, _p, _n, o) in sites}
            distinct = {v for (_fn, v) in vals}
            construct = f"OPTIONS: every loader calls {api} with the same '{opt}'"
            if len(distinct) > 1:
                for (fn, pr, n, o) in sites:
                    if opt in o:
                        out.append(Inst(
                            RULE, fn, construct, 'violation',
                            msg=(f"'{stmt_text(n, 70)}' sets {opt}={o[opt]} while other loaders leave it at its default "
                                 f"({sorted(f_ for (f_, v) in vals if v is None)}): the same content is accepted / renamed by "
                                 f"one loader and rejected by another"),
                            file=prog.func(fn).module.relpath, line=n.lineno, props=tuple(dict.fromkeys(pr + ('C18',)))))
            else:
                out.append(Inst(RULE, sites[0][0], construct, 'ok', file=prog.func(sites[0][0]).module.relpath,
                                line=sites[0][2].lineno, props=('C18',)))
    return out


def run(ctx) -> list[Inst]:
    prog = ctx.prog
    insts = _same_options(ctx)
    _compute_helper_sinks(prog)
    scopes = []
    for (fname, props) in LOADERS:
        f0 = prog.func(fname)
        # the loader itself, the functions nested in it, and module-level helpers of its module it reaches
        group = [f0] + [g for g in prog.all_funcs() if g.short.startswith(f0.short + '.')]
        for g in ctx.an.reachable([f0]).values():
            if g.module is f0.module and g.cls is None and g not in group and g.name in HELPER_SINKS:
                group.append(g)
        scopes.append((fname, props, group))
    for (fname, props, group) in scopes:
      total_sink_loops = 0
      for f in group:
        cfg = ctx.cfg(f)
        rel = f.module.relpath
        loops = [n for n in cfg.nodes if n.kind == 'for']
        nsink_loops = 0
        for h in loops:
            body = [n for n in cfg.nodes if _inside(n, h)]
            # sinks directly in this loop (not in a nested loop)
            sinks = {}
            for n in body:
                if n.loop is not h:
                    continue
                roots = _roots(n)
                for r in roots:
                    for sub in ast.walk(r):
                        s = _is_sink(sub)
                        if s:
                            sinks.setdefault(n.idx, (n, s))
            # nested loops that themselves contain sinks count as a sink position
            for n in body:
                if n.kind == 'for' and n.loop is h:
                    inner = [x for x in cfg.nodes if _inside(x, n)]
                    if any(_is_sink(sub) for x in inner for r in _roots(x) for sub in ast.walk(r)):
                        sinks.setdefault(n.idx, (n, 'nested loop'))
            if not sinks:
                continue
            # when the loop commits elements through add_* / entry points, those are THE sinks
            strong = {k: v for k, v in sinks.items() if v[1] in ('add_asset', 'add_association', 'add_attacker',
                                                                 'add_entry_point', 'entry_points.append')}
            if strong:
                sinks = strong
            nsink_loops += 1
            construct = f'EVERY: each element of {stmt_text(h.ast.iter, 60)} reaches the model'
            # a path header -T-> ... -> header that avoids all sink nodes
            bad = _path_avoiding(cfg, h, set(sinks))
            if bad is None:
                insts.append(Inst(RULE, fname, construct, 'ok',
                                  msg='sinks: ' + ', '.join(sorted({s for _, s in sinks.values()})),
                                  file=rel, line=h.lineno, props=props))
                continue
            # documented conditional sinks
            kinds = {s for _, s in sinks.values()}
            gname = fname.split('.')[-1]
            exc = [k for k in kinds if (gname, k) in CONDITIONAL_SINK_OK]
            if exc and kinds <= set(exc) | {'entry_points.append', 'add_entry_point'}:
                # the exception covers exactly the already-exists guard in front of the sink: reaching that
                # guard counts as reaching the sink; any other way back to the loop header is a dropped element
                def _guard_text(g):
                    # the test itself, or the single definition of a flag it tests (`already = any(exists(..)..)`)
                    txt = stmt_text(g.ast.test, 400)
                    for nm in [x.id for x in ast.walk(g.ast.test) if isinstance(x, ast.Name)]:
                        ds = cfg.reaching(g, nm)
                        if len(ds) == 1 and ds[0].kind == 'stmt' and isinstance(ds[0].ast, ast.Assign):
                            txt += ' ' + stmt_text(ds[0].ast.value, 600)
                    return txt
                guards = {g.idx for g in body if g.kind == 'if' and g.loop is h
                          and 'association_exists_between_assets' in _guard_text(g)
                          and any(cfg.dominates(g, sn) for sn, k in sinks.values() if k == 'add_association')}
                bad2 = _path_avoiding(cfg, h, set(sinks) | guards) if guards else bad
                if bad2 is None:
                    insts.append(Inst(RULE, fname, construct + ' [documented exception]', 'info',
                                      msg=CONDITIONAL_SINK_OK[(gname, exc[0])], file=rel, line=h.lineno,
                                      props=props, nontrivial=False))
                    continue
                bad = bad2
            insts.append(Inst(
                RULE, fname, construct, 'violation',
                msg=(f"an iteration of 'for {stmt_text(h.ast.target)} in {stmt_text(h.ast.iter, 60)}' can return to "
                     f"the loop header through line {bad.lineno} ('{stmt_text(bad.ast, 60)}') without "
                     f"{'/'.join(sorted(kinds))}: that input element is silently dropped, unlike in the native loader"),
                file=rel, line=bad.lineno, props=props))
        total_sink_loops += nsink_loops
        if nsink_loops:
            insts += _order_and_break(ctx, f, fname, props)
        # ---------------------------------------------------------------- ENTRY
        for n in own_nodes(f.node):
            if isinstance(n, ast.Call) and _is_sink(n) == 'entry_points.append' \
                    and isinstance(n.func, ast.Attribute) and n.func.attr == 'append':
                node = cfg.owner(n)
                construct = f'ENTRY: {stmt_text(n, 70)}'
                keyed = False
                h = node.loop
                if h is not None:
                    it = h.ast.iter
                    # loop over the keys of a mapping: `for asset_id in X[...]['entry_points']`
                    # and the appended tuple is built from that key
                    names = []
                    cfg._targets(h.ast.target, names)
                    arg = n.args[0] if n.args else None
                    if isinstance(arg, ast.Tuple) and arg.elts and names:
                        first = stmt_text(arg.elts[0])
                        uses_key = any(nm in first for nm in names)
                        subscripted_by_key = any(
                            isinstance(s, ast.Subscript) and isinstance(s.slice, ast.Name) and s.slice.id in names
                            for s in ast.walk(arg))
                        keyed = uses_key and subscripted_by_key and 'entry_points' in stmt_text(it)
                        if not keyed and 'entry_points' in stmt_text(it):
                            # the same through named locals: the loop runs over the keys (or items) of the serialised
                            # entry_points mapping - distinct keys - and the asset of the tuple is computed from the key
                            over_items = isinstance(it, ast.Call) and isinstance(it.func, ast.Attribute) \
                                and it.func.attr in ('items', 'keys')
                            over_keys = isinstance(it, (ast.Subscript, ast.Name, ast.Attribute))
                            key = names[0]
                            derived = {key}
                            changed = True
                            while changed:
                                changed = False
                                for st in ast.walk(h.ast):
                                    if isinstance(st, ast.Assign) and any(
                                            isinstance(x, ast.Name) and x.id in derived for x in ast.walk(st.value)):
                                        for t in st.targets:
                                            for x in ast.walk(t):
                                                if isinstance(x, ast.Name) and x.id not in derived:
                                                    derived.add(x.id)
                                                    changed = True
                            first_names = {x.id for x in ast.walk(arg.elts[0]) if isinstance(x, ast.Name)}
                            if (over_items or over_keys) and first_names & derived:
                                keyed = True
                if keyed:
                    insts.append(Inst(RULE, fname, construct, 'ok', msg='one tuple per key of the entry_points mapping',
                                      file=rel, line=n.lineno, props=props))
                else:
                    insts.append(Inst(
                        RULE, fname, construct, 'violation',
                        msg=("a raw (asset, [step]) tuple is appended per input row: two entry points on the same "
                             "asset give two tuples for that asset, and Model.attacker_to_dict keeps only the "
                             "last one (use AttackerAttachment.add_entry_point)"),
                        file=rel, line=n.lineno, props=props))
            if isinstance(n, ast.Call) and _is_sink(n) == 'add_entry_point' \
                    and isinstance(n.func, ast.Attribute) and n.func.attr == 'add_entry_point':
                insts.append(Inst(RULE, fname, f'ENTRY: {stmt_text(n, 70)}', 'ok', file=rel, line=n.lineno,
                                  props=props))
      if total_sink_loops == 0:
        insts.append(Inst(RULE, fname, 'EVERY: element loops with model sinks', 'unproven',
                          msg='no element loop with a model sink recognised in the loader or its helpers',
                          file=group[0].module.relpath, line=group[0].node.lineno, props=props))
    insts += _every_special(ctx)
    # attach_attackers transfers the model's attackers and their entry points into the graph: same two rules
    if prog.has_func('AttackGraph.attach_attackers'):
        insts += _order_and_break(ctx, prog.func('AttackGraph.attach_attackers'), 'AttackGraph.attach_attackers',
                                  ('C11', 'C09'))
    return insts


def _inside(n, header) -> bool:
    l = n.loop
    while l is not None:
        if l is header:
            return True
        l = l.loop
    return False


def _roots(n):
    a = n.ast
    if n.kind in ('if', 'while'):
        return [a.test]
    if n.kind == 'for':
        return [a.iter]
    if n.kind == 'match':
        return [a.subject]
    if n.kind in ('case', 'try', 'handler', 'entry', 'exit', 'raise'):
        return []
    if n.kind == 'with':
        return [it.context_expr for it in a.items]
    if isinstance(a, (ast.FunctionDef, ast.ClassDef)):
        return []
    return [a]


def _every_special(ctx) -> list[Inst]:
    """EVERY for the two transfer loops inside the attack-graph layer:
       * attach_attackers: every model attacker gets its graph attacker (the loop over model.attackers reaches
         add_attacker on every iteration that does not raise) - "one graph attacker per model attacker";
       * _generate_graph, linking phase: every target node the evaluator returns becomes a child (the innermost loop
         around `.children.append(...)` reaches it on every iteration that does not raise) - no edge is filtered out
         after evaluation."""
    prog = ctx.prog
    insts = []
    specs = [('AttackGraph.attach_attackers', 'add_attacker', ('C11', 'C09'),
              'one graph attacker per model attacker',
              "a model attacker for which this path is taken gets no graph attacker at all"),
             ('AttackGraph._generate_graph', 'children.append', ('C01', 'C09'),
              'every evaluated target becomes a child',
              "an edge the step expression yields is dropped after evaluation (e.g. a step reaching itself)")]
    for fname, sink, props, what, why in specs:
        if not prog.has_func(fname):
            continue
        f = prog.func(fname)
        cfg = ctx.cfg(f)
        rel = f.module.relpath
        sink_nodes = []
        for n in cfg.nodes:
            for r in _roots(n):
                for c in ast.walk(r):
                    if isinstance(c, ast.Call) and isinstance(c.func, ast.Attribute):
                        if sink == 'add_attacker' and c.func.attr == 'add_attacker':
                            sink_nodes.append(n)
                        if sink == 'children.append' and c.func.attr == 'append' and isinstance(c.func.value, ast.Attribute) \
                                and c.func.value.attr == 'children':
                            sink_nodes.append(n)
        construct = f'EVERY: {fname.split(".")[-1]}: {what}'
        if not sink_nodes:
            insts.append(Inst(RULE, fname, construct, 'unproven', msg=f'no {sink} call found (moved into a helper?)',
                              file=rel, line=f.node.lineno, props=props))
            continue
        for sn in sink_nodes:
            # the loop whose iterations must each reach the sink: outermost loop for add_attacker, innermost for links
            h = sn.loop
            if h is None:
                continue
            if sink == 'add_attacker':
                while h.loop is not None:
                    h = h.loop
            bad = _path_avoiding(cfg, h, {x.idx for x in sink_nodes})
            if bad is None:
                insts.append(Inst(RULE, fname, construct, 'ok', file=rel, line=h.lineno, props=props))
            else:
                insts.append(Inst(
                    RULE, fname, construct, 'violation',
                    msg=(f"an iteration of 'for {stmt_text(h.ast.target)} in {stmt_text(h.ast.iter, 50)}' can come back to "
                         f"the loop header through line {bad.lineno} ('{stmt_text(bad.ast, 50)}') without {sink}: {why}"),
                    file=rel, line=bad.lineno, props=props))
            break
    return insts


def _order_and_break(ctx, f, fname, props) -> list[Inst]:
    """ORDER   elements are transferred in the order the input lists them (the native loader does): the iterable of
               an element loop is not re-ordered (sorted / reversed / set): Model.add_asset renames duplicate names
               in arrival order, ids are handed out in arrival order.
       NOBREAK an element loop is never left by `break`: the remaining elements would be dropped."""
    cfg = ctx.cfg(f)
    rel = f.module.relpath
    insts = []
    for h in [n for n in cfg.nodes if n.kind == 'for']:
        body = [n for n in cfg.nodes if _inside(n, h)]
        has_sink = any(_is_sink(sub) for x in body for r in _roots(x) for sub in ast.walk(r))
        if not has_sink:
            continue
        it = h.ast.iter
        construct = f'ORDER: {stmt_text(it, 50)} is walked in input order'
        reorder = None
        for c in ast.walk(it):
            if isinstance(c, ast.Call) and isinstance(c.func, ast.Name) and c.func.id in ('sorted', 'reversed', 'set', 'frozenset'):
                reorder = c
        if reorder is not None:
            insts.append(Inst(
                RULE, fname, construct, 'violation',
                msg=(f"'{stmt_text(it, 80)}' re-orders the input before it is transferred: the native loader adds "
                     f"elements in file order, and the order decides which of two equally named assets is renamed "
                     f"(and which ids the counter hands out), so the loaded model differs from the native one"),
                file=rel, line=h.lineno, props=props))
        else:
            insts.append(Inst(RULE, fname, construct, 'ok', file=rel, line=h.lineno, props=props, nontrivial=False))
        for n in body:
            if n.kind == 'stmt' and isinstance(n.ast, ast.Break) and n.loop is h:
                insts.append(Inst(
                    RULE, fname, f'NOBREAK: element loop over {stmt_text(it, 40)} runs to the end', 'violation',
                    msg=(f"'break' at line {n.lineno} leaves the loop over {stmt_text(it, 60)}: the elements after the "
                         f"current one are never transferred"),
                    file=rel, line=n.lineno, props=props))
    return insts


def _path_avoiding(cfg, h, sink_idx):
    """a CFG node on a path header -T-> ... -> header that avoids the sink nodes (None if none).  Boolean flags
    (`ok = False` ... `if not ok: return`) are followed along the path: a branch that contradicts the constant last
    assigned to the tested name is not taken."""
    seen = set()
    st = [(t, None, ()) for t, l in h.succ if l == 'T']
    while st:
        x, prev, flags = st.pop()
        if x is h:
            return prev or h
        if (x.idx, flags) in seen or x.idx in sink_idx or not _inside(x, h):
            continue
        seen.add((x.idx, flags))
        fl = dict(flags)
        if x.kind == 'stmt' and isinstance(x.ast, ast.Assign) and len(x.ast.targets) == 1 \
                and isinstance(x.ast.targets[0], ast.Name):
            nm = x.ast.targets[0].id
            if isinstance(x.ast.value, ast.Constant) and isinstance(x.ast.value.value, (bool, type(None))):
                fl[nm] = bool(x.ast.value.value)
            else:
                fl.pop(nm, None)
        elif x.kind in ('stmt', 'for', 'with'):
            for nm in cfg.defs_of(x):
                fl.pop(nm, None)
        forced = None
        if x.kind == 'if':
            t_ = x.ast.test
            neg = False
            if isinstance(t_, ast.UnaryOp) and isinstance(t_.op, ast.Not):
                neg, t_ = True, t_.operand
            if isinstance(t_, ast.Name) and t_.id in fl:
                forced = 'T' if (fl[t_.id] != neg) else 'F'
        presence = x.kind == 'if' and _is_presence_test(x.ast.test)
        nflags = tuple(sorted(fl.items()))
        for t, lab in x.succ:
            if t is cfg.raise_exit or t is cfg.exit:
                continue
            if presence and lab == 'F':
                continue        # the element does not carry the value: nothing to transfer
            if forced is not None and lab in ('T', 'F') and lab != forced:
                continue
            st.append((t, x, nflags))
    return None


def _is_presence_test(t) -> bool:
    if isinstance(t, ast.Compare) and len(t.ops) == 1 and isinstance(t.ops[0], ast.In) \
            and isinstance(t.left, ast.Constant) and isinstance(t.left.value, str):
        return True
    if isinstance(t, ast.Call) and isinstance(t.func, ast.Name) and t.func.id == 'hasattr':
        return True
    return False
