"""R1 ITER - no structural removal from a container while a ``for`` walks it.

For every ``for v in E`` of every hand-written function: no statement of the body, directly or
through a resolved callee (effect summaries, actuals substituted), removes / pops / clears /
inserts / sorts / reverses the container that E denotes (must-alias by value identity after copy
propagation), unless every CFG path from that statement leaves the loop before the next
iteration.  dict / set containers: additions count as well.  Appends to lists are the worklist
idiom and are not flagged.  Snapshot wrappers (list(x), x[:], x.copy(), tuple(x), sorted(x),
copy.copy(x), set(x)) make a loop safe.
"""
from __future__ import annotations

import ast

from ..core import own_nodes, stmt_text, const_str
from ..effects import ADDERS, REMOVERS, REORDER, ELEM
from ..report import Inst
from ..props import props_for

RULE = 'R1'
SNAPSHOTS = {'list', 'tuple', 'sorted', 'set', 'frozenset', 'dict'}
LIVE_WRAPPERS = {'enumerate', 'reversed', 'iter', 'zip', 'filter'}
LIST_BAD = {'remove', 'pop', 'clear', 'insert', 'sort', 'reverse', 'popleft', 'del'}


def _containers(expr):
    """expressions whose *live* container the loop walks; [] if the iterable is a snapshot."""
    if isinstance(expr, ast.Call):
        fn = expr.func
        if isinstance(fn, ast.Name):
            if fn.id in SNAPSHOTS:
                return []
            if fn.id in LIVE_WRAPPERS:
                out = []
                args = expr.args[1:] if fn.id == 'filter' else expr.args
                for a in args:
                    out += _containers(a)
                return out
            return []           # a call result: fresh unless proven otherwise (not flagged)
        if isinstance(fn, ast.Attribute):
            if fn.attr in ('keys', 'values', 'items') and not expr.args:
                return _containers(fn.value)
            if fn.attr == 'copy' and not expr.args:
                return []
            if isinstance(fn.value, ast.Name) and fn.value.id == 'copy':
                return []
            return []
        return []
    if isinstance(expr, ast.Subscript) and isinstance(expr.slice, ast.Slice):
        return []
    if isinstance(expr, (ast.Name, ast.Attribute, ast.Subscript)):
        return [expr]
    if isinstance(expr, ast.IfExp):
        return _containers(expr.body) + _containers(expr.orelse)
    if isinstance(expr, ast.BoolOp):
        out = []
        for v in expr.values:
            out += _containers(v)
        return out
    return []       # literals, comprehensions, generator expressions: fresh


def _loop_nodes(cfg, header):
    """CFG nodes inside the loop body of `header` (any nesting depth)."""
    out = []
    for n in cfg.nodes:
        l = n.loop
        while l is not None:
            if l is header:
                out.append(n)
                break
            l = l.loop
    return out


def _continues(cfg, header, node, body_idx) -> bool:
    """can control flow from `node` reach the loop header again without leaving the loop?"""
    seen = set()
    st = [t for t, _ in node.succ]
    while st:
        x = st.pop()
        if x is header:
            return True
        if x.idx in seen or x.idx not in body_idx:
            continue
        seen.add(x.idx)
        st.extend(t for t, _ in x.succ)
    return False


def run(ctx) -> list[Inst]:
    prog, an = ctx.prog, ctx.an
    insts: list[Inst] = []
    for f in prog.all_funcs():
        cfg = ctx.cfg(f)
        R = ctx.R(f)
        env = prog.env(f)
        facts = an.of(f)
        loops = [n for n in cfg.nodes if n.kind == 'for']
        for h in loops:
            loop = h.ast
            conts = _containers(loop.iter)
            cvids = []
            for c in conts:
                v = R.value_id(c, h)
                ctype = env.type_of(c)
                cvids.append((c, v, ctype, R.paths(c, h)))
            body = _loop_nodes(cfg, h)
            body_idx = {n.idx for n in body}
            body_ast = {id(n.ast) for n in body}
            # collect mutations performed inside the body
            muts = []   # (vid or None, paths, opname, kind, cfgnode, text, via)
            for n in body:
                roots = []
                a = n.ast
                if n.kind in ('if', 'while'):
                    roots = [a.test]
                elif n.kind == 'for':
                    roots = [a.iter]
                elif n.kind == 'match':
                    roots = [a.subject]
                elif n.kind == 'case':
                    roots = [a.guard] if a.guard is not None else []
                elif n.kind == 'with':
                    roots = [it.context_expr for it in a.items]
                elif n.kind in ('try', 'handler'):
                    roots = []
                elif isinstance(a, (ast.FunctionDef, ast.AsyncFunctionDef, ast.ClassDef)):
                    roots = []
                else:
                    roots = [a]
                for r in roots:
                    for sub in ast.walk(r):
                        if isinstance(sub, ast.Delete):
                            for t in sub.targets:
                                if isinstance(t, ast.Subscript):
                                    muts.append((R.value_id(t.value, n), R.paths(t.value, n), 'del',
                                                 'item-del', n, stmt_text(sub), ''))
                        elif isinstance(sub, ast.Call):
                            res = env.resolve_call(sub)
                            if res[0] == 'method':
                                _, recv, name, _t = res
                                if name in ADDERS or name in REMOVERS or name in REORDER:
                                    kind = 'add' if name in ADDERS and name != 'insert' else (
                                        'reorder' if name in REORDER or name == 'insert' else 'remove')
                                    muts.append((R.value_id(recv, n), R.paths(recv, n), name, kind, n,
                                                 stmt_text(sub), ''))
                            elif res[0] in ('func', 'ctor'):
                                callee = res[1] if res[0] == 'func' else res[2]
                                if callee is None:
                                    continue
                                recv = None
                                if isinstance(sub.func, ast.Attribute) and res[0] == 'func':
                                    recv = sub.func.value
                                    if env.type_of(recv)[0] == 'clsobj':
                                        recv = None
                                amap = an.arg_map(sub, callee, recv, self_fresh=(res[0] == 'ctor'))
                                for e in an.of(callee).effects:
                                    if e.kind == 'rebind' or not e.path.is_param or e.path.truncated:
                                        continue
                                    actual = amap.get(e.path.root[1])
                                    if actual is None or actual == 'FRESH':
                                        continue
                                    if ELEM in e.path.steps or any(s.startswith('[') for s in e.path.steps):
                                        base_vid = None
                                    else:
                                        base_vid = R.value_id(actual, n)
                                    vid = None
                                    if base_vid is not None:
                                        vid = base_vid + tuple(
                                            '.' + s if not s.startswith('<') else s for s in e.path.steps)
                                    paths = [b.extend(e.path.steps) for b in R.paths(actual, n)]
                                    via = callee.short if e.func == callee.short else f'{callee.short} -> {e.func}'
                                    muts.append((vid, paths, e.op or e.kind, e.kind, n,
                                                 stmt_text(sub) + f'  [{e.func}:{e.text}]', via))
            flagged = False
            any_mut_on_container = False
            for (c, cvid, ctype, cpaths) in cvids:
                is_hash = ctype[0] in ('dict', 'set')
                for (vid, paths, op, kind, n, text, via) in muts:
                    bad = kind in ('remove', 'reorder', 'item-del') or (is_hash and kind == 'add')
                    if not bad:
                        continue
                    same = cvid is not None and vid is not None and cvid == vid
                    may = any(p.key() == q.key() for p in paths for q in cpaths
                              if p.root[0] not in ('unk',))
                    if not same and not may:
                        continue
                    any_mut_on_container = True
                    cont = _continues(cfg, h, n, body_idx)
                    construct = f'for {stmt_text(loop.target)} in {stmt_text(loop.iter)}: {op} on {stmt_text(c)}'
                    if via:
                        construct += f' via {via}'
                    if same and cont:
                        flagged = True
                        insts.append(Inst(
                            RULE, f.short, construct, 'violation',
                            msg=(f"loop over '{stmt_text(loop.iter)}' continues after its body "
                                 f"performs {op} on the same container: {text}"),
                            file=f.module.relpath, line=n.lineno,
                            props=props_for(f.short, f.module.relpath)))
                    elif same and not cont:
                        insts.append(Inst(
                            RULE, f.short, construct, 'ok',
                            msg='mutation is followed by loop exit on every path',
                            file=f.module.relpath, line=n.lineno,
                            props=props_for(f.short, f.module.relpath)))
                    elif cont:
                        insts.append(Inst(
                            RULE, f.short, construct, 'unproven',
                            msg=f'may-alias only (not a verdict): {text}',
                            file=f.module.relpath, line=n.lineno,
                            props=props_for(f.short, f.module.relpath)))
            if not flagged:
                # one instance per loop: discharged
                nontrivial = bool(muts) and bool(cvids) or (not conts and bool(muts))
                insts.append(Inst(
                    RULE, f.short,
                    f'for {stmt_text(loop.target)} in {stmt_text(loop.iter)}', 'ok',
                    msg=('iterable is a snapshot/fresh value' if not conts else
                         f'{len(muts)} in-loop mutation(s), none on the walked container'),
                    file=f.module.relpath, line=loop.lineno,
                    nontrivial=nontrivial,
                    props=props_for(f.short, f.module.relpath)))
    # one instance per (key, verdict)
    seen = set()
    out = []
    for i in insts:
        k = (i.key, i.verdict)
        if k in seen:
            continue
        seen.add(k)
        out.append(i)
    return out
