"""R13 GRAMMAR - the visitor consumes everything the grammar can produce.

mal.g4 is parsed by a small recursive-descent reader (rules, alternatives, groups, ? * +).  Per
parser rule: every child reference with its maximal multiplicity.  Per visitX method: how each
``ctx.child()`` is consumed.
 (a) every parser rule has a visitX method or is in the frozen inline list
     (declaration, mult, multatom: consumed directly by their parent's visitor);
 (b) a child the grammar can repeat without bound is consumed in full (iteration / index by a loop
     variable); constant indexing is accepted only up to the grammar's static maximum;
 (c) in operator chains ``operand ((OP1 | OP2) operand)*`` the operator of each step is read from
     the parse-tree child between the operands (``ctx.children[2*i-1]`` or an indexed operator
     rule), never from the mere presence of one operator token in the whole chain;
 (d) every rule reference and every content token (ID, STRING, flag tokens) of the grammar rule is
     consumed by the visitor method.
"""
from __future__ import annotations

import ast
import os
import re

from ..core import own_nodes, stmt_text, AnalysisError
from ..report import Inst

RULE = 'R13'
PROPS = ('C04',)
INLINE = {'declaration': 'thin alternative rule: visitMal visits its single child',
          'mult': 'read by visitAssociation', 'multatom': 'read by visitAssociation'}
FLAG_TOKENS = {'asset': ['ABSTRACT'], 'reaches': ['INHERITS'], 'part': ['STAR', 'LPAREN']}
INF = 10 ** 6


def parse_g4(text):
    text = re.sub(r'//[^\n]*', '', text)
    text = re.sub(r'/\*.*?\*/', '', text, flags=re.S)
    # tokenise
    toks = re.findall(r"'(?:\\.|[^'])*'|[A-Za-z_][A-Za-z_0-9]*|->|[:;|()?*+~.\[\]]|\S", text)
    rules = {}
    i = 0
    if toks and toks[0] == 'grammar':
        while toks[i] != ';':
            i += 1
        i += 1
    while i < len(toks):
        name = toks[i]
        if i + 1 < len(toks) and toks[i + 1] == ':':
            j = i + 2
            body = []
            while j < len(toks) and toks[j] != ';':
                body.append(toks[j])
                j += 1
            rules[name] = body
            i = j + 1
        else:
            i += 1
    return rules


class _P:
    def __init__(self, toks):
        self.t = toks
        self.i = 0

    def peek(self):
        return self.t[self.i] if self.i < len(self.t) else None

    def alts(self):
        seqs = [self.seq()]
        while self.peek() == '|':
            self.i += 1
            seqs.append(self.seq())
        return ('alt', seqs)

    def seq(self):
        els = []
        while self.peek() is not None and self.peek() not in ('|', ')'):
            els.append(self.elem())
        return ('seq', els)

    def elem(self):
        t = self.peek()
        if t == '(':
            self.i += 1
            node = self.alts()
            if self.peek() == ')':
                self.i += 1
        else:
            self.i += 1
            node = ('sym', t)
        while self.peek() in ('?', '*', '+'):
            node = ('rep', self.peek(), node)
            self.i += 1
        return node


def max_counts(node, acc=None):
    """symbol -> maximal number of occurrences in one match of the node."""
    k = node[0]
    if k == 'sym':
        return {node[1]: 1}
    if k == 'seq':
        out = {}
        for e in node[1]:
            for s, c in max_counts(e).items():
                out[s] = min(INF, out.get(s, 0) + c)
        return out
    if k == 'alt':
        out = {}
        for e in node[1]:
            for s, c in max_counts(e).items():
                out[s] = max(out.get(s, 0), c)
        return out
    if k == 'rep':
        inner = max_counts(node[2])
        if node[1] == '?':
            return inner
        return {s: INF for s in inner}
    return {}


def operator_chains(tree):
    """find `X ((A|B|..) X)*` / `X (op X)*` shapes: -> (operand symbol, [operator symbols])"""
    out = []

    def visit(n):
        if n[0] == 'seq':
            els = n[1]
            for a, b in zip(els, els[1:]):
                if a[0] == 'sym' and b[0] == 'rep' and b[1] == '*' and b[2][0] == 'alt' \
                        and len(b[2][1]) == 1:
                    inner = b[2][1][0][1]       # seq elements
                    if len(inner) == 2 and inner[1] == a:
                        op = inner[0]
                        if op[0] == 'sym':
                            out.append((a[1], [op[1]]))
                        elif op[0] == 'alt':
                            syms = [s[1][0][1] for s in op[1] if s[0] == 'seq' and len(s[1]) == 1
                                    and s[1][0][0] == 'sym']
                            out.append((a[1], syms))
            for e in els:
                visit(e)
        elif n[0] == 'alt':
            for e in n[1]:
                visit(e)
        elif n[0] == 'rep':
            visit(n[2])
    visit(tree)
    return out


def _accessor_uses(f):
    """ctx.<name>() call sites of a visitor method with the way the result is consumed."""
    ctxn = f.params[1] if len(f.params) > 1 else 'ctx'
    pm = {}
    for n in ast.walk(f.node):
        for ch in ast.iter_child_nodes(n):
            pm[id(ch)] = n
    aliases = {}     # local name -> accessor name (x := ctx.child() / x = ctx.child())
    uses = {}        # accessor -> set of consumption kinds: 'iter', 'idx:<n>', 'idxvar', 'single', 'truth', 'len'

    def add(acc, kind):
        uses.setdefault(acc, set()).add(kind)

    def classify(expr, acc):
        par = pm.get(id(expr))
        if isinstance(par, ast.Subscript) and par.value is expr:
            if isinstance(par.slice, ast.Constant) and isinstance(par.slice.value, int):
                add(acc, f'idx:{par.slice.value}')
            else:
                add(acc, 'idxvar')
            return
        if isinstance(par, (ast.For, ast.comprehension)) and par.iter is expr:
            add(acc, 'iter')
            return
        if isinstance(par, ast.Call) and isinstance(par.func, ast.Name) and par.func.id == 'len':
            add(acc, 'len')
            return
        if isinstance(par, ast.Call) and isinstance(par.func, ast.Name) and par.func.id in ('list', 'enumerate', 'zip', 'iter'):
            add(acc, 'iter')
            return
        if isinstance(par, ast.Attribute) and par.value is expr:
            if par.attr in ('pop',):
                add(acc, 'idxvar')      # list consumed element-wise by pops
            else:
                add(acc, 'single')
            return
        if isinstance(par, (ast.If, ast.IfExp, ast.While)) and getattr(par, 'test', None) is expr:
            add(acc, 'truth')
            return
        if isinstance(par, ast.UnaryOp) and isinstance(par.op, ast.Not):
            add(acc, 'truth')
            return
        if isinstance(par, ast.BoolOp):
            add(acc, 'truth')
            return
        if isinstance(par, ast.Compare):
            add(acc, 'truth')
            return
        if isinstance(par, ast.NamedExpr) and par.value is expr:
            aliases[par.target.id] = acc
            classify(par, acc)
            return
        if isinstance(par, ast.Assign) and par.value is expr and isinstance(par.targets[0], ast.Name):
            aliases[par.targets[0].id] = acc
            return
        if isinstance(par, ast.Assign) and par.value is expr and isinstance(par.targets[0], (ast.Tuple, ast.List)) \
                and any(isinstance(t_, ast.Starred) for t_ in par.targets[0].elts):
            add(acc, 'iter')        # `first, *others = ctx.x()`: every element is taken
            return
        if isinstance(par, ast.Call) and expr in par.args:
            fn_ = par.func.attr if isinstance(par.func, ast.Attribute) else (par.func.id if isinstance(par.func, ast.Name) else '')
            if fn_ in ('visit', 'visitChildren') or fn_.startswith('visit'):
                add(acc, 'single')      # passed on (self.visit(ctx.x()))
            else:
                add(acc, 'iter')        # the whole list of children handed to a helper: nothing is cut off here
            return
        add(acc, 'single')

    for n in own_nodes(f.node):
        if isinstance(n, ast.Call) and isinstance(n.func, ast.Attribute) and isinstance(n.func.value, ast.Name) \
                and n.func.value.id == ctxn and n.func.attr not in ('getText', 'getChild', 'getChildCount'):
            acc = n.func.attr
            if n.args and isinstance(n.args[0], ast.Constant) and isinstance(n.args[0].value, int):
                add(acc, f'idx:{n.args[0].value}')
            elif n.args:
                add(acc, 'idxvar')
            else:
                classify(n, acc)
        # bare attribute use without call: ctx.INTERSECT (method object)
        if isinstance(n, ast.Attribute) and isinstance(n.value, ast.Name) and n.value.id == ctxn \
                and n.attr.isupper():
            par = pm.get(id(n))
            if not (isinstance(par, ast.Call) and par.func is n):
                add(n.attr, 'methodobj')
    # alias uses
    for n in own_nodes(f.node):
        if isinstance(n, ast.Name) and isinstance(n.ctx, ast.Load) and n.id in aliases:
            classify(n, aliases[n.id])
    # a walk over ALL children that sorts them by context class consumes each of those rules in full:
    # `for child in ctx.getChildren(): if isinstance(child, malParser.StepContext): ...`
    walks_children = any(
        isinstance(n, (ast.For, ast.comprehension)) and (
            (isinstance(n.iter, ast.Call) and isinstance(n.iter.func, ast.Attribute) and n.iter.func.attr == 'getChildren'
             and isinstance(n.iter.func.value, ast.Name) and n.iter.func.value.id == ctxn) or
            (isinstance(n.iter, ast.Attribute) and n.iter.attr == 'children' and isinstance(n.iter.value, ast.Name)
             and n.iter.value.id == ctxn))
        for n in ast.walk(f.node))
    if walks_children:
        for n in own_nodes(f.node):
            if isinstance(n, ast.Call) and isinstance(n.func, ast.Name) and n.func.id == 'isinstance' and len(n.args) == 2:
                t = n.args[1]
                for e in (t.elts if isinstance(t, ast.Tuple) else [t]):
                    nm = e.attr if isinstance(e, ast.Attribute) else (e.id if isinstance(e, ast.Name) else '')
                    if nm.endswith('Context') and len(nm) > 7:
                        rule = nm[:-7]
                        add(rule[0].lower() + rule[1:], 'iter')
    # children[...] access
    children_idx = set()
    for n in own_nodes(f.node):
        if isinstance(n, ast.Subscript) and isinstance(n.value, ast.Attribute) and n.value.attr == 'children' \
                and isinstance(n.value.value, ast.Name) and n.value.value.id == ctxn:
            if isinstance(n.slice, ast.Constant):
                children_idx.add(f'const:{n.slice.value}')
            else:
                children_idx.add('var')
    # ctx handed to a helper of the visitor (`for section, content in self._fragments(ctx)`): what the helper does
    # with its context parameter counts as this method's consumption of the children
    if f.cls is not None and not getattr(f, '_malsa_in_helper', False):
        for n in own_nodes(f.node):
            if isinstance(n, ast.Call) and isinstance(n.func, ast.Attribute) and n.func.attr in f.cls.methods \
                    and n.func.attr != f.name and not n.func.attr.startswith('visit') \
                    and n.args and isinstance(n.args[0], ast.Name) and n.args[0].id == ctxn:
                h = f.cls.methods[n.func.attr]
                if len(h.params) > 1:
                    try:
                        h._malsa_in_helper = True
                        hu, hc = _accessor_uses(h)
                    finally:
                        h._malsa_in_helper = False
                    for k_, v_ in hu.items():
                        uses.setdefault(k_, set()).update(v_)
    # ctx handed to a helper of the visitor that reads <param>.children[<expr>] (`self._operator_nodes(ctx, n)`)
    if f.cls is not None:
        for n in own_nodes(f.node):
            if isinstance(n, ast.Call) and isinstance(n.func, ast.Attribute) and n.func.attr in f.cls.methods \
                    and any(isinstance(a, ast.Name) and a.id == ctxn for a in n.args):
                h = f.cls.methods[n.func.attr]
                hp = [a.arg for a in h.node.args.posonlyargs + h.node.args.args]
                for x in ast.walk(h.node):
                    if isinstance(x, ast.Subscript) and isinstance(x.value, ast.Attribute) and x.value.attr == 'children' \
                            and isinstance(x.value.value, ast.Name) and x.value.value.id in hp:
                        children_idx.add('var' if not isinstance(x.slice, ast.Constant) else f'const:{x.slice.value}')
    return uses, children_idx


def _affine(e, var):
    """e == a*var + b with integer constants -> (a, b), else None"""
    if isinstance(e, ast.Name) and e.id == var:
        return (1, 0)
    if isinstance(e, ast.Constant) and isinstance(e.value, int) and not isinstance(e.value, bool):
        return (0, e.value)
    if isinstance(e, ast.UnaryOp) and isinstance(e.op, ast.USub):
        r = _affine(e.operand, var)
        return None if r is None else (-r[0], -r[1])
    if isinstance(e, ast.BinOp):
        l, r = _affine(e.left, var), _affine(e.right, var)
        if l is None or r is None:
            return None
        if isinstance(e.op, ast.Add):
            return (l[0] + r[0], l[1] + r[1])
        if isinstance(e.op, ast.Sub):
            return (l[0] - r[0], l[1] - r[1])
        if isinstance(e.op, ast.Mult):
            if l[0] == 0:
                return (l[1] * r[0], l[1] * r[1])
            if r[0] == 0:
                return (l[0] * r[1], l[1] * r[1])
    return None


def _chain_alignment(f, rname, operand, ops, rel) -> list[Inst]:
    """in a loop over the operands of `X (op X)*`, with k the position of the right operand (k >= 1): an operator taken
    from the list of operator children has index k-1, one taken from ctx.children has index 2k-1.  Read off the loop:
    `for i in range(1, n)` with X[i]; `for i, x in enumerate(X[s:], t)` (k = i - t + s); affine index expressions."""
    ctxn = f.params[1] if len(f.params) > 1 else 'ctx'
    out = []
    alias = {}
    for n in own_nodes(f.node):
        tg = val = None
        if isinstance(n, ast.Assign) and len(n.targets) == 1 and isinstance(n.targets[0], ast.Name):
            tg, val = n.targets[0].id, n.value
        elif isinstance(n, ast.NamedExpr):
            tg, val = n.target.id, n.value
        if tg and isinstance(val, ast.Call) and isinstance(val.func, ast.Attribute) and isinstance(val.func.value, ast.Name) \
                and val.func.value.id == ctxn and not val.args:
            alias[tg] = val.func.attr.rstrip('_')

    def accessor(e):
        if isinstance(e, ast.Name) and e.id in alias:
            return alias[e.id]
        if isinstance(e, ast.Call) and isinstance(e.func, ast.Attribute) and isinstance(e.func.value, ast.Name) \
                and e.func.value.id == ctxn and not e.args:
            return e.func.attr.rstrip('_')
        if isinstance(e, ast.Attribute) and isinstance(e.value, ast.Name) and e.value.id == ctxn and e.attr == 'children':
            return 'children'
        return None
    opset = set(ops)
    for lp in own_nodes(f.node):
        if not (isinstance(lp, ast.For)):
            continue
        var, k_of = None, None      # loop variable and k = ka*var + kb
        it = lp.iter
        if isinstance(lp.target, ast.Name) and isinstance(it, ast.Call) and isinstance(it.func, ast.Name) and it.func.id == 'range':
            var = lp.target.id
            # k is given by the operand subscript X[<affine>]
            for n in ast.walk(lp):
                if isinstance(n, ast.Subscript) and accessor(n.value) == operand and not isinstance(n.slice, ast.Slice):
                    k_of = _affine(n.slice, var)
        elif isinstance(lp.target, ast.Tuple) and len(lp.target.elts) == 2 and isinstance(lp.target.elts[0], ast.Name) \
                and isinstance(it, ast.Call) and isinstance(it.func, ast.Name) and it.func.id == 'enumerate' and it.args:
            var = lp.target.elts[0].id
            src = it.args[0]
            start = 0
            if len(it.args) > 1 and isinstance(it.args[1], ast.Constant):
                start = it.args[1].value
            for kw in it.keywords:
                if kw.arg == 'start' and isinstance(kw.value, ast.Constant):
                    start = kw.value.value
            lo = 0
            if isinstance(src, ast.Subscript) and isinstance(src.slice, ast.Slice) and src.slice.upper is None \
                    and src.slice.step is None:
                if isinstance(src.slice.lower, ast.Constant) and isinstance(src.slice.lower.value, int):
                    lo = src.slice.lower.value
                elif src.slice.lower is not None:
                    continue
                src = src.value
            if accessor(src) == operand and isinstance(start, int):
                k_of = (1, lo - start)
        if var is None or k_of is None or k_of[0] != 1:
            continue
        for n in ast.walk(lp):
            if not (isinstance(n, ast.Subscript) and not isinstance(n.slice, ast.Slice)):
                continue
            acc = accessor(n.value)
            if acc is None or not (acc in opset or acc == 'children'):
                continue
            idx = _affine(n.slice, var)
            if idx is None:
                continue
            want = (2, 2 * k_of[1] - 1) if acc == 'children' else (1, k_of[1] - 1)
            construct = f"(c') {rname}: the operator read for a step is the one standing before that step's operand"
            if idx == want:
                out.append(Inst(RULE, f.short, construct, 'ok', msg=stmt_text(n, 40), file=rel, line=n.lineno, props=PROPS))
            else:
                def fmt(ab):
                    a, b = ab
                    return (f'{a}*' if a != 1 else '') + var + (f'{b:+d}' if b else '')
                out.append(Inst(
                    RULE, f.short, construct, 'violation',
                    msg=(f"in this loop the right operand is {operand} number {fmt(k_of)}; its operator is "
                         f"{'child' if acc == 'children' else acc} number {fmt(want)}, but '{stmt_text(n, 40)}' reads number "
                         f"{fmt(idx)}: every step gets the operator of a neighbouring position (the first one wraps around to "
                         f"the last), so `a op1 b op2 c` is compiled with op1 and op2 exchanged"),
                    file=rel, line=n.lineno, props=PROPS))
    return out


def _alternation(rname, tree, f, vname, rel) -> list[Inst]:
    """(g) a rule that is a pure alternation of tokens (setop: UNION | INTERSECT | MINUS): the visitor, run once per
    alternative (that token's accessor truthy, the others falsy; a bare `ctx.TOKEN` method object is always
    truthy), yields a distinct non-None constant for every alternative."""
    if tree[0] != 'alt' or len(tree[1]) < 2:
        return []
    toks = []
    for sq in tree[1]:
        if sq[0] == 'seq' and len(sq[1]) == 1 and sq[1][0][0] == 'sym' and sq[1][0][1][0].isupper():
            toks.append(sq[1][0][1])
        else:
            return []
    ctxn = f.params[1] if len(f.params) > 1 else 'ctx'

    class Unknown(Exception):
        pass

    def truth(t, A):
        if isinstance(t, ast.Call) and isinstance(t.func, ast.Attribute) and isinstance(t.func.value, ast.Name) \
                and t.func.value.id == ctxn and not t.args:
            return t.func.attr == A
        if isinstance(t, ast.Attribute) and isinstance(t.value, ast.Name) and t.value.id == ctxn:
            return True        # a bound method object
        if isinstance(t, ast.UnaryOp) and isinstance(t.op, ast.Not):
            return not truth(t.operand, A)
        if isinstance(t, ast.BoolOp):
            vals = [truth(v, A) for v in t.values]
            return all(vals) if isinstance(t.op, ast.And) else any(vals)
        if isinstance(t, ast.Compare) and len(t.ops) == 1 and isinstance(t.comparators[0], ast.Constant) \
                and t.comparators[0].value is None and isinstance(t.ops[0], (ast.Is, ast.IsNot)):
            v = truth(t.left, A)
            return (not v) if isinstance(t.ops[0], ast.Is) else v
        raise Unknown()

    def value(e, A):
        if isinstance(e, ast.IfExp):
            return value(e.body if truth(e.test, A) else e.orelse, A)
        if isinstance(e, ast.Constant):
            return e.value
        raise Unknown()

    def run_block(stmts, A):
        for st in stmts:
            if isinstance(st, ast.Return):
                return ('ret', value(st.value, A) if st.value is not None else None)
            if isinstance(st, ast.If):
                r = run_block(st.body if truth(st.test, A) else st.orelse, A)
                if r is not None:
                    return r
            elif isinstance(st, ast.Expr) and isinstance(st.value, ast.Constant):
                continue
            else:
                raise Unknown()
        return None

    construct = f'(g) {rname}: every alternative ({"|".join(toks)}) gets its own result'
    results = {}
    try:
        for A in toks:
            r = run_block(f.node.body, A)
            results[A] = r[1] if r is not None else None
    except Unknown:
        return [Inst(RULE, f.short, construct, 'unproven', msg='visitor is not a chain of accessor tests', file=rel,
                     line=f.node.lineno, props=PROPS)]
    none = [A for A, v in results.items() if v is None]
    dup = [A for A, v in results.items() if v is not None and list(results.values()).count(v) > 1]
    if none or dup:
        bad = (none or dup)[0]
        return [Inst(
            RULE, f.short, construct, 'violation',
            msg=(f"for a '{bad}' token {vname} returns {results[bad]!r}"
                 + (" (no branch is taken)" if none else " (the same as for another alternative)")
                 + f": results per alternative {results}; the operator written in the source is not the one in "
                   f"the specification"),
            file=rel, line=f.node.lineno, props=PROPS)]
    return [Inst(RULE, f.short, construct, 'ok', msg=str(results), file=rel, line=f.node.lineno, props=PROPS)]


def _suffix_order(ctx, rname, tree, f, vname, rel) -> list[Inst]:
    """(h) postfix suffixes are applied in grammar order: for `part: (...) STAR? type*` the transitive wrapper
    (STAR) is applied before the type filters, so `x*[T]` is subType(T, transitive(x))."""
    if rname != 'part':
        return []
    ctxn = f.params[1] if len(f.params) > 1 else 'ctx'
    cfg = ctx.cfg(f)
    star = typ = None
    for n in cfg.nodes:
        a = n.ast
        if n.kind == 'if' and any(isinstance(x, ast.Call) and isinstance(x.func, ast.Attribute) and x.func.attr == 'STAR'
                                  for x in ast.walk(a.test)):
            star = n
        if n.kind == 'for' and any(isinstance(x, ast.Call) and isinstance(x.func, ast.Attribute)
                                   and x.func.attr in ('type_', 'type') for x in ast.walk(a.iter)):
            typ = n
    construct = '(h) part: STAR is applied before the type filters (grammar order STAR? type*)'
    if star is None or typ is None:
        return [Inst(RULE, f.short, construct, 'unproven', msg='STAR test / type loop not recognised', file=rel,
                     line=f.node.lineno, props=PROPS)]
    if cfg.dominates(star, typ):
        return [Inst(RULE, f.short, construct, 'ok', file=rel, line=star.lineno, props=PROPS)]
    return [Inst(
        RULE, f.short, construct, 'violation',
        msg=("the transitive wrapper for '*' is applied after the type filters: 'x*[T]' compiles to "
             "transitive(subType(T, x)) instead of subType(T, transitive(x))"),
        file=rel, line=star.lineno, props=PROPS)]


def run(ctx) -> list[Inst]:
    prog = ctx.prog
    g4 = os.path.join(prog.repo, 'maltoolbox', 'language', 'compiler', 'mal.g4')
    if not os.path.exists(g4):
        raise AnalysisError('mal.g4 not found')
    with open(g4, encoding='utf-8') as fh:
        rules = parse_g4(fh.read())
    prules = {n: b for n, b in rules.items() if n[0].islower()}
    if len(prules) < 20:
        raise AnalysisError(f'mal.g4: only {len(prules)} parser rules recognised')
    visitor = prog.cls('malVisitor')
    rel = visitor.module.relpath
    insts = []
    for rname, body in sorted(prules.items()):
        tree = _P(body).alts()
        counts = max_counts(tree)
        vname = 'visit' + rname[0].upper() + rname[1:]
        f = visitor.methods.get(vname)
        # (a)
        if f is None:
            if rname in INLINE:
                insts.append(Inst(RULE, 'malVisitor', f'(a) rule {rname} handled inline', 'info',
                                  msg=INLINE[rname], file=rel, line=visitor.node.lineno, props=PROPS,
                                  nontrivial=False))
            else:
                insts.append(Inst(
                    RULE, 'malVisitor', f'(a) rule {rname} has a visitor method', 'violation',
                    msg=(f"grammar rule '{rname}' has no {vname} method and is not a known inline rule: "
                         f"its content is dropped (default visitChildren)"),
                    file=rel, line=visitor.node.lineno, props=PROPS))
            continue
        uses, children_idx = _accessor_uses(f)
        insts += _alternation(rname, tree, f, vname, rel)
        insts += _suffix_order(ctx, rname, tree, f, vname, rel)
        # generated accessors of rules named like Python builtins carry a trailing underscore
        for k in list(uses):
            if k.endswith('_') and k[:-1] in counts:
                uses.setdefault(k[:-1], set()).update(uses[k])
        chain_ops = {o for _, ops in operator_chains(tree) for o in ops}
        if 'var' in children_idx:
            # interleaved operator children are read positionally: ctx.children[2*i-1]
            for o in chain_ops:
                uses.setdefault(o, set()).add('idxvar')
        # (b)
        for sym, mx in sorted(counts.items()):
            if sym.startswith("'") or sym == 'EOF':
                continue
            if mx < INF:
                continue
            if not (sym[0].islower() or sym in ('ID', 'STRING')):
                continue
            u = uses.get(sym, set())
            construct = f'(b) {rname}: repeated child {sym} consumed in full'
            if 'iter' in u or 'idxvar' in u:
                insts.append(Inst(RULE, f.short, construct, 'ok', msg=', '.join(sorted(u)), file=rel,
                                  line=f.node.lineno, props=PROPS))
            elif any(x.startswith('idx:') for x in u):
                top = max(int(x[4:]) for x in u if x.startswith('idx:'))
                insts.append(Inst(
                    RULE, f.short, construct, 'violation',
                    msg=(f"the grammar allows any number of '{sym}' in '{rname}' but {vname} reads only the "
                         f"constant positions up to [{top}]: further operands are silently dropped"),
                    file=rel, line=f.node.lineno, props=PROPS))
            elif not u:
                insts.append(Inst(
                    RULE, f.short, construct, 'violation',
                    msg=f"{vname} never reads ctx.{sym}(): repeated '{sym}' children of '{rname}' are dropped",
                    file=rel, line=f.node.lineno, props=PROPS))
            else:
                insts.append(Inst(RULE, f.short, construct, 'unproven', msg=', '.join(sorted(u)), file=rel,
                                  line=f.node.lineno, props=PROPS))
        # bounded constant indexing within the static maximum
        for sym, u in sorted(uses.items()):
            mx = counts.get(sym)
            if mx is None or mx >= INF:
                continue
            idxs = [int(x[4:]) for x in u if x.startswith('idx:')]
            if idxs and max(idxs) >= mx:
                insts.append(Inst(
                    RULE, f.short, f'(b) {rname}: index of {sym} within the grammar maximum', 'violation',
                    msg=f"{vname} reads {sym}[{max(idxs)}] but '{rname}' has at most {mx} '{sym}'",
                    file=rel, line=f.node.lineno, props=PROPS))
        # (c)
        for operand, ops in operator_chains(tree):
            if len(ops) < 2 and not (len(ops) == 1 and ops[0][0].islower()):
                continue
            construct = f'(c) {rname}: operator of each step read from the tree ({"|".join(ops)})'
            truthy = [o for o in ops if o in uses and uses[o] & {'truth', 'methodobj', 'single'}
                      and o[0].isupper()]
            per_step = 'var' in children_idx or any(
                o[0].islower() and (uses.get(o, set()) & {'idxvar', 'iter'}) for o in ops)
            counted = [o for o in ops if o[0].isupper() and uses.get(o, set()) & {'idxvar'} or
                       any(k.startswith('idx:') for k in uses.get(o, set()) if o[0].isupper())]
            if len(ops) >= 2 and counted and not per_step:
                insts.append(Inst(
                    RULE, f.short, construct, 'violation',
                    msg=(f"{vname} takes the operator of a step from ctx.{counted[0]}(i), the i-th '{counted[0]}' token of "
                         f"the whole '{rname}' chain: with alternatives {'|'.join(ops)} the i-th token of ONE kind is "
                         f"not the token standing between operands i and i+1, so mixed chains get their operators "
                         f"assigned to the wrong positions"),
                    file=rel, line=f.node.lineno, props=PROPS))
            elif truthy and not per_step:
                insts.append(Inst(
                    RULE, f.short, construct, 'violation',
                    msg=(f"{vname} chooses the operator from the presence of ctx.{truthy[0]}() in the whole "
                         f"'{rname}' chain instead of the token between each pair of operands: mixed chains "
                         f"(a {ops[0]} b {ops[-1]} c) get the wrong operator"),
                    file=rel, line=f.node.lineno, props=PROPS))
            elif per_step:
                insts.append(Inst(RULE, f.short, construct, 'ok',
                                  msg='operator taken per step (children[...] / indexed operator rule)',
                                  file=rel, line=f.node.lineno, props=PROPS))
            elif len(ops) == 1:
                insts.append(Inst(RULE, f.short, construct, 'ok', msg='single operator', file=rel,
                                  line=f.node.lineno, props=PROPS, nontrivial=False))
            else:
                insts.append(Inst(RULE, f.short, construct, 'unproven', msg='operator source not recognised',
                                  file=rel, line=f.node.lineno, props=PROPS))
        # (c') the operator of step k (between operands k-1 and k) is operator number k-1 / child number 2k-1
        for operand, ops in operator_chains(tree):
            insts += _chain_alignment(f, rname, operand, ops, rel)
        # (d)
        for sym in sorted(counts):
            if sym.startswith("'") or sym == 'EOF':
                continue
            content = sym[0].islower() or sym in ('ID', 'STRING') or sym in FLAG_TOKENS.get(rname, [])
            if not content:
                continue
            if sym in INLINE and rname != 'mal':
                # read through the parent accessor (ctx.mult()[i].multatom())
                pass
            construct = f'(d) {rname}: child {sym} is consumed'
            consumed = sym in uses
            if not consumed and rname in ('number',) and sym in ('INT', 'FLOAT'):
                consumed = True
            if not consumed and sym[0].isupper() and sym not in ('ID', 'STRING') and children_idx:
                consumed = True
            if not consumed:
                # getText() of the whole context covers terminal-only rules
                txt = any(isinstance(n, ast.Call) and isinstance(n.func, ast.Attribute) and n.func.attr == 'getText'
                          and isinstance(n.func.value, ast.Name) for n in own_nodes(f.node))
                if txt and sym[0].isupper():
                    consumed = True
            if not consumed and 'children' in stmt_text(f.node) and sym[0].islower() and \
                    any(sym in stmt_text(n) for n in own_nodes(f.node) if isinstance(n, ast.Call)):
                consumed = True
            if consumed:
                insts.append(Inst(RULE, f.short, construct, 'ok', file=rel, line=f.node.lineno, props=PROPS))
            else:
                insts.append(Inst(
                    RULE, f.short, construct, 'violation',
                    msg=(f"grammar rule '{rname}' can contain '{sym}' but {vname} never reads ctx.{sym}(): "
                         f"that part of the source does not reach the specification"),
                    file=rel, line=f.node.lineno, props=PROPS))
    insts += _string_tokens(ctx, visitor, rel)
    insts += _left_assoc(ctx, visitor, rel)
    insts += _classification(ctx, visitor, rel, rules)
    insts += _dedupe(ctx, visitor, rel)
    insts += _single_atom_multiplicity(ctx, visitor, rel)
    insts += _source_faithful(ctx, visitor, rel)
    return insts


def _source_faithful(ctx, visitor, rel):
    """(l) what the visitor returns is what the source says, item by item:
      - an optional child that is absent yields None / an empty container, never a made-up non-empty value
        (`self.visit(ctx.reaches()) if ctx.reaches() else {'overrides': True, ..}` turns "no reaches clause" into an
        overriding one);
      - a repeated child is taken over in full and in order: no `if x not in acc` filter on the way (a step may list
        the same expression twice - two parallel edges);
      - a result key filled from token text (`getText()`) is not re-assigned afterwards with a constant
        (`Bernoulli(1)` is not `Enabled`)."""
    out = []
    for f in visitor.methods.values():
        if not f.name.startswith('visit'):
            continue
        ctxn = f.params[1] if len(f.params) > 1 else 'ctx'
        # absent optional child
        for n in own_nodes(f.node):
            if isinstance(n, ast.IfExp) and isinstance(n.test, ast.Call) and isinstance(n.test.func, ast.Attribute) \
                    and isinstance(n.test.func.value, ast.Name) and n.test.func.value.id == ctxn and not n.test.args:
                child = n.test.func.attr
                if not child[0].islower() or not any(
                        isinstance(x, ast.Call) and isinstance(x.func, ast.Attribute) and x.func.attr == child
                        and isinstance(x.func.value, ast.Name) and x.func.value.id == ctxn for x in ast.walk(n.body)):
                    continue        # not "the optional child if present": a token flag choosing between two forms
                o = n.orelse
                made_up = (isinstance(o, ast.Dict) and o.keys) or (isinstance(o, (ast.List, ast.Tuple, ast.Set)) and o.elts) \
                    or (isinstance(o, ast.Constant) and o.value not in (None, '', 0, False))
                construct = f"(l) {f.name[5:].lower()}: an absent '{child}' yields nothing"
                if made_up:
                    out.append(Inst(
                        RULE, f.short, construct, 'violation',
                        msg=(f"when the source has no '{child}' the visitor returns '{stmt_text(o, 50)}' instead of None / "
                             f"an empty value: a declaration that says nothing about it is compiled as if it said "
                             f"something (consumers test the value for truth)"),
                        file=rel, line=n.lineno, props=PROPS + ('C01', 'C03')))
                else:
                    out.append(Inst(RULE, f.short, construct, 'ok', file=rel, line=n.lineno, props=PROPS))
        # repeated child filtered
        for lp in own_nodes(f.node):
            if isinstance(lp, ast.For) and isinstance(lp.iter, ast.Call) and isinstance(lp.iter.func, ast.Attribute) \
                    and isinstance(lp.iter.func.value, ast.Name) and lp.iter.func.value.id == ctxn and not lp.iter.args:
                child = lp.iter.func.attr
                for g in ast.walk(lp):
                    if isinstance(g, ast.If) and isinstance(g.test, ast.Compare) and len(g.test.ops) == 1 \
                            and isinstance(g.test.ops[0], ast.NotIn) \
                            and any(isinstance(c, ast.Call) and isinstance(c.func, ast.Attribute) and c.func.attr == 'append'
                                    and stmt_text(c.func.value) == stmt_text(g.test.comparators[0]) for b in g.body for c in ast.walk(b)):
                        out.append(Inst(
                            RULE, f.short, f"(l) {f.name[5:].lower()}: every '{child}' of the source is taken over", 'violation',
                            msg=(f"'if {stmt_text(g.test, 60)}' drops a '{child}' that equals an earlier one: the source may "
                                 f"list the same item twice (two identical step expressions are two edges), the "
                                 f"specification no longer says what the file says"),
                            file=rel, line=g.lineno, props=PROPS))
        # repeated child collected into a set / sorted: order and repeats of the source are lost
        for n in own_nodes(f.node):
            comp = None
            if isinstance(n, ast.SetComp):
                comp = n
            elif isinstance(n, ast.Call) and isinstance(n.func, ast.Name) and n.func.id in ('set', 'frozenset', 'sorted') and n.args \
                    and isinstance(n.args[0], (ast.GeneratorExp, ast.ListComp, ast.SetComp)):
                comp = n.args[0]
            if comp is None:
                continue
            # only when the set / sorted value itself goes into the result (a key of the returned record, the return
            # value); a local set used for membership tests loses nothing
            par_ = None
            for x_ in ast.walk(f.node):
                for ch_ in ast.iter_child_nodes(x_):
                    if ch_ is n:
                        par_ = x_
            into_result = (isinstance(par_, ast.Assign) and any(isinstance(t_, ast.Subscript) for t_ in par_.targets)) \
                or isinstance(par_, (ast.Return, ast.Dict)) \
                or (isinstance(par_, ast.Call) and isinstance(par_.func, ast.Name) and par_.func.id in ('sorted', 'list', 'tuple')
                    and any(isinstance(p2, ast.Assign) and any(isinstance(t_, ast.Subscript) for t_ in p2.targets) and p2.value is par_
                            for p2 in ast.walk(f.node)))
            if not into_result:
                continue
            it = comp.generators[0].iter
            if isinstance(it, ast.Call) and isinstance(it.func, ast.Attribute) and isinstance(it.func.value, ast.Name) \
                    and it.func.value.id == ctxn and not it.args:
                out.append(Inst(
                    RULE, f.short, f"(l) {f.name[5:].lower()}: every '{it.func.attr}' of the source is taken over", 'violation',
                    msg=(f"'{stmt_text(n, 60)}' collects the '{it.func.attr}' children through a set / sorted(): the order they "
                         f"are written in and repeated entries are part of what the source says, the specification no "
                         f"longer shows them"),
                    file=rel, line=n.lineno, props=PROPS))
        # token text overwritten
        from_text = {}
        for n in own_nodes(f.node):
            if isinstance(n, ast.Assign) and len(n.targets) == 1 and isinstance(n.targets[0], ast.Subscript) \
                    and isinstance(n.targets[0].slice, ast.Constant) and isinstance(n.targets[0].value, ast.Name) \
                    and 'getText' in stmt_text(n.value, 200):
                from_text[(n.targets[0].value.id, n.targets[0].slice.value)] = n
        for n in own_nodes(f.node):
            if isinstance(n, ast.Assign) and len(n.targets) == 1 and isinstance(n.targets[0], ast.Subscript) \
                    and isinstance(n.targets[0].slice, ast.Constant) and isinstance(n.targets[0].value, ast.Name):
                k = (n.targets[0].value.id, n.targets[0].slice.value)
                if k in from_text and n is not from_text[k] and n.lineno > from_text[k].lineno \
                        and 'getText' not in stmt_text(n.value, 200) \
                        and not any(isinstance(x, ast.Subscript) and stmt_text(x) == stmt_text(n.targets[0]) for x in ast.walk(n.value)):
                    out.append(Inst(
                        RULE, f.short, f"(l) {f.name[5:].lower()}: '{k[1]}' keeps the text of the source", 'violation',
                        msg=(f"'{stmt_text(n, 60)}' replaces the '{k[1]}' taken from the token text "
                             f"('{stmt_text(from_text[k], 50)}'): the specification names something the source does not"),
                        file=rel, line=n.lineno, props=PROPS + ('C06',)))
    return out


def _single_atom_multiplicity(ctx, visitor, rel):
    """(k) `mult: multatom (RANGE multatom)?` - a multiplicity written as ONE atom n means n..n: wherever the visitor
    tests the upper bound for absence (`X['max'] is None`, `in (None, ..)`), what it puts there is the lower bound of
    the same side, not 'no limit'."""
    construct = "(k) a multiplicity without an upper bound means min..min"
    out = []

    def max_of(e):
        return e if (isinstance(e, ast.Subscript) and isinstance(e.slice, ast.Constant) and e.slice.value == 'max') else None

    def none_test(t):
        """-> the ['max'] expression a test finds absent when it is TRUE, or None"""
        if isinstance(t, ast.Compare) and len(t.ops) == 1:
            m = max_of(t.left)
            c = t.comparators[0]
            if m is not None and isinstance(t.ops[0], (ast.Is, ast.Eq)) and isinstance(c, ast.Constant) and c.value is None:
                return m
            if m is not None and isinstance(t.ops[0], ast.In) and isinstance(c, (ast.Tuple, ast.List, ast.Set)) \
                    and any(isinstance(x, ast.Constant) and x.value is None for x in c.elts):
                return m
        if isinstance(t, ast.UnaryOp) and isinstance(t.op, ast.Not):
            return max_of(t.operand)
        if isinstance(t, ast.BoolOp) and isinstance(t.op, ast.And):
            for v in t.values:
                r = none_test(v)
                if r is not None:
                    return r
        return None

    def is_min_of(e, m):
        return isinstance(e, ast.Subscript) and isinstance(e.slice, ast.Constant) and e.slice.value == 'min' \
            and ast.dump(e.value) == ast.dump(m.value)

    for f in visitor.methods.values():
        for n in own_nodes(f.node):
            if isinstance(n, ast.If):
                m = none_test(n.test)
                if m is None:
                    continue
                val = None
                for st in n.body:
                    if isinstance(st, ast.Assign) and len(st.targets) == 1 and ast.dump(st.targets[0]).replace('Store', 'Load') == ast.dump(m):
                        val = st.value
                if val is None:
                    continue
            elif isinstance(n, ast.IfExp):
                m = none_test(n.test)
                if m is None:
                    continue
                val = n.body
            else:
                continue
            if is_min_of(val, m):
                out.append(Inst(RULE, f.short, construct, 'ok', msg=stmt_text(n.test, 60), file=rel, line=n.lineno, props=PROPS))
            elif isinstance(val, ast.Constant) and val.value is None and not isinstance(n.test, ast.BoolOp):
                out.append(Inst(
                    RULE, f.short, construct, 'violation',
                    msg=(f"'{stmt_text(n.test, 60)}' maps a missing upper bound to None ('no limit'): an association side "
                         f"declared with a single number n (grammar: mult -> multatom) means n..n, with None the class "
                         f"factory emits no maxItems and more assets than declared are accepted"),
                    file=rel, line=n.lineno, props=PROPS + ('C06',)))
            else:
                out.append(Inst(RULE, f.short, construct, 'unproven', msg=f"'{stmt_text(n.test, 50)}' -> '{stmt_text(val, 40)}'",
                                file=rel, line=n.lineno, props=PROPS, nontrivial=False))
    # (k') the lower bound never depends on the upper one (a missing upper bound is filled FROM the lower, `*` as lower
    # bound means 0 whatever the upper bound is): what is stored under 'min' reads nothing that came from ['max']
    construct2 = "(k) the lower bound of a multiplicity is computed from the lower bound only"
    for f in visitor.methods.values():
        from_max = set()
        for n in own_nodes(f.node):
            if isinstance(n, ast.Assign) and len(n.targets) == 1 and isinstance(n.targets[0], ast.Name) \
                    and max_of(n.value) is not None:
                from_max.add(n.targets[0].id)        # a plain copy of the upper bound (`upper = side['max']`)
        stores = []
        for n in own_nodes(f.node):
            if isinstance(n, ast.Dict):
                for k_, v_ in zip(n.keys, n.values):
                    if isinstance(k_, ast.Constant) and k_.value == 'min' and any(
                            isinstance(k2, ast.Constant) and k2.value == 'max' for k2 in n.keys):
                        stores.append((v_, n))
            if isinstance(n, ast.Assign) and len(n.targets) == 1 and isinstance(n.targets[0], ast.Subscript) \
                    and isinstance(n.targets[0].slice, ast.Constant) and n.targets[0].slice.value == 'min':
                stores.append((n.value, n))
        for (v_, at) in stores:
            reads_max = [x for x in ast.walk(v_) if max_of(x) is not None or (isinstance(x, ast.Name) and x.id in from_max)]
            if reads_max:
                out.append(Inst(
                    RULE, f.short, construct2, 'violation',
                    msg=(f"the value stored under 'min' ('{stmt_text(v_, 50)}') reads '{stmt_text(reads_max[0])}', which "
                         f"holds the UPPER bound: `1..*` gets the lower bound of `*` (0), a side that requires at least one "
                         f"asset is compiled as optional"),
                    file=rel, line=at.lineno, props=PROPS + ('C06',)))
            elif not isinstance(v_, ast.Call) or 'getText' not in stmt_text(v_):
                out.append(Inst(RULE, f.short, construct2, 'ok', msg=stmt_text(v_, 50), file=rel, line=at.lineno, props=PROPS))
    if not out:
        out.append(Inst(RULE, 'malVisitor', construct, 'unproven', msg='no test for a missing upper bound found', file=rel,
                        line=visitor.node.lineno, props=PROPS, nontrivial=False))
    return out


def _string_tokens(ctx, visitor, rel):
    """(i) the text of a STRING token reaches the specification with its quotes removed and nothing else done to it:
    `ctx.STRING().getText().strip('"')`.  Any further many-to-one string operation on the way (strip() of white
    space, case folding, slicing ...) changes define values / meta strings the source spells out."""
    from ..codec import LOSSY_METHODS
    insts = []
    for m in visitor.methods.values():
        for n in own_nodes(m.node):
            if not (isinstance(n, ast.Call) and isinstance(n.func, ast.Attribute)):
                continue
            # method chain ending here: collect the attribute names down to the STRING() accessor
            chain = []
            cur = n
            while isinstance(cur, ast.Call) and isinstance(cur.func, ast.Attribute):
                chain.append((cur.func.attr, cur))
                cur = cur.func.value
            names = [c[0] for c in chain]
            if 'STRING' not in names or 'getText' not in names:
                continue
            # only maximal chains
            par_is_chain = False
            for p in own_nodes(m.node):
                if isinstance(p, ast.Attribute) and p.value is n:
                    par_is_chain = True
            if par_is_chain:
                continue
            after = names[:names.index('getText')]
            bad = None
            for nm, call in chain[:len(after)]:
                if nm in LOSSY_METHODS and not (nm == 'strip' and call.args and isinstance(call.args[0], ast.Constant)
                                                and call.args[0].value in ('"', "'", '"\'')):
                    bad = (nm, call)
                if nm in ('replace', 'translate', 'expandtabs', 'splitlines', 'split', 'join'):
                    bad = (nm, call)
            construct = f'(i) STRING token text keeps everything between the quotes: {stmt_text(n, 50)}'
            if bad:
                insts.append(Inst(
                    RULE, m.short, construct, 'violation',
                    msg=(f"'.{bad[0]}(...)' is applied to the text of a STRING token: define values and meta strings "
                         f"that start / end with white space (or differ only in what {bad[0]} removes) no longer equal "
                         f"the source text"),
                    file=rel, line=n.lineno, props=PROPS))
            else:
                insts.append(Inst(RULE, m.short, construct, 'ok', file=rel, line=n.lineno, props=PROPS))
    return insts


def _classification(ctx, visitor, rel, rules=None):
    """(e) only the last component of a REACHES expression may become an attackStep: the upward walk of
    _resolve_part_ID_type stops at ReachesContext and at nothing else (requires / let yield fields)."""
    f = visitor.methods.get('_resolve_part_ID_type')
    construct = '(e) field-vs-step classification walks up to a reaches context only'
    if f is None:
        return [Inst(RULE, 'malVisitor', construct, 'unproven', msg='_resolve_part_ID_type not found', file=rel,
                     line=visitor.node.lineno, props=PROPS)]
    stops = None
    for n in own_nodes(f.node):
        if isinstance(n, ast.While):
            for c in ast.walk(n.test):
                if isinstance(c, ast.Call) and isinstance(c.func, ast.Name) and c.func.id == 'isinstance' and len(c.args) == 2:
                    t = c.args[1]
                    elts = t.elts if isinstance(t, ast.Tuple) else [t]
                    stops = sorted(stmt_text(e).split('.')[-1] for e in elts)
    if stops is None:
        return [Inst(RULE, f.short, construct, 'unproven', msg='upward walk not recognised', file=rel,
                     line=f.node.lineno, props=PROPS)]
    if stops == ['ReachesContext']:
        out = [Inst(RULE, f.short, construct, 'ok', file=rel, line=f.node.lineno, props=PROPS)]
        # (e2) the scan for a following '.' runs to the end of THAT clause (cut at the next comma): an expression can
        # be nested arbitrarily deep in parentheses, `(a.b \/ c).d.e`, so a bound taken a fixed number of parents up
        # (ctx.parentCtx.parentCtx = the nearest expr) ends before the dot that follows the closing parenthesis
        walked = set()
        for n in own_nodes(f.node):
            if isinstance(n, ast.While):
                for x in ast.walk(n):
                    if isinstance(x, ast.Assign) and isinstance(x.targets[0], ast.Name):
                        walked.add(x.targets[0].id)
        construct2 = '(e) the scan for a following dot ends with the enclosing reaches clause'
        verdict = None
        for n in own_nodes(f.node):
            if isinstance(n, ast.For) and isinstance(n.iter, ast.Call) and isinstance(n.iter.func, ast.Name) \
                    and n.iter.func.id == 'range' and len(n.iter.args) == 2:
                hi = n.iter.args[1]
                names = [x.id for x in ast.walk(hi) if isinstance(x, ast.Name)]
                if 'stop' not in stmt_text(hi):
                    continue
                bound_var = names[0] if names else None
                if bound_var in walked:
                    verdict = ('ok', n, '')
                else:
                    # a local bound to a fixed chain of parents?
                    fixed = None
                    for x in own_nodes(f.node):
                        if isinstance(x, ast.Assign) and isinstance(x.targets[0], ast.Name) and x.targets[0].id == bound_var \
                                and 'parentCtx' in stmt_text(x.value):
                            fixed = x
                    if fixed is not None or 'parentCtx' in stmt_text(hi):
                        verdict = ('violation', n,
                                   f"the scan stops at '{stmt_text(hi, 60)}', where {bound_var} is "
                                   f"'{stmt_text(fixed.value, 50) if fixed is not None else 'a fixed parent'}', a fixed number "
                                   f"of levels above the name - not the clause found by the upward walk: for a name inside "
                                   f"parentheses the dot after the closing parenthesis is not seen and the name is "
                                   f"compiled as an attackStep instead of a field")
                    else:
                        verdict = ('unproven', n, 'scan bound not recognised')
        if verdict is None:
            out.append(Inst(RULE, f.short, construct2, 'unproven', msg='token scan not recognised', file=rel,
                            line=f.node.lineno, props=PROPS))
        else:
            out.append(Inst(RULE, f.short, construct2, verdict[0], msg=verdict[2], file=rel, line=verdict[1].lineno,
                            props=PROPS))
        out += _scan_terminators(f, rel, rules or {})
        return out
    return [Inst(
        RULE, f.short, construct, 'violation',
        msg=(f"the walk towards the enclosing clause stops at {stops}: names in a clause other than a reaches "
             f"clause ('<-' requirements, let bodies) get classified as attackStep, although only the last "
             f"component of a reaches expression names an attack step"),
        file=rel, line=f.node.lineno, props=PROPS)]


def _scan_terminators(f, rel, rules):
    """(e3) the scan to the right of a name may give up (answer 'not followed by a dot') only at a token that ends
    the whole expression: a token that the grammar allows INSIDE an `expr` (closing parenthesis, set operator, '*',
    '[', ...) can still be followed by the dot that makes the name a field - `(a \\/ b).c`."""
    construct = "(e) the scan for a following dot gives up only at tokens that cannot occur inside an expression"
    if 'expr' not in rules:
        return []
    inside = set()
    seen = set()
    work = ['expr']
    while work:
        r = work.pop()
        if r in seen or r not in rules:
            continue
        seen.add(r)
        for t in rules[r]:
            if re.fullmatch(r'[A-Z][A-Z_0-9]*', t):
                inside.add(t)
            elif re.fullmatch(r'[a-z][A-Za-z_0-9]*', t):
                work.append(t)
    out = []
    for loop in own_nodes(f.node):
        if not (isinstance(loop, ast.For) and isinstance(loop.iter, ast.Call) and isinstance(loop.iter.func, ast.Name)
                and loop.iter.func.id == 'range'):
            continue
        for n in ast.walk(loop):
            if not (isinstance(n, ast.If) and isinstance(n.test, ast.Compare) and len(n.test.ops) == 1
                    and isinstance(n.test.ops[0], (ast.Eq, ast.In)) and '.type' in stmt_text(n.test.left)):
                continue
            comp = n.test.comparators[0]
            elts = comp.elts if isinstance(comp, (ast.Tuple, ast.List, ast.Set)) else [comp]
            toks = [e.attr for e in elts if isinstance(e, ast.Attribute)]
            if len(toks) != len(elts) or not toks:
                continue
            rets = [x for s in n.body for x in ast.walk(s) if isinstance(x, ast.Return)]
            if not rets or not all(isinstance(r.value, ast.Constant) for r in rets):
                continue
            if all(r.value.value == 'field' for r in rets):
                continue
            bad = sorted(t for t in toks if t in inside and t != 'DOT')
            if bad:
                out.append(Inst(
                    RULE, f.short, construct, 'violation',
                    msg=(f"'{stmt_text(n.test, 70)}' ends the scan at {bad}, which the grammar allows inside an expression "
                         f"(expr -> parts -> part -> '(' expr ')' ...): a name followed by such a token and then a dot, "
                         f"e.g. the operands of `(a \\/ b).c`, is compiled as an attackStep instead of a field"),
                    file=rel, line=n.lineno, props=PROPS))
            else:
                out.append(Inst(RULE, f.short, construct, 'ok', msg=f"gives up at {toks}", file=rel, line=n.lineno,
                                props=PROPS))
    return out


def _dedupe(ctx, visitor, rel):
    """(f) declarations merged from included files are de-duplicated by whole-declaration equality; a
    key built from some of a declaration's entries drops distinct declarations that agree on them."""
    f = visitor.methods.get('visitMal')
    construct = '(f) included declarations are de-duplicated by whole-declaration equality'
    if f is None:
        return []
    out = []
    # keys a declaration dict can carry (from the visit methods that build them)
    full = set()
    for mn in ('visitAssociation', 'visitAsset', 'visitCategory'):
        m = visitor.methods.get(mn)
        if m is None:
            continue
        for n in own_nodes(m.node):
            if isinstance(n, ast.Assign) and isinstance(n.targets[0], ast.Subscript) \
                    and isinstance(n.targets[0].slice, ast.Constant):
                full.add(n.targets[0].slice.value)
    found = False
    for n in own_nodes(f.node):
        if isinstance(n, ast.For) and isinstance(n.target, ast.Name):
            item = n.target.id
            for t in ast.walk(n):
                if isinstance(t, ast.Compare) and len(t.ops) == 1 and isinstance(t.ops[0], (ast.In, ast.NotIn)):
                    left = t.left
                    if isinstance(left, ast.Name) and left.id == item:
                        found = True
                        out.append(Inst(RULE, f.short, construct, 'ok', msg=f"'{stmt_text(t)}'", file=rel,
                                        line=t.lineno, props=PROPS))
                    elif isinstance(left, ast.Name):
                        # a key variable: which entries of the item does it use?
                        used = set()
                        for a in ast.walk(n):
                            if isinstance(a, ast.Assign) and any(isinstance(x, ast.Name) and x.id == left.id for x in a.targets):
                                for s in ast.walk(a.value):
                                    if isinstance(s, ast.Subscript) and isinstance(s.value, ast.Name) and s.value.id == item \
                                            and isinstance(s.slice, ast.Constant):
                                        used.add(s.slice.value)
                                    if isinstance(s, ast.Call) and isinstance(s.func, ast.Attribute) and s.func.attr == 'get' \
                                            and isinstance(s.func.value, ast.Name) and s.func.value.id == item and s.args \
                                            and isinstance(s.args[0], ast.Constant):
                                        used.add(s.args[0].value)
                        if used and used < full:
                            found = True
                            out.append(Inst(
                                RULE, f.short, construct, 'violation',
                                msg=(f"'{stmt_text(t)}' identifies a declaration by {sorted(used)} only, a declaration "
                                     f"also carries {sorted(full - used)[:6]}...: two different declarations that agree "
                                     f"on those entries (same-named associations between other asset types) are "
                                     f"merged into one"),
                                file=rel, line=t.lineno, props=PROPS))
    # the same with the key taken directly in the test: `item["name"] not in known` (in an if or a comprehension filter)
    for t in own_nodes(f.node):
        if isinstance(t, ast.Compare) and len(t.ops) == 1 and isinstance(t.ops[0], (ast.In, ast.NotIn)):
            used = set()
            for s_ in ast.walk(t.left):
                if isinstance(s_, ast.Subscript) and isinstance(s_.value, ast.Name) and isinstance(s_.slice, ast.Constant) \
                        and isinstance(s_.slice.value, str):
                    used.add(s_.slice.value)
                if isinstance(s_, ast.Call) and isinstance(s_.func, ast.Attribute) and s_.func.attr == 'get' \
                        and isinstance(s_.func.value, ast.Name) and s_.args and isinstance(s_.args[0], ast.Constant):
                    used.add(s_.args[0].value)
            if used and used < full and used & full:
                found = True
                out.append(Inst(
                    RULE, f.short, construct, 'violation',
                    msg=(f"'{stmt_text(t)}' identifies a declaration by {sorted(used)} only, a declaration "
                         f"also carries {sorted(full - used)[:6]}...: two different declarations that agree "
                         f"on those entries (same-named associations between other asset types) are "
                         f"merged into one"),
                    file=rel, line=t.lineno, props=PROPS))
    if not found:
        out.append(Inst(RULE, f.short, construct, 'unproven', msg='de-duplication idiom not recognised', file=rel,
                        line=f.node.lineno, props=PROPS))
    return out


def _left_assoc(ctx, visitor, rel) -> list[Inst]:
    """(j) MAL's binary chains are left-associative: `a - b - c` is `(a - b) - c`, `a.b.c` is `(a.b).c`.  In the loop
    that folds the operands of visitExpr / visitParts the value accumulated so far must become the 'lhs' of the next
    node and the freshly visited operand its 'rhs'.  Decided part: which of the two keys receives a loop-carried name."""
    insts = []
    # (j') a binary node built outside a loop (`a ^ b`): 'lhs' is the EARLIER child, 'rhs' the later one.  Position of
    # an operand: children[i] / xs[i] -> i ; xs.pop(0) -> from the front ; xs.pop() -> from the BACK (the first pop()
    # yields the last child).
    for f in visitor.methods.values():
        sides = {}
        npop = {'front': 0, 'back': 0}
        for n in own_nodes(f.node):
            if isinstance(n, (ast.For, ast.While)):
                continue
        stmts = [n for n in own_nodes(f.node) if isinstance(n, ast.Assign) and isinstance(n.targets[0], ast.Subscript)
                 and isinstance(n.targets[0].slice, ast.Constant) and n.targets[0].slice.value in ('lhs', 'rhs')]
        in_loop = {id(x) for lp in own_nodes(f.node) if isinstance(lp, (ast.For, ast.While)) for x in ast.walk(lp)}
        stmts = sorted([n for n in stmts if id(n) not in in_loop], key=lambda n: (n.lineno, n.col_offset))
        for n in stmts:
            pos = None
            for x in ast.walk(n.value):
                if isinstance(x, ast.Subscript) and isinstance(x.slice, ast.Constant) and isinstance(x.slice.value, int):
                    pos = ('idx', x.slice.value)
                if isinstance(x, ast.Call) and isinstance(x.func, ast.Attribute) and x.func.attr == 'pop':
                    if x.args and isinstance(x.args[0], ast.Constant) and x.args[0].value == 0:
                        pos = ('idx', npop['front'])
                        npop['front'] += 1
                    elif not x.args:
                        pos = ('back', npop['back'])
                        npop['back'] += 1
            if pos is not None:
                sides[n.targets[0].slice.value] = (pos, n)
        if 'lhs' in sides and 'rhs' in sides:
            (pl, nl), (pr, nr) = sides['lhs'], sides['rhs']
            construct = f'(j) {f.name}: lhs is the earlier child, rhs the later one'
            bad = (pl[0] == 'idx' and pr[0] == 'idx' and pl[1] > pr[1]) or \
                  (pl[0] == 'back' and pr[0] == 'back' and pl[1] < pr[1]) or \
                  (pl[0] == 'back' and pr[0] == 'idx')
            if bad:
                insts.append(Inst(
                    RULE, f.short, construct, 'violation',
                    msg=(f"'{stmt_text(nl, 60)}' takes the LATER child for the left operand and '{stmt_text(nr, 60)}' the "
                         f"earlier one (pop() without an index yields the last element first): `a ^ b` compiles to b ^ a"),
                    file=rel, line=nl.lineno, props=PROPS))
            else:
                insts.append(Inst(RULE, f.short, construct, 'ok', file=rel, line=nl.lineno, props=PROPS))
    for vname in ('visitExpr', 'visitParts'):
        f = visitor.methods.get(vname)
        if f is None:
            continue
        construct = f'(j) {vname}: the accumulated result is the LEFT operand of the next operation'
        found = []
        for lp in own_nodes(f.node):
            if not isinstance(lp, (ast.For, ast.While)):
                continue
            assigned = {t.id for st in ast.walk(lp) if isinstance(st, ast.Assign) for tg in st.targets
                        for t in ast.walk(tg) if isinstance(t, ast.Name)}
            # names mutated as containers (ret["lhs"] = ..) count as carried as well
            assigned |= {st.targets[0].value.id for st in ast.walk(lp) if isinstance(st, ast.Assign)
                         and isinstance(st.targets[0], ast.Subscript) and isinstance(st.targets[0].value, ast.Name)}
            vals = {}
            for n in ast.walk(lp):
                if isinstance(n, ast.Dict):
                    for k, v in zip(n.keys, n.values):
                        if isinstance(k, ast.Constant) and k.value in ('lhs', 'rhs'):
                            vals.setdefault(k.value, []).append(v)
                if isinstance(n, ast.Assign) and isinstance(n.targets[0], ast.Subscript) \
                        and isinstance(n.targets[0].slice, ast.Constant) and n.targets[0].slice.value in ('lhs', 'rhs'):
                    vals.setdefault(n.targets[0].slice.value, []).append(n.value)
            if 'lhs' in vals and 'rhs' in vals:
                def carried(v):
                    if isinstance(v, ast.Call) and isinstance(v.func, ast.Attribute) and v.func.attr == 'copy':
                        v = v.func.value
                    return isinstance(v, ast.Name) and v.id in assigned
                found.append((lp, any(carried(v) for v in vals['lhs']), any(carried(v) for v in vals['rhs']), vals))
        if not found:
            insts.append(Inst(RULE, f.short, construct, 'unproven', msg='no folding loop with lhs / rhs keys recognised',
                              file=rel, line=f.node.lineno, props=PROPS))
            continue
        for lp, l_acc, r_acc, vals in found:
            if r_acc and not l_acc:
                insts.append(Inst(
                    RULE, f.short, construct, 'violation',
                    msg=(f"in the folding loop the value accumulated so far is stored under 'rhs' "
                         f"('{stmt_text(vals['rhs'][0], 50)}') and the new operand under 'lhs': chains nest to the right, "
                         f"`a - b - c` compiles to a - (b - c) instead of (a - b) - c"),
                    file=rel, line=lp.lineno, props=PROPS))
            elif l_acc and not r_acc:
                insts.append(Inst(RULE, f.short, construct, 'ok', file=rel, line=lp.lineno, props=PROPS))
            else:
                insts.append(Inst(RULE, f.short, construct, 'unproven', msg='accumulator not identified',
                                  file=rel, line=lp.lineno, props=PROPS))
    return insts
