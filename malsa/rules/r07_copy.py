"""R7 COPY - hand-written deep copies are complete, independent, re-linked.

For AttackGraphNode.__deepcopy__, Attacker.__deepcopy__, AttackGraph.__deepcopy__:
 (a) every dataclass field / __init__ attribute of the class receives a value in the copy, scalar
     and shared-by-specification fields (asset, model, lang_graph) from ``self.<same field>``
     (positional constructor arguments are mapped through the declared field order);
 (b) every field whose declared type is a mutable container receives a value that is independent
     of the original: an empty literal, ``copy.deepcopy(self.F, memo)``, or a shallow copy when the
     elements are immutable scalars; containers of objects must thread ``memo``; no expression is
     stored into two container fields;
 (c) every relation field that the node copy leaves empty is re-established by the graph copy from
     memo-mapped copies, inside a loop over the original nodes;
 (d) the graph copy carries the node list, attackers, the lookup dictionaries and the counters;
 (e) each __deepcopy__ consults the memo first and registers its copy under id(self).
"""
from __future__ import annotations

import ast

from ..core import stmt_text, own_nodes, AnalysisError
from ..report import Inst

RULE = 'R7'
CLASSES = ['AttackGraphNode', 'Attacker', 'AttackGraph']
SHARED = {'asset', 'model', 'lang_graph'}
PROPS = ('C14',)


def is_container(t):
    return t[0] in ('list', 'dict', 'set')


def holds_objects(t):
    if t[0] in ('list', 'set'):
        return t[1][0] in ('cls', 'pjs') or is_container(t[1]) and holds_objects(t[1])
    if t[0] == 'dict':
        return t[2][0] in ('cls', 'pjs')
    return False


def may_hold_objects(t):
    """container whose elements are not provably immutable scalars (free-form dictionaries such as extras
    can reference nodes / attackers of the graph)."""
    SC = ('str', 'int', 'float', 'bool', 'none')
    if t[0] in ('list', 'set'):
        return t[1][0] not in SC
    if t[0] == 'dict':
        return t[2][0] not in SC
    return False


def scalar_elems(t):
    return t[0] in ('list', 'set') and t[1][0] in ('str', 'int', 'float', 'bool')


def classify(e, selfn, memon):
    """-> (kind, field or None, has_memo)"""
    if isinstance(e, ast.Attribute) and isinstance(e.value, ast.Name) and e.value.id == selfn:
        return ('self', e.attr, False)
    if isinstance(e, (ast.List, ast.Tuple, ast.Set)) and not e.elts:
        return ('empty', None, False)
    if isinstance(e, ast.Dict) and not e.keys:
        return ('empty', None, False)
    if isinstance(e, ast.Constant):
        return ('const', None, False)
    if isinstance(e, ast.Call):
        fn = e.func
        if isinstance(fn, ast.Name) and fn.id in ('list', 'dict', 'set') and not e.args and not e.keywords:
            return ('empty', None, False)
        if isinstance(fn, ast.Attribute) and isinstance(fn.value, ast.Name) and fn.value.id == 'copy' \
                and fn.attr == 'deepcopy' and e.args:
            inner = classify(e.args[0], selfn, memon)
            has_memo = (len(e.args) > 1 and isinstance(e.args[1], ast.Name) and e.args[1].id == memon) \
                or any(k.arg == 'memo' and isinstance(k.value, ast.Name) and k.value.id == memon
                       for k in e.keywords)
            if inner[0] == 'self':
                return ('deep', inner[1], has_memo)
            return ('deep-other', stmt_text(e.args[0]), has_memo)
        shallow_src = None
        if isinstance(fn, ast.Name) and fn.id in ('list', 'dict', 'set', 'tuple', 'sorted') and len(e.args) == 1:
            shallow_src = e.args[0]
        elif isinstance(fn, ast.Attribute) and isinstance(fn.value, ast.Name) and fn.value.id == 'copy' \
                and fn.attr == 'copy' and e.args:
            shallow_src = e.args[0]
        elif isinstance(fn, ast.Attribute) and fn.attr == 'copy' and not e.args:
            shallow_src = fn.value
        if shallow_src is not None:
            inner = classify(shallow_src, selfn, memon)
            if inner[0] == 'self':
                return ('shallow', inner[1], False)
    if isinstance(e, ast.Subscript) and isinstance(e.slice, ast.Slice):
        inner = classify(e.value, selfn, memon)
        if inner[0] == 'self':
            return ('shallow', inner[1], False)
    if isinstance(e, (ast.ListComp, ast.SetComp)) and len(e.generators) == 1:
        g = e.generators[0]
        inner = classify(g.iter, selfn, memon)
        if inner[0] == 'self' and isinstance(e.elt, ast.Name) and isinstance(g.target, ast.Name) \
                and e.elt.id == g.target.id:
            return ('shallow', inner[1], False)
    if isinstance(e, ast.IfExp):
        a = classify(e.body, selfn, memon)
        b = classify(e.orelse, selfn, memon)
        # `deepcopy(self.F) if self.F is not None else None`
        if a[0] in ('deep', 'shallow', 'self') and b[0] in ('const', 'empty'):
            return a
        if b[0] in ('deep', 'shallow', 'self') and a[0] in ('const', 'empty'):
            return b
        # two ways of copying the same field, chosen by a test: as independent as the weaker of the two
        if a[0] in ('deep', 'shallow', 'self') and b[0] in ('deep', 'shallow', 'self') and a[1] == b[1]:
            rank = {'self': 0, 'shallow': 1, 'deep': 2}
            return a if rank[a[0]] <= rank[b[0]] else b
    return ('other', stmt_text(e), False)


def _foreign_guard(f, stmt, F, selfn):
    """innermost enclosing `if` of the assignment whose test does not mention self.F (None when unguarded, when the
    guard tests the copied field itself, or when the other branch assigns the field too)."""
    if not isinstance(stmt, ast.Assign):
        return None
    pm = {}
    for n in ast.walk(f.node):
        for ch in ast.iter_child_nodes(n):
            pm[id(ch)] = n
    cur = stmt
    while id(cur) in pm:
        par = pm[id(cur)]
        if isinstance(par, ast.If):
            mentions = any(isinstance(x, ast.Attribute) and x.attr == F for x in ast.walk(par.test))
            memo_test = any(isinstance(x, ast.Call) and isinstance(x.func, ast.Name) and x.func.id == 'id'
                            for x in ast.walk(par.test))
            in_body = any(cur is s_ or any(y is cur for y in ast.walk(s_)) for s_ in par.body)
            other = par.orelse if in_body else par.body
            other_assigns = any(isinstance(y, ast.Assign) and any(
                isinstance(t, ast.Attribute) and t.attr == F for t in y.targets) for s_ in other for y in ast.walk(s_))
            if not mentions and not memo_test and not other_assigns:
                return par
        if isinstance(par, (ast.For, ast.While)):
            return None
        cur = par
    return None


def _memo_index(e, memon):
    """memo[id(V)] -> V name"""
    if isinstance(e, ast.Subscript) and isinstance(e.value, ast.Name) and e.value.id == memon:
        k = e.slice
        if isinstance(k, ast.Call) and isinstance(k.func, ast.Name) and k.func.id == 'id' and k.args \
                and isinstance(k.args[0], ast.Name):
            return k.args[0].id
    return None


def run(ctx) -> list[Inst]:
    prog = ctx.prog
    insts = []
    node_empty_relations = []
    info = {}
    for cname in CLASSES:
        c = prog.cls(cname)
        f = c.methods.get('__deepcopy__')
        if f is None:
            raise AnalysisError(f'{cname}.__deepcopy__ not found (anchor vanished)')
        rel = f.module.relpath
        # (f) the copy is built through the class's constructor: a __post_init__ / __init__ epilogue that DERIVES or
        # normalises fields (fills a default for None, recomputes a cache from the constructor arguments) runs on the
        # copy too, with the arguments the copy passes - the copy then differs from an original whose field was set or
        # cleared later
        pi = c.methods.get('__post_init__')
        if pi is not None:
            sn_ = pi.self_name or 'self'
            for n in own_nodes(pi.node):
                if isinstance(n, (ast.Assign, ast.AugAssign, ast.AnnAssign)):
                    tgs = n.targets if isinstance(n, ast.Assign) else [n.target]
                    for tg in tgs:
                        if isinstance(tg, ast.Attribute) and isinstance(tg.value, ast.Name) and tg.value.id == sn_ \
                                and tg.attr in c.fields:
                            insts.append(Inst(
                                RULE, pi.short, f'(f) {cname}.{tg.attr} is not re-derived when the copy is constructed', 'violation',
                                msg=(f"'{stmt_text(n, 60)}' in __post_init__ rewrites {tg.attr}; {cname}.__deepcopy__ builds the "
                                     f"copy through the constructor, so the copy's {tg.attr} is what __post_init__ makes of "
                                     f"the constructor arguments, not what the original holds at copy time"),
                                file=pi.module.relpath, line=n.lineno, props=PROPS))
        if len(f.params) < 2:
            raise AnalysisError(f'{cname}.__deepcopy__ has no memo parameter')
        selfn, memon = f.params[0], f.params[1]
        cfg = ctx.cfg(f)
        # constructor call
        ctor = None
        copied = None
        for n in own_nodes(f.node):
            if isinstance(n, ast.Assign) and len(n.targets) == 1 and isinstance(n.targets[0], ast.Name) \
                    and isinstance(n.value, ast.Call) and isinstance(n.value.func, ast.Name) \
                    and n.value.func.id == cname:
                ctor, copied = n.value, n.targets[0].id
                break
        shallow_start = None
        if ctor is None:
            # `x = copy.copy(self)`: every field starts as THE SAME object as in the original
            for n in own_nodes(f.node):
                if isinstance(n, ast.Assign) and len(n.targets) == 1 and isinstance(n.targets[0], ast.Name) \
                        and isinstance(n.value, ast.Call) and isinstance(n.value.func, ast.Attribute) \
                        and isinstance(n.value.func.value, ast.Name) and n.value.func.value.id == 'copy' \
                        and n.value.func.attr == 'copy' and n.value.args \
                        and isinstance(n.value.args[0], ast.Name) and n.value.args[0].id == selfn:
                    ctor, copied, shallow_start = n.value, n.targets[0].id, n
                    break
        replace_kw = {}
        if ctor is None:
            # `x = dataclasses.replace(self, f=..)`: a shallow copy too, except for the fields named in the call
            for n in own_nodes(f.node):
                if isinstance(n, ast.Assign) and len(n.targets) == 1 and isinstance(n.targets[0], ast.Name) \
                        and isinstance(n.value, ast.Call) and n.value.args \
                        and isinstance(n.value.args[0], ast.Name) and n.value.args[0].id == selfn \
                        and ((isinstance(n.value.func, ast.Name) and n.value.func.id == 'replace') or
                             (isinstance(n.value.func, ast.Attribute) and n.value.func.attr == 'replace'
                              and isinstance(n.value.func.value, ast.Name) and n.value.func.value.id == 'dataclasses')):
                    ctor, copied, shallow_start = n.value, n.targets[0].id, n
                    replace_kw = {k.arg: k.value for k in n.value.keywords if k.arg}
                    break
        if ctor is None:
            insts.append(Inst(RULE, f.short, 'constructor call of the copy', 'unproven',
                              msg='no `x = %s(...)` found' % cname, file=rel, line=f.node.lineno,
                              props=PROPS))
            continue
        # field order / ctor parameter -> field
        fields = [fi for fi in c.fields.values() if fi.origin in ('dataclass', 'init')]
        values: dict[str, tuple] = {}       # field -> (expr, ast stmt)
        if shallow_start is not None:
            for fi in fields:
                e_ = ast.Attribute(value=ast.Name(id=selfn, ctx=ast.Load()), attr=fi.name, ctx=ast.Load())
                ast.copy_location(e_, shallow_start)
                ast.fix_missing_locations(e_)
                values[fi.name] = (e_, shallow_start)
            for k_, v_ in replace_kw.items():
                values[k_] = (v_, shallow_start)
        elif c.is_dataclass:
            order = [fi.name for fi in c.fields.values() if fi.origin == 'dataclass']
            for i, a in enumerate(ctor.args):
                if i < len(order):
                    values[order[i]] = (a, ctor)
            for kw in ctor.keywords:
                if kw.arg:
                    values[kw.arg] = (kw.value, ctor)
        else:
            init = c.methods.get('__init__')
            p2f = {}
            if init is not None:
                for n in own_nodes(init.node):
                    if isinstance(n, (ast.Assign, ast.AnnAssign)):
                        tg = n.targets[0] if isinstance(n, ast.Assign) else n.target
                        if isinstance(tg, ast.Attribute) and isinstance(tg.value, ast.Name) \
                                and tg.value.id == init.params[0] and isinstance(n.value, ast.Name) \
                                and n.value.id in init.params:
                            p2f[n.value.id] = tg.attr
                iparams = init.params[1:]
                for i, a in enumerate(ctor.args):
                    if i < len(iparams) and iparams[i] in p2f:
                        values[p2f[iparams[i]]] = (a, ctor)
                for kw in ctor.keywords:
                    if kw.arg in p2f:
                        values[p2f[kw.arg]] = (kw.value, ctor)
        # later assignments copied.F = ...
        appended_in_loop = {}   # field -> (loop iter field, value expr)
        mutated_fields = set()  # copied.F.<method>(..) / copied.F[..] = ..  in a form not interpreted below
        alt_values = {}         # field -> every (value, stmt) assigned to copied.F (branches)
        for n in own_nodes(f.node):
            if isinstance(n, ast.Assign):
                for tg in n.targets:
                    if isinstance(tg, ast.Attribute) and isinstance(tg.value, ast.Name) and tg.value.id == copied:
                        values[tg.attr] = (n.value, n)
                        alt_values.setdefault(tg.attr, []).append((n.value, n))
                    if isinstance(tg, ast.Subscript) and isinstance(tg.value, ast.Attribute) \
                            and isinstance(tg.value.value, ast.Name) and tg.value.value.id == copied:
                        mutated_fields.add(tg.value.attr)
            if isinstance(n, ast.Call) and isinstance(n.func, ast.Attribute) and isinstance(n.func.value, ast.Attribute) \
                    and isinstance(n.func.value.value, ast.Name) and n.func.value.value.id == copied:
                F_ = n.func.value.attr
                if n.func.attr == 'extend' and len(n.args) == 1 and isinstance(n.args[0], (ast.GeneratorExp, ast.ListComp)) \
                        and F_ not in values:
                    # the constructor's fresh list filled in one go: copied.F.extend(deepcopy(x, memo) for x in self.F)
                    lc = ast.ListComp(elt=n.args[0].elt, generators=n.args[0].generators)
                    ast.copy_location(lc, n.args[0])
                    ast.fix_missing_locations(lc)
                    values[F_] = (lc, n)
                elif n.func.attr in ('append', 'extend', 'update', 'add', 'insert', 'setdefault'):
                    mutated_fields.add(F_)
            if isinstance(n, ast.For) and isinstance(n.target, ast.Name):
                itc = classify(n.iter, selfn, memon)
                if itc[0] == 'self':
                    lv = n.target.id
                    local_copy = {}
                    for b in ast.walk(n):
                        if isinstance(b, ast.Assign) and len(b.targets) == 1 and isinstance(b.targets[0], ast.Name) \
                                and isinstance(b.value, ast.Call):
                            local_copy[b.targets[0].id] = b.value
                    for b in ast.walk(n):
                        if isinstance(b, ast.Call) and isinstance(b.func, ast.Attribute) and b.func.attr == 'append' \
                                and isinstance(b.func.value, ast.Attribute) and isinstance(b.func.value.value, ast.Name) \
                                and b.func.value.value.id == copied and b.args:
                            arg = b.args[0]
                            if isinstance(arg, ast.Name) and arg.id in local_copy:
                                arg = local_copy[arg.id]
                            ok = (isinstance(arg, ast.Call) and isinstance(arg.func, ast.Attribute)
                                  and arg.func.attr == 'deepcopy' and arg.args
                                  and isinstance(arg.args[0], ast.Name) and arg.args[0].id == lv
                                  and len(arg.args) > 1 and isinstance(arg.args[1], ast.Name)
                                  and arg.args[1].id == memon)
                            appended_in_loop[b.func.value.attr] = (itc[1], ok, b)
        info[cname] = (f, values, selfn, memon, copied)
        # a branch that takes the field from ANOTHER field of the copy (copied.F = copied.G[..]) instead of from
        # self.F: the copy's F then follows G, not the original's F
        for F_, alts in alt_values.items():
            for (v_, st_) in alts:
                mentions_copy = any(isinstance(x, ast.Name) and x.id == copied for x in ast.walk(v_))
                from_self = any(isinstance(x, ast.Attribute) and isinstance(x.value, ast.Name) and x.value.id == selfn
                                and x.attr == F_ for x in ast.walk(v_))
                if mentions_copy and not from_self:
                    src = next((x.attr for x in ast.walk(v_) if isinstance(x, ast.Attribute) and isinstance(x.value, ast.Name)
                                and x.value.id == copied), '?')
                    insts.append(Inst(
                        RULE, f.short, f'{cname}.{F_} in the copy is taken from the original\'s {F_}', 'violation',
                        msg=(f"'{stmt_text(st_, 80)}' fills {F_} of the copy from the copy's own {src}, not from "
                             f"{selfn}.{F_}: when {selfn}.{F_} was re-bound after the object was built (node.ttc = ..., "
                             f"node.tags = ...) the copy silently reverts to what {src} holds"),
                        file=rel, line=st_.lineno, props=PROPS))
        # ---------------------------------------------------------------- (a) (b) (d)
        seen_exprs = {}
        for fi in fields:
            F = fi.name
            t = fi.type
            val = values.get(F)
            construct = f'{cname}.{F} in the copy'
            props = PROPS + (('C09',) if cname == 'AttackGraph' else ())
            if val is None and isinstance(ctor, ast.Call) and any(k.arg is None for k in ctor.keywords):
                insts.append(Inst(RULE, f.short, construct, 'unproven',
                                  msg='the constructor receives its arguments through **mapping: field not traced',
                                  file=rel, line=ctor.lineno, props=props))
                continue
            if val is None and F in mutated_fields and F not in appended_in_loop:
                insts.append(Inst(RULE, f.short, construct, 'unproven',
                                  msg=f'{copied}.{F} is filled in place in a form this rule does not interpret',
                                  file=rel, line=ctor.lineno, props=props))
                continue
            if val is None:
                insts.append(Inst(
                    RULE, f.short, construct, 'violation',
                    msg=(f'{cname}.{F} is never given a value in the copy (the copy keeps the default / '
                         f'fresh-object value, the original may differ)'),
                    file=rel, line=ctor.lineno, props=props))
                continue
            kind, src, has_memo = classify(val[0], selfn, memon)
            line = val[0].lineno
            # the field is given its value only under a test of something else
            foreign = _foreign_guard(f, val[1], F, selfn)
            if foreign is not None:
                insts.append(Inst(
                    RULE, f.short, construct, 'violation',
                    msg=(f"'{stmt_text(val[1], 70)}' runs only 'if {stmt_text(foreign.test, 60)}', a test that does not "
                         f"look at {F}: when it fails the copy keeps an empty / default {F} although the original has "
                         f"content"),
                    file=rel, line=line, props=props))
                continue
            if is_container(t):
                if kind == 'empty':
                    if F in appended_in_loop:
                        itf, ok, b = appended_in_loop[F]
                        if itf == F and ok:
                            insts.append(Inst(RULE, f.short, construct, 'ok',
                                              msg='rebuilt from deep copies (memo) of the original elements',
                                              file=rel, line=line, props=props))
                        else:
                            insts.append(Inst(
                                RULE, f.short, construct, 'violation',
                                msg=(f"'{stmt_text(b)}' does not append copy.deepcopy(<element of self.{F}>, memo)"
                                     f" for every element of self.{F}"),
                                file=rel, line=b.lineno, props=props))
                    elif cname == 'AttackGraphNode' and holds_objects(t):
                        node_empty_relations.append(F)
                        insts.append(Inst(RULE, f.short, construct, 'ok',
                                          msg='relation left empty by the node copy (re-linked by the graph copy: (c))',
                                          file=rel, line=line, props=props))
                    elif cname == 'AttackGraphNode' or cname == 'Attacker':
                        insts.append(Inst(
                            RULE, f.short, construct, 'violation',
                            msg=f'{cname}.{F} is set to an empty container in the copy: content of the original lost',
                            file=rel, line=line, props=props))
                    else:
                        insts.append(Inst(
                            RULE, f.short, construct, 'violation',
                            msg=f'{cname}.{F} stays empty in the copy',
                            file=rel, line=line, props=props))
                elif kind == 'deep' and src == F:
                    if holds_objects(t) and not has_memo:
                        insts.append(Inst(
                            RULE, f.short, construct, 'violation',
                            msg=(f"'{stmt_text(val[0])}' copies a container of graph objects without the memo: "
                                 f"the copy refers to duplicates instead of the copied nodes/attackers"),
                            file=rel, line=line, props=props))
                    elif may_hold_objects(t) and not has_memo:
                        insts.append(Inst(
                            RULE, f.short, construct, 'violation',
                            msg=(f"'{stmt_text(val[0], 80)}' deep-copies free-form content without the memo of the "
                                 f"enclosing copy: a node / attacker referenced from {F} is duplicated into an "
                                 f"orphan instead of being mapped to its copy in the copied graph (internal "
                                 f"references leave the copy)"),
                            file=rel, line=line, props=props))
                    else:
                        insts.append(Inst(RULE, f.short, construct, 'ok', msg='deep copy', file=rel,
                                          line=line, props=props))
                elif kind == 'shallow' and src == F and scalar_elems(t):
                    insts.append(Inst(RULE, f.short, construct, 'ok',
                                      msg='shallow copy of a container of immutable scalars', file=rel,
                                      line=line, props=props))
                elif kind == 'self':
                    insts.append(Inst(
                        RULE, f.short, construct, 'violation',
                        msg=(f"the copy receives self.{src} by reference: original and copy share one mutable "
                             f"{t[0]} (a later change to either is visible in the other)"),
                        file=rel, line=line, props=props))
                elif kind == 'shallow':
                    insts.append(Inst(
                        RULE, f.short, construct, 'violation',
                        msg=(f"'{stmt_text(val[0])}' is a shallow copy of a container with mutable elements: "
                             f"nested data stays shared"),
                        file=rel, line=line, props=props))
                elif kind == 'deep' and src != F:
                    insts.append(Inst(
                        RULE, f.short, construct, 'violation',
                        msg=f'{cname}.{F} is copied from self.{src} (wrong field)',
                        file=rel, line=line, props=props))
                else:
                    insts.append(Inst(RULE, f.short, construct, 'unproven',
                                      msg=f"unrecognised source '{stmt_text(val[0])}'", file=rel,
                                      line=line, props=props))
                key = ast.dump(val[0])
                if kind in ('self', 'other') and key in seen_exprs:
                    insts.append(Inst(
                        RULE, f.short, f'{cname}.{F} and {cname}.{seen_exprs[key]} share one object', 'violation',
                        msg=f"'{stmt_text(val[0])}' is stored into two container fields", file=rel, line=line,
                        props=props))
                seen_exprs[key] = F
            else:
                # scalar / shared field
                if kind == 'self' and src == F:
                    insts.append(Inst(RULE, f.short, construct, 'ok', file=rel, line=line, props=props,
                                      msg='shared by specification' if F in SHARED else 'scalar copied'))
                elif kind == 'self':
                    insts.append(Inst(
                        RULE, f.short, construct, 'violation',
                        msg=f'{cname}.{F} receives self.{src}: arguments swapped or wrong field',
                        file=rel, line=line, props=props))
                elif kind in ('deep', 'shallow') and src == F and F not in SHARED:
                    insts.append(Inst(RULE, f.short, construct, 'ok', msg='copied', file=rel, line=line,
                                      props=props))
                elif kind in ('deep', 'shallow') and F in SHARED:
                    insts.append(Inst(
                        RULE, f.short, construct, 'violation',
                        msg=f'{cname}.{F} must be shared with the original (model / language), not copied',
                        file=rel, line=line, props=props))
                elif kind in ('const', 'empty'):
                    insts.append(Inst(
                        RULE, f.short, construct, 'violation',
                        msg=f"{cname}.{F} is set to the constant '{stmt_text(val[0])}' instead of self.{F}",
                        file=rel, line=line, props=props))
                else:
                    insts.append(Inst(RULE, f.short, construct, 'unproven',
                                      msg=f"unrecognised source '{stmt_text(val[0])}'", file=rel, line=line,
                                      props=props))
        # ---------------------------------------------------------------- (e) memo protocol
        has_lookup = has_store = False
        tested = returned = False
        from_get = {a.targets[0].id for a in own_nodes(f.node) if isinstance(a, ast.Assign) and len(a.targets) == 1
                    and isinstance(a.targets[0], ast.Name) and isinstance(a.value, ast.Call)
                    and isinstance(a.value.func, ast.Attribute) and a.value.func.attr == 'get'
                    and isinstance(a.value.func.value, ast.Name) and a.value.func.value.id == memon}
        for n in own_nodes(f.node):
            if isinstance(n, (ast.If, ast.IfExp)):
                if any(isinstance(t, ast.Name) and t.id in from_get for t in ast.walk(n.test)):
                    tested = True       # `hit = memo.get(id(self), sentinel); if hit is not sentinel: return hit`
                for t in ast.walk(n.test):
                    # `id(self) in memo` / `id(self) not in memo` / `memo.get(id(self))`
                    if isinstance(t, ast.Compare) and isinstance(t.ops[0], (ast.In, ast.NotIn)) \
                            and isinstance(t.comparators[0], ast.Name) and t.comparators[0].id == memon \
                            and isinstance(t.left, ast.Call) and isinstance(t.left.func, ast.Name) \
                            and t.left.func.id == 'id':
                        tested = True
                    if isinstance(t, ast.Call) and isinstance(t.func, ast.Attribute) and t.func.attr == 'get' \
                            and isinstance(t.func.value, ast.Name) and t.func.value.id == memon:
                        tested = True
            if isinstance(n, ast.Try) and any('KeyError' in stmt_text(h.type) for h in n.handlers if h.type is not None) \
                    and any(isinstance(b, ast.Return) and b.value is not None and _memo_index(b.value, memon) == selfn
                            for b in n.body):
                tested = True        # try: return memo[id(self)] / except KeyError: the lookup is the test
            if isinstance(n, ast.Return) and n.value is not None and (
                    _memo_index(n.value, memon) == selfn or
                    (isinstance(n.value, ast.Name) and any(
                        isinstance(a, (ast.Assign, ast.NamedExpr)) and
                        isinstance(getattr(a, 'value', None), ast.Call) and isinstance(a.value.func, ast.Attribute)
                        and a.value.func.attr == 'get' and isinstance(a.value.func.value, ast.Name)
                        and a.value.func.value.id == memon for a in own_nodes(f.node)))):
                returned = True
            if isinstance(n, ast.Assign) and any(_memo_index(t, memon) == selfn for t in n.targets):
                has_store = True
        has_lookup = tested and returned
        if cname != 'AttackGraph':
            insts.append(Inst(
                RULE, f.short, '(e) memo consulted and copy registered under id(self)',
                'ok' if (has_lookup and has_store) else 'violation',
                msg='' if (has_lookup and has_store) else (
                    f'{f.short} does not ' + ('consult the memo' if not has_lookup else 'register its copy in the memo')
                    + ': shared objects are duplicated and the graph copy cannot re-link them'),
                file=rel, line=f.node.lineno, props=PROPS + ('C09',)))
    # -------------------------------------------------------------------- (c) relinks
    if 'AttackGraph' in info:
        f, values, selfn, memon, copied = info['AttackGraph']
        rel = f.module.relpath
        relinked = {}
        cfgf = ctx.cfg(f)
        Rf = ctx.R(f)
        for n in own_nodes(f.node):
            if not isinstance(n, ast.For):
                continue
            hnode = cfgf.node_of(n)
            # which loop-target names range over the ORIGINAL nodes (self.nodes[*]) and which over copies
            names = []
            cfgf._targets(n.target, names)
            orig, copies = set(), set()
            for nm in names:
                idx = Rf._target_index(n.target, nm)
                ps = Rf._iter_elem_paths(n.iter, idx, hnode)
                if ps and all(p.root == ('param', selfn) and p.steps == ('nodes', '[*]') for p in ps):
                    orig.add(nm)
                elif ps and all(p.root[0] == 'fresh' or (p.steps and p.steps[-2:] == ('nodes', '[*]')) for p in ps):
                    copies.add(nm)
            if not orig:
                continue
            # the loop has to cover EVERY original node: a local list filled under a condition (`if id(node) not in memo:
            # new_nodes.append(node)`) leaves the others - nodes that were copied earlier through another reference -
            # with the empty relations the node copy starts from
            filtered = None
            if isinstance(n.iter, ast.Name):
                pmap = {}
                for x in ast.walk(f.node):
                    for ch in ast.iter_child_nodes(x):
                        pmap[id(ch)] = x
                for x in own_nodes(f.node):
                    if isinstance(x, ast.Call) and isinstance(x.func, ast.Attribute) and x.func.attr == 'append' \
                            and isinstance(x.func.value, ast.Name) and x.func.value.id == n.iter.id:
                        cur = x
                        while id(cur) in pmap:
                            cur = pmap[id(cur)]
                            if isinstance(cur, ast.If):
                                filtered = cur
                                break
                            if isinstance(cur, (ast.For, ast.While, ast.FunctionDef)):
                                break
                if isinstance(n.iter, ast.Name):
                    for x in own_nodes(f.node):
                        if isinstance(x, ast.Assign) and len(x.targets) == 1 and isinstance(x.targets[0], ast.Name) \
                                and x.targets[0].id == n.iter.id and isinstance(x.value, ast.ListComp) and x.value.generators[0].ifs:
                            filtered = x.value
            if filtered is not None:
                test_txt = stmt_text(filtered.test if isinstance(filtered, ast.If) else filtered.generators[0].ifs[0], 60)
                insts.append(Inst(
                    RULE, f.short, '(c) the re-link loop covers every node of the original', 'violation',
                    msg=(f"'for {stmt_text(n.target)} in {n.iter.id}' re-links only the nodes selected by '{test_txt}': a node "
                         f"that is already in the memo (the graph is copied as part of a bigger object, a node's extras "
                         f"refer to another node) keeps the empty parents / children / compromised_by of its bare copy"),
                    file=rel, line=n.lineno, props=PROPS + ('C09',)))
            for b in ast.walk(n):
                if isinstance(b, ast.Assign) and len(b.targets) == 1 and isinstance(b.targets[0], ast.Attribute):
                    tg = b.targets[0]
                    lv = None
                    mi = _memo_index(tg.value, memon)
                    if mi in orig:
                        lv = mi
                    elif isinstance(tg.value, ast.Name) and tg.value.id in copies and len(orig) == 1:
                        lv = next(iter(orig))      # paired copy: zip(self.nodes, copied.nodes)
                    if lv is None:
                        continue
                    v = b.value
                    good = (isinstance(v, ast.Call) and isinstance(v.func, ast.Attribute)
                            and v.func.attr == 'deepcopy' and v.args
                            and isinstance(v.args[0], ast.Attribute) and v.args[0].attr == tg.attr
                            and isinstance(v.args[0].value, ast.Name) and v.args[0].value.id == lv
                            and ((len(v.args) > 1 and isinstance(v.args[1], ast.Name) and v.args[1].id == memon)
                                 or any(k.arg == 'memo' for k in v.keywords)))
                    if not good and isinstance(v, ast.ListComp) and len(v.generators) == 1:
                        g = v.generators[0]
                        good = (isinstance(g.iter, ast.Attribute) and g.iter.attr == tg.attr
                                and isinstance(g.iter.value, ast.Name) and g.iter.value.id == lv
                                and isinstance(g.target, ast.Name)
                                and _memo_index(v.elt, memon) == g.target.id)
                    if tg.attr not in relinked or good:
                        relinked[tg.attr] = (good, b)
        for F in node_empty_relations:
            props = PROPS + ('C09',) + (('C11',) if F == 'compromised_by' else ())
            construct = f'(c) AttackGraphNode.{F} re-linked by the graph copy'
            pm_ = {}
            for x_ in ast.walk(f.node):
                for ch_ in ast.iter_child_nodes(x_):
                    pm_[id(ch_)] = x_

            def in_while(b):
                cur_ = pm_.get(id(b))
                while cur_ is not None and cur_ is not f.node:
                    if isinstance(cur_, ast.While):
                        return True
                    if isinstance(cur_, ast.For):
                        return False
                    cur_ = pm_.get(id(cur_))
                return False
            elsewhere = [b for b in own_nodes(f.node) if isinstance(b, ast.Assign) and len(b.targets) == 1 and in_while(b)
                         and isinstance(b.targets[0], ast.Attribute) and b.targets[0].attr == F
                         and any(isinstance(x, ast.Attribute) and x.attr == F for x in ast.walk(b.value))
                         and 'memo' in stmt_text(b.value, 400)]
            if F not in relinked and elsewhere:
                insts.append(Inst(RULE, f.short, construct, 'unproven',
                                  msg=(f"'{stmt_text(elsewhere[0], 70)}' rebuilds {F} through the memo, but not in a loop over "
                                       f"the original nodes of the form this rule reads (worklist / alias of the copy)"),
                                  file=rel, line=elsewhere[0].lineno, props=props))
            elif F not in relinked:
                insts.append(Inst(
                    RULE, f.short, construct, 'violation',
                    msg=(f'the node copy leaves {F} empty and AttackGraph.__deepcopy__ never re-establishes it '
                         f'from the memo: the copied graph loses these references'),
                    file=rel, line=f.node.lineno, props=props))
            elif not relinked[F][0]:
                insts.append(Inst(
                    RULE, f.short, construct, 'violation',
                    msg=(f"'{stmt_text(relinked[F][1])}' does not rebuild {F} from memo-mapped copies of the "
                         f"same node's {F}"),
                    file=rel, line=relinked[F][1].lineno, props=props))
            else:
                insts.append(Inst(RULE, f.short, construct, 'ok', file=rel, line=relinked[F][1].lineno,
                                  props=props))
    return insts
