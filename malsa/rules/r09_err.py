"""R9 ERR - errors surface.

(a) MalCompiler.compile: the parse tree reaches the visitor only if syntax errors make the call
    fail.  Accepted idioms (closed list):
      1. an error listener is added to the parser before the start rule is invoked, and the
         ``syntaxError`` method of the listener's class raises on every path;
      2. a bail-out error strategy is installed (``parser._errHandler = BailErrorStrategy()``);
      3. ``parser.getNumberOfSyntaxErrors()`` / ``parser._syntaxErrors`` is tested after the parse
         and the failing branch raises, dominating the visit/return.
    Included files must go through the same entry point: malParser is instantiated nowhere else,
    and the visitor's include handling calls MalCompiler.compile.
(b) LanguageGraph._generate_graph / process_step_expression: every lookup of a *referenced
    declaration* (super asset, association ends, sub-type asset, target asset, target step) is
    followed, before any use of the result, by a test whose failing branch raises.
"""
from __future__ import annotations

import ast

from ..core import own_nodes, stmt_text, AnalysisError
from ..report import Inst
from .r04_key import _always_raises

RULE = 'R9'


def _method_always_raises(ctx, f) -> bool:
    cfg = ctx.cfg(f)
    # no path from entry reaches the normal exit
    return not cfg.reaches_exit(cfg.entry)


def run(ctx) -> list[Inst]:
    prog = ctx.prog
    insts = []
    # ------------------------------------------------------------------ (a)
    compile_f = prog.func('MalCompiler.compile')
    props = ('C17',)
    cls = prog.cls('MalCompiler')
    # installer helpers anywhere in the package: h(.., recognizer, .., listener, ..) calling
    # recognizer.addErrorListener(listener)
    installers = {}
    for g in prog.all_funcs():
        for n in own_nodes(g.node):
            allp = [a.arg for a in g.node.args.posonlyargs + g.node.args.args + g.node.args.kwonlyargs]
            if isinstance(n, ast.Call) and isinstance(n.func, ast.Attribute) and n.func.attr == 'addErrorListener' \
                    and isinstance(n.func.value, ast.Name) and n.func.value.id in allp and n.args \
                    and isinstance(n.args[0], ast.Name) and n.args[0].id in allp:
                installers[g.name] = (g, n.func.value.id, n.args[0].id)

    def find_ctor(fn, name):
        for n in own_nodes(fn.node):
            if isinstance(n, ast.Call) and isinstance(n.func, ast.Name) and n.func.id == name:
                return n
        return None

    f = None
    for m in cls.methods.values():
        if find_ctor(m, 'malParser') is not None:
            f = m
    if f is None:
        # the parser is built somewhere else in the package (a helper class, a chain of lazily built stages): the
        # single-function idioms below do not apply.  Nothing is decided for the listener clauses - unless no parser
        # is constructed anywhere at all, which is a vanished anchor.
        elsewhere = [g for g in prog.all_funcs() if find_ctor(g, 'malParser') is not None]
        if not elsewhere:
            # the recogniser classes handed to a factory as VALUES (`_strict(malParser, tokens, ..)`)?
            by_value = [g for g in prog.all_funcs() if not g.module.generated and any(
                isinstance(x, ast.Name) and x.id == 'malParser' and isinstance(x.ctx, ast.Load) for x in ast.walk(g.node))]
            if not by_value:
                raise AnalysisError('malParser is not constructed anywhere in the package (anchor vanished)')
            g = by_value[0]
            insts.append(Inst(RULE, compile_f.short, '(a) syntax errors make compile() fail', 'unproven',
                              msg=(f'{g.short} hands the parser class to a factory as a value: the listener / strategy idioms '
                                   f'are decided for a parser constructed by name only'),
                              file=g.module.relpath, line=g.node.lineno, props=props))
            insts += _lookups(ctx)
            return insts
        g = elsewhere[0]
        insts.append(Inst(RULE, compile_f.short, '(a) syntax errors make compile() fail', 'unproven',
                          msg=(f'the parser is constructed in {g.short}, outside MalCompiler: the listener / strategy '
                               f'idioms are decided for one function only'),
                          file=g.module.relpath, line=g.node.lineno, props=props))
        insts += _lookups(ctx)
        return insts
    cfg = ctx.cfg(f)
    rel = f.module.relpath
    pm = {}
    for n in ast.walk(f.node):
        for ch in ast.iter_child_nodes(n):
            pm[id(ch)] = n

    def bound_var(ctor):
        """(variable the constructed recognizer ends up in, the assignment statement)"""
        cur = ctor
        while id(cur) in pm:
            cur = pm[id(cur)]
            if isinstance(cur, ast.Assign) and isinstance(cur.targets[0], ast.Name):
                return cur.targets[0].id, cur
            if isinstance(cur, ast.stmt):
                break
        return None, None

    def installs_on(ctor, var, assign):
        """listener expressions installed on the recognizer (direct calls or installer helpers)"""
        found = []
        for n in own_nodes(f.node):
            if not isinstance(n, ast.Call):
                continue
            if isinstance(n.func, ast.Attribute) and n.func.attr == 'addErrorListener' and n.args \
                    and isinstance(n.func.value, ast.Name) and n.func.value.id == var:
                found.append((n.args[0], cfg.owner(n)))
            nm = n.func.attr if isinstance(n.func, ast.Attribute) else (n.func.id if isinstance(n.func, ast.Name) else '')
            if nm in installers:
                g, rname, lname = installers[nm]
                off = 1 if g.is_method and not g.is_staticmethod and isinstance(n.func, ast.Attribute) else 0
                if g.is_staticmethod:
                    off = 0
                args = list(n.args)
                pos = [a.arg for a in g.node.args.posonlyargs + g.node.args.args]

                def actual(pname):
                    if pname in pos and 0 <= pos.index(pname) - off < len(args):
                        return args[pos.index(pname) - off]
                    return next((k.value for k in n.keywords if k.arg == pname), None)
                ra, la = actual(rname), actual(lname)
                if ra is None or la is None:
                    continue
                if ra is ctor or (isinstance(ra, ast.Name) and ra.id == var) or any(x is ctor for x in ast.walk(ra)):
                    found.append((la, cfg.owner(n)))
        return found

    pctor = find_ctor(f, 'malParser')
    parser_var, passign = bound_var(pctor)
    _lc = find_ctor(f, 'malLexer')
    lexer_var_early = bound_var(_lc)[0] if _lc is not None else None
    parse_node = None
    for n in own_nodes(f.node):
        if isinstance(n, ast.Call) and isinstance(n.func, ast.Attribute) and not n.args and n.func.attr == 'mal' \
                and isinstance(n.func.value, ast.Name) and n.func.value.id == parser_var:
            parse_node = cfg.owner(n)
    # (a10) lexer and parser are per FILE: compile() is re-entered for every include while the including file's tree is
    # still being visited, and the visitor reads tokens through ctx.parser.getTokenStream().  A recogniser kept in a
    # field of the compiler and re-pointed at the next file pulls the token stream from under the outer visit
    for m_ in cls.methods.values():
        for n in own_nodes(m_.node):
            if isinstance(n, ast.Assign) and isinstance(n.targets[0], ast.Attribute) and isinstance(n.targets[0].value, ast.Name) \
                    and n.targets[0].value.id == (m_.params[0] if m_.params else 'self') and isinstance(n.value, ast.Call) \
                    and isinstance(n.value.func, ast.Name) and n.value.func.id in ('malParser', 'malLexer', 'CommonTokenStream'):
                insts.append(Inst(
                    RULE, m_.short, '(a) lexer / parser / token stream are built per file, not kept on the compiler', 'violation',
                    msg=(f"'{stmt_text(n, 70)}' keeps the {n.value.func.id} on the compiler object: an include compiled in the "
                         f"middle of the including file's visit re-points it, and what is left of the including file is "
                         f"classified against the tokens of the included one (or fails with an IndexError)"),
                    file=rel, line=n.lineno, props=props + ('C04',)))
    if parser_var is None or parse_node is None:
        insts.append(Inst(RULE, compile_f.short, '(a) syntax errors make compile() fail', 'unproven',
                          msg=f'{f.short}: the start rule is not invoked on a parser built in the same function',
                          file=rel, line=f.node.lineno, props=props))
        insts += _lookups(ctx)
        return insts
    idiom = None
    detail = ''
    weak = None        # (class, method): the installed listener's syntaxError can return normally
    for (lexpr, node) in installs_on(pctor, parser_var, passign):
        if not (cfg.dominates(node, parse_node) and node is not parse_node):
            detail = 'listener is added after/beside the parse call'
            continue
        cname = _class_of(ctx, f, lexpr, node)
        c = prog.classes.get(cname) if cname else None
        if c is None:
            detail = f"listener class of '{stmt_text(lexpr)}' not found in the package"
            continue
        m = prog.find_method(c.name, 'syntaxError')
        if m is None:
            detail = f'{c.name} has no syntaxError method (default: ignore)'
            continue
        antlr_raise = None
        for rz in own_nodes(m.node):
            if isinstance(rz, ast.Raise) and rz.exc is not None:
                ex = rz.exc
                if isinstance(ex, ast.Name) and ex.id in m.params:
                    antlr_raise = rz          # `raise e`: ANTLR's own RecognitionException object
                exn = ex.func if isinstance(ex, ast.Call) else ex
                if isinstance(exn, ast.Name) and exn.id in ('RecognitionException', 'NoViableAltException',
                                                            'InputMismatchException', 'FailedPredicateException',
                                                            'LexerNoViableAltException'):
                    antlr_raise = rz
        if antlr_raise is not None:
            insts.append(Inst(
                RULE, m.short, '(a) the listener raises an error the generated parser does not catch', 'violation',
                msg=(f"'{stmt_text(antlr_raise)}' raises ANTLR's own RecognitionException from the listener: every "
                     f"generated rule method catches exactly that type ('except RecognitionException as re') and goes "
                     f"into recovery, so the error only leaves the parser when it happens in the outermost rule - a "
                     f"file broken inside a nested rule compiles from what was recovered"),
                file=m.module.relpath, line=antlr_raise.lineno, props=props))
        if _method_always_raises(ctx, m):
            idiom = f'1: {c.name}.syntaxError always raises; listener installed before the start rule'
        else:
            detail = f'{c.name}.syntaxError can return normally (logs / counts only)'
            weak = (c, m)
    for n in own_nodes(f.node):
        # idiom 2
        if isinstance(n, ast.Assign) and isinstance(n.targets[0], ast.Attribute) \
                and n.targets[0].attr == '_errHandler' and isinstance(n.targets[0].value, ast.Name) \
                and n.targets[0].value.id == parser_var and isinstance(n.value, ast.Call) \
                and 'Bail' in stmt_text(n.value.func):
            if cfg.dominates(cfg.node_of(n), parse_node):
                idiom = '2: BailErrorStrategy installed before the start rule'
        # a hand-written strategy of the package in place of ANTLR's BailErrorStrategy: it has to stop ALL THREE
        # entry points of the default strategy - recover, recoverInline and sync (sync() deletes a stray token at a
        # block start / between loop items on its own and only tells a listener)
        if isinstance(n, ast.Assign) and isinstance(n.targets[0], ast.Attribute) \
                and n.targets[0].attr in ('_errHandler', 'errHandler') and isinstance(n.targets[0].value, ast.Name) \
                and n.targets[0].value.id == parser_var and isinstance(n.value, ast.Call) \
                and isinstance(n.value.func, ast.Name) and n.value.func.id in prog.classes:
            sc = prog.classes[n.value.func.id]
            have = {m_ for m_ in ('recover', 'recoverInline', 'sync') if m_ in sc.methods}
            missing = sorted({'recover', 'recoverInline', 'sync'} - have)
            parser_listener = any(True for _ in installs_on(pctor, parser_var, passign))
            if missing and not idiom and not parser_listener:
                insts.append(Inst(
                    RULE, f.short, f'(a) error strategy {sc.name} stops every repair of the token stream', 'violation',
                    msg=(f"{sc.name} overrides {sorted(have)} but not {missing}: the inherited "
                         f"DefaultErrorStrategy.{missing[0]}() still repairs the input by itself (sync() silently deletes a "
                         f"stray token and only reports it to a listener - and no raising listener is attached to the "
                         f"parser any more), so such a file compiles as if the token were not there"),
                    file=rel, line=n.lineno, props=props))
    # idiom 3
    for g in cfg.nodes:
        if g.kind == 'if':
            txt = stmt_text(g.ast.test)
            if ('getNumberOfSyntaxErrors' in txt or '_syntaxErrors' in txt) and parser_var in txt:
                lab = 'T'
                t = g.ast.test
                if isinstance(t, ast.Compare) and isinstance(t.ops[0], ast.Eq):
                    lab = 'F'
                if isinstance(t, ast.UnaryOp) and isinstance(t.op, ast.Not):
                    lab = 'F'
                if _always_raises(cfg, g, lab) and cfg.dominates(parse_node, g):
                    # must dominate every return
                    rets = [x for x in cfg.nodes if x.kind == 'stmt' and isinstance(x.ast, ast.Return)
                            and cfg.dominates(parse_node, x)]
                    if all(cfg.dominates(g, r) for r in rets):
                        idiom = '3: syntax error count tested after the parse, failing branch raises'
                    else:
                        detail = 'the error-count test does not dominate the return of the specification'
    construct = '(a) syntax errors make compile() fail'
    # raises that belong to the end-of-input test (clause a8) say nothing about syntax errors inside the input
    eof_raises = set()
    for n in own_nodes(f.node):
        if isinstance(n, ast.If) and 'EOF' in stmt_text(n.test):
            for x in ast.walk(n):
                if isinstance(x, ast.Raise):
                    eof_raises.add(id(x))
    # any other error handling present (a listener of the package, a raise after the parse)?
    other_handling = False
    for n in own_nodes(f.node):
        if id(n) in eof_raises:
            continue
        if isinstance(n, ast.Call) and isinstance(n.func, ast.Attribute) and (
                n.func.attr == 'addErrorListener' or n.func.attr in installers):
            # a listener on the LEXER hears token errors only: it is no handling of what the parser finds
            if n.func.attr == 'addErrorListener' and isinstance(n.func.value, ast.Name) and lexer_var_early \
                    and n.func.value.id == lexer_var_early and n.func.value.id != parser_var:
                continue
            other_handling = True
        if isinstance(n, ast.Raise) and cfg.node_of(n) is not None and cfg.dominates(parse_node, cfg.node_of(n)):
            other_handling = True
        if isinstance(n, ast.Assign) and isinstance(n.targets[0], ast.Attribute) \
                and n.targets[0].attr in ('_errHandler', 'errHandler'):
            other_handling = True
    # a listener that can return normally is no handling unless something else tests for errors afterwards
    post = False
    for n in own_nodes(f.node):
        if id(n) in eof_raises:
            continue
        nn = cfg.node_of(n) if isinstance(n, ast.stmt) else None
        if isinstance(n, ast.Raise) and nn is not None and cfg.dominates(parse_node, nn) and nn is not parse_node:
            # ... unless it hangs on `<tree>.exception` alone: ANTLR sets ctx.exception only on the rule context that
            # CAUGHT a RecognitionException; in-line repairs (a missing token conjured up, a stray one deleted - what
            # happens at a truncated end of file) and errors caught deeper down leave the start rule's field None
            cur_ = pm.get(id(n))
            guard_ = None
            while cur_ is not None and not isinstance(cur_, (ast.FunctionDef, ast.AsyncFunctionDef)):
                if isinstance(cur_, ast.If):
                    guard_ = cur_
                    break
                cur_ = pm.get(id(cur_))
            if guard_ is not None and '.exception' in stmt_text(guard_.test, 200) \
                    and 'SyntaxErrors' not in stmt_text(guard_.test, 200):
                continue
            post = True
        if isinstance(n, ast.Assign) and isinstance(n.targets[0], ast.Attribute) \
                and n.targets[0].attr in ('_errHandler', 'errHandler'):
            post = True
    if weak is not None:
        # state written by the weak listener and read by compile() after the parse counts as a later test
        wc, wm = weak
        written = {t.attr for x in own_nodes(wm.node) if isinstance(x, (ast.Assign, ast.AugAssign))
                   for t in (x.targets if isinstance(x, ast.Assign) else [x.target])
                   if isinstance(t, ast.Attribute)} | \
                  {x.func.value.attr for x in own_nodes(wm.node) if isinstance(x, ast.Call)
                   and isinstance(x.func, ast.Attribute) and x.func.attr in ('append', 'add')
                   and isinstance(x.func.value, ast.Attribute)}
        for g in cfg.nodes:
            if g.kind == 'if' and cfg.dominates(parse_node, g) and \
                    any(isinstance(x, ast.Attribute) and x.attr in written for x in ast.walk(g.ast.test)):
                post = True
    if not idiom and weak is not None and not post:
        wc, wm = weak
        insts.append(Inst(
            RULE, wm.short, construct, 'violation',
            msg=(f"{wc.name}.syntaxError is the only error handling of compile() and it can return without raising "
                 f"on some path: for such errors ANTLR repairs the input in-line (missing / extraneous token) and goes "
                 f"on, nothing tests the error count afterwards, and the file is compiled from what was recovered"),
            file=wm.module.relpath, line=wm.node.lineno, props=props))
    elif not idiom and other_handling:
        insts.append(Inst(RULE, f.short, construct, 'unproven',
                          msg=('error handling is present but matches none of the accepted idioms'
                               + (f' ({detail})' if detail else '')),
                          file=rel, line=parse_node.lineno, props=props))
    elif idiom:
        insts.append(Inst(RULE, f.short, construct, 'ok', msg='idiom ' + idiom, file=rel,
                          line=parse_node.lineno, props=props))
    else:
        insts.append(Inst(
            RULE, f.short, construct, 'violation',
            msg=("the parse tree of parser.mal() is handed to the visitor although none of the accepted "
                 "error idioms is present (raising error listener / bail strategy / tested error count)"
                 + (f': {detail}' if detail else '') +
                 "; ANTLR's default listener only prints and recovers, so a malformed file yields a "
                 "specification assembled from the fragments that parsed"),
            file=rel, line=parse_node.lineno, props=props))
    # (a5) the error raised by the listener is not caught around the start rule
    pm = {}
    for n in ast.walk(f.node):
        for ch in ast.iter_child_nodes(n):
            pm[id(ch)] = n
    for n in own_nodes(f.node):
        if not (isinstance(n, ast.Call) and isinstance(n.func, ast.Attribute) and n.func.attr == 'mal'
                and isinstance(n.func.value, ast.Name) and n.func.value.id == parser_var):
            continue
        cur = n
        while id(cur) in pm:
            par = pm[id(cur)]
            if isinstance(par, ast.Try) and any(cur is s or any(x is cur for x in ast.walk(s)) for s in par.body):
                for h in par.handlers:
                    hn = cfg.node_of(h.body[0]) if h.body else None
                    ends_raise = bool(h.body) and all(
                        isinstance(x, ast.Raise) for x in [h.body[-1]]) 
                    broad = h.type is None or any(t in stmt_text(h.type) for t in
                                                  ('Exception', 'MalCompilerError', 'BaseException', 'Error'))
                    if not broad or ends_raise:
                        continue
                    retry = [x for s_ in h.body for x in ast.walk(s_) if isinstance(x, ast.Call)
                             and isinstance(x.func, ast.Attribute) and x.func.attr == 'mal']
                    relex = any(isinstance(x, ast.Call) and (
                        (isinstance(x.func, ast.Name) and x.func.id in ('malLexer', 'FileStream', 'InputStream'))
                        or (isinstance(x.func, ast.Attribute) and x.func.attr == 'reset'
                            and isinstance(x.func.value, ast.Name) and x.func.value.id == lexer_var_early))
                                for s_ in h.body for x in ast.walk(s_))
                    construct5 = '(a) errors raised while parsing are not caught around the start rule'
                    if retry and relex:
                        insts.append(Inst(RULE, f.short, construct5, 'unproven',
                                          msg='two-stage parse with a fresh lexer: not decided', file=rel,
                                          line=h.lineno, props=props))
                    else:
                        insts.append(Inst(
                            RULE, f.short, construct5, 'violation',
                            msg=(f"'except {stmt_text(h.type) if h.type else ''}:' around {parser_var}.mal() catches the error "
                                 f"raised by the error listener and carries on"
                                 + (" with a second parse on the same lexer: the lexer is not rewound, it resumes behind "
                                    "the characters that caused the error, the retry never sees them and succeeds"
                                    if retry else ": the malformed file does not make compile() fail")),
                            file=rel, line=h.lineno, props=props))
            cur = par
    # (a8) the whole input is consumed: ANTLR matches a start rule against a PREFIX of the token stream.  Unless
    # every alternative of the start rule ends in EOF, what follows the last construct that parsed is never looked
    # at - `category C {..} } garbage` compiles to the specification of the prefix.  Accepted: the generated start
    # rule matches EOF on every alternative, or compile() tests the stream for EOF after the parse and raises.
    construct8 = '(a) the start rule consumes the whole input (EOF matched, or tested after the parse)'
    start = None
    for m_ in prog.modules.values():
        if m_.generated:
            for c_ in ast.walk(m_.tree):
                if isinstance(c_, ast.ClassDef) and c_.name == 'malParser':
                    for d_ in c_.body:
                        if isinstance(d_, ast.FunctionDef) and d_.name == 'mal':
                            start = d_
    if start is None:
        insts.append(Inst(RULE, f.short, construct8, 'unproven', msg='generated start rule malParser.mal not found',
                          file=rel, line=parse_node.lineno, props=props))
    else:
        def _matches_eof(stmts):
            for s_ in stmts:
                if isinstance(s_, ast.Expr) and isinstance(s_.value, ast.Call) and isinstance(s_.value.func, ast.Attribute) \
                        and s_.value.func.attr == 'match' and s_.value.args and 'EOF' in stmt_text(s_.value.args[0]):
                    return True
            return False
        alts = []
        for n in ast.walk(start):
            if isinstance(n, ast.Try):
                chain = [x for x in n.body if isinstance(x, ast.If)]
                if chain:
                    cur = chain[-1]
                    while True:
                        alts.append(cur.body)
                        if len(cur.orelse) == 1 and isinstance(cur.orelse[0], ast.If):
                            cur = cur.orelse[0]
                        else:
                            break
                else:
                    alts.append(n.body)
                break
        rule_eof = bool(alts) and all(_matches_eof(a) for a in alts)
        tested = False
        for g in cfg.nodes:
            if g.kind == 'if' and g is not parse_node and cfg.dominates(parse_node, g) and 'EOF' in stmt_text(g.ast.test):
                lab = None
                for l_ in ('T', 'F'):
                    if _always_raises(cfg, g, l_):
                        lab = l_
                if lab is None and idiom and idiom.startswith('1:') and 'EOF' in stmt_text(g.ast.test):
                    # the leftover is reported through the parser's listeners, and the listener installed on the parser
                    # always raises (idiom 1 above): `parser.notifyErrorListeners(msg, token)` under the test is a raise
                    for l_, blk in (('T', g.ast.body), ('F', g.ast.orelse)):
                        if any(isinstance(s_, ast.Expr) and isinstance(s_.value, ast.Call) and isinstance(s_.value.func, ast.Attribute)
                               and s_.value.func.attr == 'notifyErrorListeners' and isinstance(s_.value.func.value, ast.Name)
                               and s_.value.func.value.id == parser_var for s_ in blk):
                            lab = l_
                rets = [x for x in cfg.nodes if x.kind == 'stmt' and isinstance(x.ast, ast.Return)
                        and cfg.dominates(parse_node, x)]
                if lab and all(cfg.dominates(g, r) for r in rets):
                    tested = True
                    # ... and it is the NEXT token that is tested: LT(1) / LA(1) (LT(2) skips one stray token)
                    look = []
                    srcs = [g.ast.test] + [d.ast.value for nm in [x.id for x in ast.walk(g.ast.test) if isinstance(x, ast.Name)]
                                            for d in cfg.reaching(g, nm) if d.kind == 'stmt' and isinstance(d.ast, ast.Assign)]
                    for src in srcs:
                        for x in ast.walk(src):
                            if isinstance(x, ast.Call) and isinstance(x.func, ast.Attribute) and x.func.attr in ('LT', 'LA') \
                                    and x.args and isinstance(x.args[0], ast.Constant):
                                look.append(x)
                    wrong = [x for x in look if x.args[0].value != 1]
                    if wrong:
                        insts.append(Inst(
                            RULE, f.short, '(a) the end-of-input test looks at the next token', 'violation',
                            msg=(f"'{stmt_text(wrong[0])}' is the token AFTER the next one: a file with exactly one stray token "
                                 f"behind the last declaration (an extra '}}') passes the test and compiles"),
                            file=rel, line=wrong[0].lineno, props=props))
        if rule_eof:
            insts.append(Inst(RULE, f.short, construct8, 'ok', msg=f'every one of the {len(alts)} alternatives of mal matches EOF',
                              file=rel, line=parse_node.lineno, props=props))
        elif tested:
            insts.append(Inst(RULE, f.short, construct8, 'ok', msg='compile() tests the token stream for EOF after the parse',
                              file=rel, line=parse_node.lineno, props=props))
        else:
            n_eof = sum(1 for a in alts if _matches_eof(a))
            insts.append(Inst(
                RULE, f.short, construct8, 'violation',
                msg=(f"the start rule malParser.mal matches EOF on {n_eof} of its {len(alts)} alternatives (grammar: "
                     f"'mal: declaration+ | EOF') and compile() never looks at what is left in the token stream: after "
                     f"the last declaration that parses, ANTLR simply stops - trailing text that is not MAL ('}} }} junk', "
                     f"an 'asset' outside any category) is ignored and the file compiles to the specification of its prefix"),
                file=rel, line=parse_node.lineno, props=props))
    # (a9) an error strategy is per-parser state: DefaultErrorStrategy keeps errorRecoveryMode / lastErrorIndex /
    # lastErrorStates between calls and is only reset by the parser it belongs to.  One instance shared by all parsers
    # (a class attribute, a module-level object) stays in recovery mode after a failed compilation and then suppresses
    # the first error of the next file.
    for n in own_nodes(f.node):
        if isinstance(n, ast.Assign) and isinstance(n.targets[0], ast.Attribute) \
                and n.targets[0].attr in ('_errHandler', 'errHandler') and isinstance(n.targets[0].value, ast.Name) \
                and n.targets[0].value.id == parser_var:
            v = n.value
            construct9 = '(a) the error strategy installed on the parser is a fresh object'
            if isinstance(v, ast.Call):
                insts.append(Inst(RULE, f.short, construct9, 'ok', msg=stmt_text(v, 50), file=rel, line=n.lineno, props=props))
            elif isinstance(v, (ast.Attribute, ast.Name)):
                local_fresh = False
                if isinstance(v, ast.Name):
                    for d in cfg.reaching(cfg.node_of(n), v.id):
                        if d.kind == 'stmt' and isinstance(d.ast, ast.Assign) and isinstance(d.ast.value, ast.Call):
                            local_fresh = True
                if local_fresh:
                    insts.append(Inst(RULE, f.short, construct9, 'ok', msg='constructed in this call', file=rel,
                                      line=n.lineno, props=props))
                else:
                    insts.append(Inst(
                        RULE, f.short, construct9, 'violation',
                        msg=(f"'{stmt_text(n)}' hands every parser the same strategy object: ANTLR's error strategies keep "
                             f"recovery state (errorRecoveryMode, lastErrorIndex) that only the owning parser resets; after "
                             f"one file failed, the shared object is still in recovery mode and swallows the first syntax "
                             f"error of the next compilation - a malformed file compiles"),
                        file=rel, line=n.lineno, props=props))
    # (a3) compile() is re-entered for every include (through the visitor): per-compilation error state
    # must not be reset inside it while an outer invocation still has to test it
    resets = []
    for n in own_nodes(f.node):
        if isinstance(n, ast.Assign) and isinstance(n.targets[0], ast.Attribute) \
                and isinstance(n.targets[0].value, ast.Name) and n.targets[0].value.id == f.self_name \
                and isinstance(n.value, (ast.List, ast.Dict, ast.Constant)) \
                and (not isinstance(n.value, ast.Constant) or n.value.value in (0, None, False)):
            attr = n.targets[0].attr
            rnode = cfg.node_of(n)
            for g in cfg.nodes:
                if g.kind == 'if' and f'{f.self_name}.{attr}' in stmt_text(g.ast.test) \
                        and cfg.dominates(parse_node, g) and (_always_raises(cfg, g, 'T') or _always_raises(cfg, g, 'F')):
                    resets.append((n, attr, g))
    if resets:
        n, attr, g = resets[0]
        insts.append(Inst(
            RULE, f.short, f'(a) error state self.{attr} is not reset inside the re-entrant compile()', 'violation',
            msg=(f"'{stmt_text(n)}' resets the error state on every entry of compile(), and compile() is re-entered "
                 f"for each include while the visitor runs - before 'if {stmt_text(g.ast.test)}' of the outer call: "
                 f"errors of a file that includes a clean file are forgotten and the malformed file is accepted"),
            file=rel, line=n.lineno, props=props))
    # (a7) nothing pulls a token before the raising listener sits on the lexer: CommonTokenStream / the parser fetch
    # tokens on demand (LA, LT, fill, getText, nextToken ...); lexer errors met during such an early fetch go to
    # ANTLR's console listener and are dropped
    _lc2 = find_ctor(f, 'malLexer')
    lv2, la2 = bound_var(_lc2) if _lc2 is not None else (None, None)
    if lv2 is not None:
        linst = [node for (_e, node) in installs_on(_lc2, lv2, la2)]
        stream_vars = {lv2}
        for n in own_nodes(f.node):
            if isinstance(n, ast.Assign) and isinstance(n.targets[0], ast.Name) and isinstance(n.value, ast.Call) \
                    and any(isinstance(a, ast.Name) and a.id in stream_vars for a in n.value.args) \
                    and 'Parser' not in stmt_text(n.value.func) and 'parser' not in stmt_text(n.value.func).lower():
                stream_vars.add(n.targets[0].id)
        PULL = {'LA', 'LT', 'LB', 'fill', 'getText', 'nextToken', 'getAllTokens', 'getTokens', 'consume', 'get', 'sync'}
        for n in own_nodes(f.node):
            if isinstance(n, ast.Call) and isinstance(n.func, ast.Attribute) and n.func.attr in PULL \
                    and isinstance(n.func.value, ast.Name) and n.func.value.id in stream_vars:
                pn = cfg.owner(n)
                if pn is not None and linst and not any(cfg.dominates(ln, pn) and ln is not pn for ln in linst):
                    insts.append(Inst(
                        RULE, f.short, '(a) no token is fetched before the error listener is on the lexer', 'violation',
                        msg=(f"'{stmt_text(n)}' makes the lexer produce tokens before the raising listener is attached to "
                             f"it (the attachment comes later / on another path): characters that form no token at the "
                             f"start of a file are only printed by ANTLR's default listener and dropped, the rest compiles"),
                        file=rel, line=n.lineno, props=props))
    # (a4) lexer errors (characters that form no token) must surface as well
    lctor = find_ctor(f, 'malLexer')
    lexer_var, lassign = bound_var(lctor) if lctor is not None else (None, None)
    if lctor is not None and (idiom or other_handling):
        lex_ok = False
        for (lexpr, node) in installs_on(lctor, lexer_var, lassign):
            cname = _class_of(ctx, f, lexpr, node)
            c = prog.classes.get(cname) if cname else None
            m = prog.find_method(c.name, 'syntaxError') if c is not None else None
            if m is not None:
                lex_ok = True
        construct = '(a) lexer errors (characters that form no token) are reported too'
        if lex_ok:
            insts.append(Inst(RULE, f.short, construct, 'ok', file=rel, line=parse_node.lineno, props=props))
        else:
            insts.append(Inst(
                RULE, f.short, construct, 'violation',
                msg=("parser errors are handled but no error listener of the package is attached to the lexer: "
                     "characters that form no MAL token are printed by ANTLR's default listener and dropped, "
                     "parser.getNumberOfSyntaxErrors() does not count them, and the remaining tokens compile"),
                file=rel, line=parse_node.lineno, props=props))
    # same entry point for includes / no second parser construction
    others = []
    for g in prog.all_funcs():
        if g is f:
            continue
        for n in own_nodes(g.node):
            if isinstance(n, ast.Call) and isinstance(n.func, ast.Name) and n.func.id == 'malParser':
                others.append((g, n))
    construct = '(a) malParser is instantiated only in MalCompiler.compile'
    if others:
        g, n = others[0]
        insts.append(Inst(RULE, g.short, construct, 'violation',
                          msg=f'{g.short} builds its own malParser: a second, unchecked parse path',
                          file=g.module.relpath, line=n.lineno, props=props))
    else:
        insts.append(Inst(RULE, f.short, construct, 'ok', file=rel, line=f.node.lineno, props=props))
    vm = prog.func('malVisitor.visitMal')
    inc = [n for n in own_nodes(vm.node) if isinstance(n, ast.Call) and isinstance(n.func, ast.Attribute)
           and n.func.attr == 'compile']
    insts.append(Inst(RULE, vm.short, '(a) included files are compiled through MalCompiler.compile',
                      'ok' if inc else 'unproven',
                      msg='' if inc else 'no call to <compiler>.compile found in the include handling',
                      file=vm.module.relpath, line=vm.node.lineno, props=props + ('C04',)))

    # (a11) the grammar is checked on the text of ONE file at a time: the lexer's input is that file (FileStream) or its
    # unedited text.  A text assembled from several files (includes pasted in, concatenation, regex substitution) can
    # parse although one of the files is no MAL program by itself - an unterminated comment or an open brace that
    # the including file happens to close
    def text_origin(e, g, depth=0):
        if depth > 4 or e is None:
            return 'unknown'
        if isinstance(e, ast.Call) and isinstance(e.func, ast.Attribute):
            if e.func.attr in ('read', 'read_text'):
                return 'file'
            if e.func.attr in ('sub', 'subn', 'replace', 'join', 'format', 'expandtabs', 'translate'):
                return 'edited'
            if e.func.attr in ('decode', 'strip', 'rstrip', 'lstrip'):
                return text_origin(e.func.value, g, depth + 1)
            if isinstance(e.func.value, ast.Name) and g.self_name == e.func.value.id and g.cls is not None \
                    and e.func.attr in g.cls.methods:
                h = g.cls.methods[e.func.attr]
                rs = [text_origin(r.value, h, depth + 1) for r in own_nodes(h.node) if isinstance(r, ast.Return)]
                if rs and all(r == 'file' for r in rs):
                    return 'file'
                return 'edited' if 'edited' in rs else 'unknown'
        if isinstance(e, ast.Call) and isinstance(e.func, ast.Name):
            if e.func.id == 'str' and e.args:
                return text_origin(e.args[0], g, depth + 1)
            if g.module.functions.get(e.func.id) is not None:
                h = g.module.functions[e.func.id]
                rs = [text_origin(r.value, h, depth + 1) for r in own_nodes(h.node) if isinstance(r, ast.Return)]
                if rs and all(r == 'file' for r in rs):
                    return 'file'
                return 'edited' if 'edited' in rs else 'unknown'
        if isinstance(e, (ast.JoinedStr,)) or (isinstance(e, ast.BinOp) and isinstance(e.op, (ast.Add, ast.Mod))):
            return 'edited'
        if isinstance(e, ast.Name):
            vals = [a.value for a in own_nodes(g.node) if isinstance(a, ast.Assign)
                    and any(isinstance(t, ast.Name) and t.id == e.id for t in a.targets)]
            aug = [a for a in own_nodes(g.node) if isinstance(a, ast.AugAssign) and isinstance(a.target, ast.Name)
                   and a.target.id == e.id]
            if aug:
                return 'edited'
            if vals:
                rs = [text_origin(v, g, depth + 1) for v in vals]
                if all(r == 'file' for r in rs):
                    return 'file'
                return 'edited' if 'edited' in rs else 'unknown'
        return 'unknown'
    construct11 = '(a) the lexer reads one file, unedited'
    for n in own_nodes(f.node):
        if isinstance(n, ast.Call) and stmt_text(n.func).split('.')[-1] in ('FileStream',):
            insts.append(Inst(RULE, f.short, construct11, 'ok', msg='FileStream', file=rel, line=n.lineno, props=props))
        elif isinstance(n, ast.Call) and stmt_text(n.func).split('.')[-1] in ('InputStream', 'StringStream') and n.args:
            o = text_origin(n.args[0], f)
            if o == 'edited':
                insts.append(Inst(
                    RULE, f.short, construct11, 'violation',
                    msg=(f"'{stmt_text(n, 60)}' lexes a text that was assembled / rewritten (substitution, concatenation, "
                         f"join) rather than read from one file: the grammar is no longer checked file by file, a "
                         f"malformed (included) file is accepted whenever the assembled text happens to parse"),
                    file=rel, line=n.lineno, props=props))
            else:
                insts.append(Inst(RULE, f.short, construct11, 'ok' if o == 'file' else 'unproven',
                                  msg='' if o == 'file' else f"origin of '{stmt_text(n.args[0], 40)}' not recognised",
                                  file=rel, line=n.lineno, props=props, nontrivial=(o == 'file')))

    # (a12) per-file fields of the compiler (those compile() assigns on every call: current_file ...) are re-pointed by
    # the nested compile() of an include and not restored: a read of such a field in visitMal AFTER an include was
    # compiled sees the included file's value (what the visitor needs is taken in its __init__, before any include)
    perfile = set()
    sn_ = f.self_name or 'self'
    for n in own_nodes(f.node):
        if isinstance(n, ast.Assign) and isinstance(n.targets[0], ast.Attribute) and isinstance(n.targets[0].value, ast.Name) \
                and n.targets[0].value.id == sn_:
            nd = cfg.node_of(n)
            guarded = any(g.kind == 'if' and f'{sn_}.{n.targets[0].attr}' in stmt_text(g.ast.test) and cfg.dominates(g, nd)
                          for g in cfg.nodes) if nd is not None else True
            if not guarded:
                perfile.add(n.targets[0].attr)
    vcfg = ctx.cfg(vm)
    inc_nodes = [vcfg.owner(c) for c in inc]
    inc_nodes = [x for x in inc_nodes if x is not None]
    if perfile and inc_nodes:
        after = set()
        for c in inc_nodes:
            after |= set(vcfg.reachable_from(c, avoiding=set()))
        for n in own_nodes(vm.node):
            if isinstance(n, ast.Attribute) and isinstance(n.ctx, ast.Load) and n.attr in perfile \
                    and isinstance(n.value, ast.Attribute) and n.value.attr == 'compiler':
                o = vcfg.owner(n)
                if o is not None and o.idx in after:
                    insts.append(Inst(
                        RULE, vm.short, f'(a) per-file compiler state is not read after an include was compiled', 'violation',
                        msg=(f"'{stmt_text(n)}' is read where an include may already have been compiled: compile() sets "
                             f"{n.attr} for the included file and never restores it, so the including file is taken for "
                             f"the included one from the first include on"),
                        file=vm.module.relpath, line=n.lineno, props=props + ('C04',)))

    # (a13) every normal return of compile() hands back what the visitor made of THIS file's parse tree: a shortcut
    # `return {}` / a cached earlier result for "already compiled" files changes what an include contributes (defines
    # are applied in textual order, the last one wins - a repeated include re-applies them)
    construct13 = '(a) compile() returns the visitor\'s result for the file just parsed'
    for n in own_nodes(f.node):
        if isinstance(n, ast.Return) and cfg.node_of(n) is not None:
            v = n.value
            via_visitor = v is not None and ('visit' in stmt_text(v, 200))
            if not via_visitor and isinstance(v, ast.Name):
                via_visitor = any(isinstance(a, ast.Assign) and any(isinstance(t, ast.Name) and t.id == v.id for t in a.targets)
                                  and 'visit' in stmt_text(a.value, 200) for a in own_nodes(f.node))
            if via_visitor:
                insts.append(Inst(RULE, f.short, construct13, 'ok', file=rel, line=n.lineno, props=props + ('C04',)))
            elif parse_node is not None and not cfg.dominates(parse_node, cfg.node_of(n)):
                insts.append(Inst(
                    RULE, f.short, construct13, 'violation',
                    msg=(f"'{stmt_text(n, 60)}' leaves compile() before the file is parsed, with a value that is not the "
                         f"visitor's result: the file (an include met a second time, a 'known' file) contributes nothing, "
                         f"and what it contains is not checked against the grammar on this path"),
                    file=rel, line=n.lineno, props=props + ('C04',)))
            else:
                insts.append(Inst(RULE, f.short, construct13, 'unproven', msg=stmt_text(n, 60), file=rel, line=n.lineno,
                                  props=props + ('C04',), nontrivial=False))

    # (a6) nothing in the package swallows exceptions wholesale: a context manager whose __exit__ returns a truthy
    # value suppresses whatever was raised inside the `with` (also the compile error of an included file)
    nexit = 0
    for c in prog.classes.values():
        ex = c.methods.get('__exit__')
        if ex is None or c.module.generated:
            continue
        nexit += 1
        bad = None
        for n in own_nodes(ex.node):
            if isinstance(n, ast.Return) and n.value is not None and not (
                    isinstance(n.value, ast.Constant) and n.value.value in (None, False)):
                bad = n
        construct = f'(a) {c.name}.__exit__ does not suppress exceptions'
        if bad is not None:
            insts.append(Inst(
                RULE, ex.short, construct, 'violation',
                msg=(f"'{stmt_text(bad)}' makes __exit__ return a value that can be truthy: every exception raised "
                     f"inside 'with {c.name}...' is swallowed - a syntax error in a file compiled inside such a block "
                     f"disappears and compilation carries on without that file"),
                file=ex.module.relpath, line=bad.lineno, props=props + ('C04',)))
        else:
            insts.append(Inst(RULE, ex.short, construct, 'ok', file=ex.module.relpath, line=ex.node.lineno,
                              props=props + ('C04',)))
    for g in prog.all_funcs():
        if g.module.generated:
            continue
        for n in own_nodes(g.node):
            if isinstance(n, ast.With):
                for it in n.items:
                    if 'suppress' in stmt_text(it.context_expr) and any(
                            isinstance(x, ast.Call) and isinstance(x.func, ast.Attribute) and x.func.attr == 'compile'
                            for b in n.body for x in ast.walk(b)):
                        insts.append(Inst(
                            RULE, g.short, '(a) compile() is not called under contextlib.suppress', 'violation',
                            msg=f"'{stmt_text(it.context_expr)}' swallows the error of the compilation inside it",
                            file=g.module.relpath, line=n.lineno, props=props + ('C04',)))
    # ------------------------------------------------------------------ (b)
    insts += _lookups(ctx)
    return insts


def _class_of(ctx, f, expr, node):
    """class name of a listener expression: Name bound to a constructor call, or a direct call."""
    if isinstance(expr, ast.Call) and isinstance(expr.func, ast.Name):
        return expr.func.id
    if isinstance(expr, ast.Name):
        cfg = ctx.cfg(f)
        for d in cfg.reaching(node, expr.id):
            a = d.ast
            if isinstance(a, ast.Assign) and isinstance(a.value, ast.Call) and isinstance(a.value.func, ast.Name):
                return a.value.func.id
    # self.<field>: the field is given a constructed object somewhere in the class (usually __init__)
    if isinstance(expr, ast.Attribute) and isinstance(expr.value, ast.Name) and f.cls is not None \
            and expr.value.id == f.self_name:
        found = set()
        for m in f.cls.methods.values():
            for n in own_nodes(m.node):
                if isinstance(n, ast.Assign) and len(n.targets) == 1 and isinstance(n.targets[0], ast.Attribute) \
                        and n.targets[0].attr == expr.attr and isinstance(n.targets[0].value, ast.Name) \
                        and n.targets[0].value.id == m.self_name:
                    if isinstance(n.value, ast.Call) and isinstance(n.value.func, ast.Name):
                        found.add(n.value.func.id)
                    else:
                        found.add(None)
        if len(found) == 1 and None not in found:
            return next(iter(found))
    return None


REFERENCE_KEYS = ["['superAsset']", "['leftAsset']", "['rightAsset']", "['subType']", 'subtype_name',
                  'attack_step_name']


def _lookups(ctx) -> list[Inst]:
    prog = ctx.prog
    insts = []
    props = ('C15',)
    targets = [('LanguageGraph._generate_graph', 5), ('LanguageGraph.process_step_expression', 1)]
    for fname, floor in targets:
        f = prog.func(fname)
        cfg = ctx.cfg(f)
        R = ctx.R(f)
        rel = f.module.relpath
        found = 0
        for n in own_nodes(f.node):
            if not isinstance(n, ast.Assign):
                continue
            var = None
            what = None
            v = n.value
            # next((x for x in COLL if x.name == KEY), None)
            if isinstance(v, ast.Call) and isinstance(v.func, ast.Name) and v.func.id == 'next' and v.args \
                    and isinstance(v.args[0], ast.GeneratorExp) and len(n.targets) == 1 \
                    and isinstance(n.targets[0], ast.Name):
                gen = v.args[0].generators[0]
                # a lookup BY NAME of one declaration: exactly one condition `<elem>.name == KEY`
                if len(gen.ifs) != 1 or not isinstance(gen.ifs[0], ast.Compare) \
                        or len(gen.ifs[0].ops) != 1 or not isinstance(gen.ifs[0].ops[0], ast.Eq):
                    continue
                keytxt = ' '.join(stmt_text(c) for c in gen.ifs)
                # resolve local key names one step
                for sub in gen.ifs:
                    for nm in ast.walk(sub):
                        if isinstance(nm, ast.Name):
                            for d in cfg.reaching(cfg.node_of(n), nm.id):
                                if d.kind == 'stmt' and isinstance(d.ast, ast.Assign):
                                    keytxt += ' ' + stmt_text(d.ast.value)
                                if d.kind == 'stmt' and isinstance(d.ast, ast.Assign) \
                                        and isinstance(d.ast.targets[0], ast.Tuple) \
                                        and 'process_step_expression' in stmt_text(d.ast.value):
                                    keytxt += ' attack_step_name'
                if any(k in keytxt for k in REFERENCE_KEYS):
                    var = n.targets[0].id
                    what = [k for k in REFERENCE_KEYS if k in keytxt][0].strip("[]'")
            # x = <obj>.get_<kind>_by_name(KEY): a package lookup that answers None for an unknown name
            elif isinstance(v, ast.Call) and isinstance(v.func, ast.Attribute) and len(n.targets) == 1 \
                    and isinstance(n.targets[0], ast.Name) and v.func.attr.startswith('get_') \
                    and v.func.attr.endswith('_by_name') and v.args:
                keytxt = stmt_text(v.args[0])
                for nm in ast.walk(v.args[0]):
                    if isinstance(nm, ast.Name):
                        for d in cfg.reaching(cfg.node_of(n), nm.id):
                            if d.kind == 'stmt' and isinstance(d.ast, ast.Assign):
                                keytxt += ' ' + stmt_text(d.ast.value)
                if any(k in keytxt for k in REFERENCE_KEYS):
                    var = n.targets[0].id
                    what = [k for k in REFERENCE_KEYS if k in keytxt][0].strip("[]'")
            # (target_asset, dep_chain, name) = self.process_step_expression(...)
            elif isinstance(v, ast.Call) and isinstance(v.func, ast.Attribute) \
                    and v.func.attr == 'process_step_expression' and fname.endswith('_generate_graph') \
                    and isinstance(n.targets[0], ast.Tuple) and isinstance(n.targets[0].elts[0], ast.Name):
                var = n.targets[0].elts[0].id
                what = 'target asset of a step expression'
            if var is None:
                continue
            found += 1
            dnode = cfg.node_of(n)
            construct = f'(b) lookup of {what} is checked and a miss raises'
            # uses of var reached by this definition
            guard = None
            for g in cfg.nodes:
                if g.kind != 'if' or not cfg.dominates(dnode, g):
                    continue
                t = g.ast.test
                neg = None
                if isinstance(t, ast.UnaryOp) and isinstance(t.op, ast.Not) and isinstance(t.operand, ast.Name) \
                        and t.operand.id == var:
                    neg = 'T'
                elif isinstance(t, ast.Compare) and isinstance(t.left, ast.Name) and t.left.id == var \
                        and isinstance(t.comparators[0], ast.Constant) and t.comparators[0].value is None:
                    neg = 'T' if isinstance(t.ops[0], (ast.Is, ast.Eq)) else 'F'
                elif isinstance(t, ast.Name) and t.id == var:
                    neg = 'F'
                if neg is None:
                    continue
                if [d for d in cfg.reaching(g, var)] != [dnode]:
                    continue
                guard = (g, neg)
                break
            if guard is None:
                insts.append(Inst(
                    RULE, f.short, construct, 'violation',
                    msg=(f"'{stmt_text(n, 90)}' can yield None (unknown {what}) but no test of '{var}' "
                         f"follows: the reference to an undeclared element is not reported"),
                    file=rel, line=n.lineno, props=props))
                continue
            g, neg = guard
            if _always_raises(cfg, g, neg):
                # every use must be dominated by the guard
                insts.append(Inst(RULE, f.short, construct, 'ok', file=rel, line=n.lineno, props=props))
            else:
                insts.append(Inst(
                    RULE, f.short, construct, 'violation',
                    msg=(f"the failing branch of 'if {stmt_text(g.ast.test)}' (line {g.lineno}) does not raise: "
                         f"an unknown {what} is logged/skipped instead of being reported as an error"),
                    file=rel, line=g.lineno, props=props))
        if found < floor:
            insts.append(Inst(RULE, f.short, '(b) every reference lookup is recognised', 'unproven',
                              msg=(f'only {found} reference lookups recognised in {fname} (expected >= {floor}): the '
                                   f'remaining ones are written in a form this rule does not know'),
                              file=rel, line=f.node.lineno, props=props))
    return insts
