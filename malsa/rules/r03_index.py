"""R3 INDEX / RESET - derived state follows the primary container.

INDEX  every function that (by a primitive effect of its own) adds to / removes from / rebinds a
       member of a coupling group performs the same-direction change on every other member of the
       group, at a control-equivalent place (cfg.covered: same innermost loop, every normal path
       through the one passes the other; callee effects count when the callee always performs them).
       add  <-> dict-set / add        remove <-> del / remove / discard / pop
       rebind <-> rebind / clear      counters: advanced wherever the primary gains an element
RESET  a method (not __init__) that re-binds a literal-initialised attribute of self to an empty
       container re-initialises EVERY attribute that __init__ initialises from a literal, to the
       same literal (attributes initialised from parameters are inputs and are exempt).
"""
from __future__ import annotations

import ast

from ..cfg import covered
from ..core import stmt_text
from ..report import Inst

RULE = 'R3'

GROUPS = {
    'G1': dict(cls='AttackGraph', primary='nodes', index=['_id_to_node', '_full_name_to_node'],
               counters=['next_node_id'], props=('C09', 'C02')),
    'G2': dict(cls='AttackGraph', primary='attackers', index=['_id_to_attacker'],
               counters=['next_attacker_id'], props=('C09',)),
    'G3': dict(cls='Model', primary='assets', index=['asset_ids', 'asset_names'],
               counters=['next_id'], props=('C05',)),
    'G4': dict(cls='Model', primary='associations', index=['_type_to_association'],
               counters=[], props=('C05', 'C06')),
}
RESET_PROPS = {'AttackGraph': ('C09',), 'LanguageGraph': ('C15', 'C03'), 'Model': ('C05',)}


def dclass(e):
    if e.op == 'clear':
        return 'rebind'
    if e.kind in ('add', 'item-set'):
        return 'add'
    if e.kind in ('remove', 'item-del'):
        return 'remove'
    if e.kind == 'rebind':
        return 'rebind'
    return None


def member_of(e, g):
    """-> (member name, base key) if effect e touches a member of group g."""
    steps = e.path.steps
    if steps and steps[-1] == g['primary'] and e.ptype == g['cls']:
        return g['primary'], (e.path.root, steps[:-1])
    for m in g['index'] + g['counters']:
        if m in steps:
            i = steps.index(m)
            # rebind applies to the member itself only
            if e.kind == 'rebind' and i != len(steps) - 1:
                continue
            # the member itself, or the per-key bucket it holds (_type_to_association[k])
            rest = steps[i + 1:]
            if len(rest) > 1 or (rest and not rest[0].startswith('[')):
                continue
            return m, (e.path.root, steps[:i])
    return None


def is_literal(v) -> bool:
    if v is None:
        return False
    for sub in ast.walk(v):
        if isinstance(sub, ast.Name) and sub.id not in ('set', 'list', 'dict', 'tuple', 'frozenset',
                                                        'True', 'False', 'None'):
            return False
        if isinstance(sub, (ast.Attribute, ast.Subscript, ast.Lambda, ast.Await)):
            return False
        if isinstance(sub, ast.Call) and not (isinstance(sub.func, ast.Name)
                                              and sub.func.id in ('set', 'list', 'dict', 'tuple')):
            return False
    return True


def is_empty_container(v) -> bool:
    if isinstance(v, (ast.List, ast.Set, ast.Tuple)):
        return not v.elts
    if isinstance(v, ast.Dict):
        return not v.keys
    if isinstance(v, ast.Call) and isinstance(v.func, ast.Name) and v.func.id in ('set', 'list', 'dict') \
            and not v.args and not v.keywords:
        return True
    return False


def _value_of(src):
    if isinstance(src, ast.Assign):
        return src.value
    if isinstance(src, ast.AnnAssign):
        return src.value
    return None


def _key_expr(e, member):
    """the key expression of a primitive add / removal on index `member`, or None"""
    src = e.src
    def on_member(x):
        return isinstance(x, ast.Attribute) and x.attr == member
    if isinstance(src, ast.Assign):
        for t in src.targets:
            if isinstance(t, ast.Subscript) and on_member(t.value):
                return t.slice
    if isinstance(src, ast.Delete):
        for t in src.targets:
            if isinstance(t, ast.Subscript) and on_member(t.value):
                return t.slice
    if isinstance(src, ast.Call) and isinstance(src.func, ast.Attribute) and on_member(src.func.value) and src.args:
        if src.func.attr in ('add', 'remove', 'discard', 'pop', 'setdefault'):
            return src.args[0]
    return None


ADD_FUNCS = [
    # function, primary container attribute, object parameter
    ('AttackGraph.add_node', 'nodes', 'node', ('C09', 'C02')),
    ('AttackGraph.add_attacker', 'attackers', 'attacker', ('C09', 'C11', 'C13')),
    ('Model.add_asset', 'assets', 'asset', ('C05',)),
    ('Model.add_attacker', 'attackers', 'attacker', ('C05', 'C07')),
    ('Model.add_association', 'associations', 'association', ('C05', 'C06')),
]


def _adders_add(ctx) -> list[Inst]:
    """ADDS  an add_* function puts its object into the primary container on EVERY normally returning path (it may
    refuse by raising).  A silent early `return` leaves the caller with an object that is not part of the graph /
    model - and callers go on to link it (attach_attackers compromises nodes with the attacker it has just "added")."""
    from ..core import own_nodes
    out = []
    for (fname, cont, objp, props) in ADD_FUNCS:
        if not ctx.prog.has_func(fname):
            continue
        f = ctx.prog.func(fname)
        cfg = ctx.cfg(f)
        rel = f.module.relpath
        construct = f'ADDS: {fname} registers the object on every normal path'
        adds = []
        for n in own_nodes(f.node):
            if isinstance(n, ast.Call) and isinstance(n.func, ast.Attribute) and n.func.attr in ('append', 'add', 'insert') \
                    and isinstance(n.func.value, ast.Attribute) and n.func.value.attr == cont \
                    and any(isinstance(a, ast.Name) and a.id == objp for a in n.args):
                o = cfg.owner(n)
                if o is not None:
                    adds.append(o)
        if not adds:
            out.append(Inst(RULE, f.short, construct, 'unproven', msg=f'no {cont}.append({objp}) found here', file=rel,
                            line=f.node.lineno, props=props, nontrivial=False))
            continue
        reach = cfg.reachable_from(cfg.entry, avoiding={a.idx for a in adds})
        if cfg.exit.idx not in reach:
            out.append(Inst(RULE, f.short, construct, 'ok', file=rel, line=adds[0].ast.lineno if hasattr(adds[0].ast, 'lineno') else f.node.lineno,
                            props=props))
            continue
        rets = [x for x in cfg.nodes if x.idx in reach and x.kind == 'stmt' and isinstance(x.ast, ast.Return)]
        where = rets[0].ast if rets else f.node
        out.append(Inst(
            RULE, f.short, construct, 'violation',
            msg=(f"{fname} can return normally ('{stmt_text(where, 50)}') without putting '{objp}' into {cont}: the caller "
                 f"holds an object that is not part of the container (no id, no index entry) and goes on using it - "
                 f"references to it appear in the structure with nothing to clean them up"),
            file=rel, line=getattr(where, 'lineno', f.node.lineno), props=props))
    return out


REMOVE_FUNCS = [
    ('AttackGraph.remove_node', 'nodes', 'node', ('C09', 'C13')),
    ('AttackGraph.remove_attacker', 'attackers', 'attacker', ('C09', 'C11')),
    ('Model.remove_asset', 'assets', 'asset', ('C05',)),
    ('Model.remove_association', 'associations', 'association', ('C05',)),
]


def _removers_remove_that(ctx) -> list[Inst]:
    """REMOVES  a remove_* function takes THE object it was given out of the primary container: `.remove(obj)` or a
    position found by identity / equality search (`C.index(obj)`).  A position computed another way (bisect on an id
    under the assumption that the list is sorted, a remembered index) removes whatever sits there."""
    from ..core import own_nodes
    out = []
    for (fname, cont, objp, props) in REMOVE_FUNCS:
        if not ctx.prog.has_func(fname):
            continue
        f = ctx.prog.func(fname)
        rel = f.module.relpath
        construct = f'REMOVES: {fname} removes the given object from {cont}'

        def on_cont(x):
            return isinstance(x, ast.Attribute) and x.attr == cont and isinstance(x.value, ast.Name) and x.value.id == f.self_name
        for n in own_nodes(f.node):
            pos = None
            if isinstance(n, ast.Delete):
                for t in n.targets:
                    if isinstance(t, ast.Subscript) and on_cont(t.value):
                        pos = t.slice
            elif isinstance(n, ast.Call) and isinstance(n.func, ast.Attribute) and n.func.attr == 'pop' and on_cont(n.func.value) and n.args:
                pos = n.args[0]
            elif isinstance(n, ast.Call) and isinstance(n.func, ast.Attribute) and n.func.attr == 'remove' and on_cont(n.func.value):
                out.append(Inst(RULE, f.short, construct, 'ok', msg=stmt_text(n, 50), file=rel, line=n.lineno, props=props))
                continue
            if pos is None:
                continue
            by_search = isinstance(pos, ast.Call) and isinstance(pos.func, ast.Attribute) and pos.func.attr == 'index' \
                and on_cont(pos.func.value) and pos.args and isinstance(pos.args[0], ast.Name) and pos.args[0].id == objp
            if by_search:
                out.append(Inst(RULE, f.short, construct, 'ok', msg=stmt_text(n, 50), file=rel, line=n.lineno, props=props))
            else:
                out.append(Inst(
                    RULE, f.short, construct, 'violation',
                    msg=(f"'{stmt_text(n, 70)}' deletes the element at a computed position instead of '{objp}' itself: "
                         f"when {cont} is not ordered the way the computation assumes (an id re-used after a removal, a "
                         f"file listing elements out of order) another object is dropped and '{objp}' stays listed, "
                         f"while the indexes forget '{objp}'"),
                    file=rel, line=n.lineno, props=props))
    return out


def _key_agreement(ctx) -> list[Inst]:
    """KEY: an index that is filled under `obj.<attr>` is emptied under the same attribute of the object removed:
    `del D[o.name]` / `D.pop(o.name, None)` against `D[o.full_name] = o` leaves the entry behind (or removes another
    object's entry)."""
    prog = ctx.prog
    adds, rems = {}, {}
    from ..core import own_nodes
    from types import SimpleNamespace
    index_of = {m: gname for gname, g in GROUPS.items() for m in g['index']}

    def member_attr(x):
        return x.attr if isinstance(x, ast.Attribute) and x.attr in index_of else None
    # syntactic collection (also stores into a graph / model that the function has just created, which the effect
    # summaries - rooted at parameters - do not list)
    for f in prog.all_funcs():
        if f.module.generated:
            continue
        for n in own_nodes(f.node):
            found = []
            if isinstance(n, ast.Assign):
                for t in n.targets:
                    if isinstance(t, ast.Subscript) and member_attr(t.value):
                        found.append(('add', member_attr(t.value), t.slice))
            elif isinstance(n, ast.Delete):
                for t in n.targets:
                    if isinstance(t, ast.Subscript) and member_attr(t.value):
                        found.append(('remove', member_attr(t.value), t.slice))
            elif isinstance(n, ast.Call) and isinstance(n.func, ast.Attribute) and member_attr(n.func.value) and n.args:
                if n.func.attr in ('add', 'setdefault'):
                    found.append(('add', member_attr(n.func.value), n.args[0]))
                elif n.func.attr in ('remove', 'discard', 'pop'):
                    found.append(('remove', member_attr(n.func.value), n.args[0]))
            for (c, m, k) in found:
                e = SimpleNamespace(src=n, text=stmt_text(n, 80), lineno=n.lineno)
                (adds if c == 'add' else rems).setdefault((index_of[m], m), []).append((f, e, k))
    out = []
    for (gname, member), lst in sorted(rems.items()):
        g = GROUPS[gname]
        attrs = {k.attr for (_f, _e, k) in adds.get((gname, member), [])
                 if isinstance(k, ast.Attribute) and isinstance(k.value, ast.Name)}
        if len(attrs) != 1:
            continue          # keyed by something else than one attribute of the stored object: no rule instance
        want = next(iter(attrs))
        # adds under another key than the stored object's own attribute: an alias entry that the removal (which deletes
        # under .<want> of the object) never finds
        for (f, e, k) in adds.get((gname, member), []):
            if isinstance(k, ast.Attribute) and isinstance(k.value, ast.Name) and k.attr == want:
                continue
            construct = f'{gname}: KEY {g["cls"]}.{member} gets entries under the stored object\'s .{want} only'
            stored = e.src.value if isinstance(e.src, ast.Assign) else None
            differs = False
            if isinstance(stored, ast.Name):
                ktxt = stmt_text(k)
                for t in ast.walk(f.node):
                    if isinstance(t, ast.If) and isinstance(t.test, ast.Compare) and len(t.test.ops) == 1 \
                            and isinstance(t.test.ops[0], ast.NotEq) and any(x is e.src for b in t.body for x in ast.walk(b)):
                        sides = {stmt_text(t.test.left), stmt_text(t.test.comparators[0])}
                        if sides == {ktxt, f'{stored.id}.{want}'}:
                            differs = True
            if differs:
                out.append(Inst(
                    RULE, f.short, construct, 'violation',
                    msg=(f"'{e.text}' adds an entry under '{stmt_text(k)}' exactly when that is NOT the object's .{want}: "
                         f"the index holds keys that no object carries, removal (which deletes under .{want}) never "
                         f"deletes them, and a lookup returns objects that are no longer in {g['cls']}.{g['primary']}"),
                    file=f.module.relpath, line=e.lineno, props=g['props']))
            else:
                out.append(Inst(RULE, f.short, construct, 'unproven', msg=f"key '{stmt_text(k)}' not of the form obj.{want}",
                                file=f.module.relpath, line=e.lineno, props=g['props'], nontrivial=False))
        for (f, e, k) in lst:
            construct = f'{gname}: KEY {g["cls"]}.{member} is emptied under the attribute it is filled under'
            if isinstance(k, ast.Attribute) and isinstance(k.value, ast.Name):
                if k.attr == want:
                    out.append(Inst(RULE, f.short, construct, 'ok', msg=f"'{e.text}' uses .{want}",
                                    file=f.module.relpath, line=e.lineno, props=g['props']))
                else:
                    out.append(Inst(
                        RULE, f.short, construct, 'violation',
                        msg=(f"'{e.text}' removes the entry under '{stmt_text(k)}', but {g['cls']}.{member} is filled "
                             f"under '.{want}' of the stored object: the entry of the removed object stays behind (a "
                             f"tolerant pop hides the miss) or another object's entry is removed"),
                        file=f.module.relpath, line=e.lineno, props=g['props']))
            else:
                out.append(Inst(RULE, f.short, construct, 'unproven', msg=f"key '{stmt_text(k)}' not of the form obj.attr",
                                file=f.module.relpath, line=e.lineno, props=g['props'], nontrivial=False))
    return out


def run(ctx) -> list[Inst]:
    prog, an = ctx.prog, ctx.an
    insts: list[Inst] = []
    # ------------------------------------------------------------------ INDEX
    for f in prog.all_funcs():
        facts = an.of(f)
        cfg = ctx.cfg(f)
        for gname, g in GROUPS.items():
            touching = []
            for e in facts.effects:
                if e.path.truncated:
                    continue
                mb = member_of(e, g)
                if mb is None:
                    continue
                c = dclass(e)
                if c is None:
                    continue
                touching.append((e, mb[0], mb[1], c))
            for (e, member, base, c) in touching:
                if e.chain:          # performed by a callee: the obligation is checked there
                    continue
                if member in g['counters']:
                    continue         # counters are required, never requiring
                required = [m for m in [g['primary']] + g['index'] if m != member]
                if c == 'add' and member == g['primary']:
                    required += g['counters']
                for m in required:
                    want = 'rebind' if (m in g['counters']) else c
                    dn = [d.node for (d, dm, dbase, dc) in touching
                          if dm == m and dbase == base and dc == want and d.node is not None
                          and (not d.chain or d.cmust)]
                    ok = covered(cfg, e.node, dn)
                    construct = f'{gname}: {c} on {g["cls"]}.{member} <-> {m}'
                    if ok:
                        insts.append(Inst(RULE, f.short, construct, 'ok',
                                          msg=f'{e.text} is matched', file=f.module.relpath,
                                          line=e.lineno, props=g['props']))
                    else:
                        insts.append(Inst(
                            RULE, f.short, construct, 'violation',
                            msg=(f"'{e.text}' changes {g['cls']}.{member} ({c}) but no control-"
                                 f"equivalent {want} of {g['cls']}.{m} on the same object follows it "
                                 f"on every normally returning path"),
                            file=f.module.relpath, line=e.lineno, props=g['props']))
    # ------------------------------------------------------------------ KEY
    insts += _key_agreement(ctx)
    insts += _adders_add(ctx)
    insts += _removers_remove_that(ctx)
    # ------------------------------------------------------------------ RESET
    for c in prog.classes.values():
        init = c.methods.get('__init__')
        if init is None:
            continue
        lit = {}       # attr -> ast value (literal-initialised)
        for fi in c.fields.values():
            if fi.origin == 'init' and is_literal(fi.default):
                lit[fi.name] = fi.default
        if not lit:
            continue
        for m in c.methods.values():
            if m.name == '__init__' or not m.is_method:
                continue
            selfn = m.self_name
            facts = an.of(m)
            own_resets = []
            rebinds = {}        # attr -> list of effects (must)
            for e in facts.effects:
                if e.kind != 'rebind' or e.path.root != ('param', selfn) or len(e.path.steps) != 1:
                    continue
                attr = e.path.steps[0]
                rebinds.setdefault(attr, []).append(e)
                v = _value_of(e.src)
                if not e.chain and attr in lit and is_empty_container(lit[attr]) \
                        and v is not None and is_empty_container(v):
                    own_resets.append(e)
            if not own_resets:
                continue
            props = RESET_PROPS.get(c.name, ())
            from ..registry import SLOT_FIELDS
            slots = set(SLOT_FIELDS.get(c.name, []))
            for attr, init_val in lit.items():
                if attr not in slots:
                    # an attribute the frozen slot tables do not know (e.g. a memo cache that stays
                    # valid across regeneration): not an obligation, listed as unproven only
                    insts.append(Inst(RULE, m.short, f'RESET: {c.name}.{attr} (not a slot-table attribute)',
                                      'unproven' if attr not in rebinds else 'ok',
                                      msg='attribute unknown to the slot tables; RESET not required',
                                      file=m.module.relpath, line=own_resets[0].lineno, props=props,
                                      nontrivial=False))
                    continue
                es = [e for e in rebinds.get(attr, []) if e.must]
                construct = f'RESET: {c.name}.{attr} re-initialised like __init__'
                if not es:
                    insts.append(Inst(
                        RULE, m.short, construct, 'violation',
                        msg=(f"{m.short} resets '{own_resets[0].text}' but leaves {c.name}.{attr} "
                             f"(initialised to {stmt_text(init_val)} by __init__) untouched: the object "
                             f"is not equivalent to a freshly constructed one"),
                        file=m.module.relpath, line=own_resets[0].lineno, props=props))
                    continue
                bad = None
                for e in es:
                    v = _value_of(e.src)
                    if v is None or ast.dump(v) != ast.dump(init_val):
                        bad = e
                if bad is not None:
                    insts.append(Inst(
                        RULE, m.short, construct, 'violation',
                        msg=(f"{m.short} re-initialises {c.name}.{attr} with '{bad.text}' but __init__ "
                             f"uses {stmt_text(init_val)}"),
                        file=m.module.relpath, line=bad.lineno, props=props))
                else:
                    insts.append(Inst(RULE, m.short, construct, 'ok', file=m.module.relpath,
                                      line=es[0].lineno, props=props))
    return insts
