"""R17 TABLE - decision tables of small pure functions agree with the specification (tier B).

Each listed repository function is normalised to a canonical decision table (genf.py) and compared
with the table of the reference function of the same name in reference/tables_ref.py (written
from the property statements, parsed, never executed).  Equal tables <=> same guarded effects
modulo propositional equivalence, branch order, match vs if/elif, loop vs any()/all(), local
renames, helper extraction of pure predicates.  A table that differs while using only names the
reference knows is a violation; unknown vocabulary or unsupported constructs are 'unproven'.
"""
from __future__ import annotations

import ast
import os

from ..core import AnalysisError
from ..genf import table_of, Unsupported, diff_tables, names_in, opaque_names, imprecise_kinds, show
from ..report import Inst

RULE = 'R17'
REF = os.path.join(os.path.dirname(os.path.dirname(os.path.abspath(__file__))), 'reference', 'tables_ref.py')

TABLES = [
    ('T1', 'evaluate_viability', ('C08',)),
    ('T2', 'evaluate_necessity', ('C08',)),
    ('T3', 'propagate_viability_from_node', ('C08',)),
    ('T4', 'propagate_necessity_from_node', ('C08',)),
    ('T5', 'calculate_viability_and_necessity', ('C08',)),
    ('T6', 'prune_unviable_and_unnecessary_nodes', ('C13',)),
    ('T7', 'is_node_traversable_by_attacker', ('C12',)),
    ('T8a', 'AttackGraphNode.is_enabled_defense', ('C12',)),
    ('T8b', 'AttackGraphNode.is_available_defense', ('C12',)),
    ('T8c', 'get_defense_surface', ('C12',)),
    ('T8d', 'get_enabled_defenses', ('C12',)),
    ('T8e', 'get_attack_surface', ('C12',)),
    ('T8f', 'update_attack_surface_add_nodes', ('C12',)),
    ('T10', 'LanguageGraph._get_attacks_for_asset_type', ('C03', 'C02', 'C01', 'C06')),
    ('T11a', 'LanguageClassesFactory._generate_assets', ('C06', 'C05')),
    ('T11b', 'LanguageClassesFactory._generate_associations', ('C06',)),
    ('T11c', 'LanguageClassesFactory.get_association_by_signature', ('C06', 'C18')),
    ('T12a', 'Model._validate_association', ('C06', 'C05')),
    ('T12b', 'Model.add_association', ('C06', 'C05')),
    ('T21', 'Model.remove_association', ('C05', 'C01')),
    ('T22', 'Model.remove_asset_from_association', ('C05', 'C07', 'C02')),
    ('T23', 'Model.add_asset', ('C05', 'C06', 'C07')),
    ('T24', 'Model.add_attacker', ('C05', 'C07')),
    ('T25', 'Model.remove_asset', ('C05',)),
    ('T26', 'Model.association_exists_between_assets', ('C05', 'C06')),
    ('T27', 'Model.get_associated_assets_by_field_name', ('C05', 'C01')),
    ('T28', 'Model.remove_attacker', ('C05',)),
    ('T13', 'LanguageGraph._get_associations_for_asset_type', ('C15',)),
    ('T20', 'LanguageGraph.get_association_by_fields_and_assets', ('C15', 'C18', 'C19')),
    ('T17', 'AttackerAttachment.get_entry_point_tuple', ('C05', 'C07')),
    ('T18', 'AttackerAttachment.add_entry_point', ('C05', 'C07', 'C18')),
    ('T19', 'AttackerAttachment.remove_entry_point', ('C05',)),
    ('T14', 'AttackGraphNode.is_compromised_by', ('C11', 'C12')),
    ('T15', 'Attacker.compromise', ('C11', 'C09', 'C10')),
    ('T16', 'Attacker.undo_compromise', ('C11', 'C09')),
]
# tier B: functions no structural rule pins down (found by the mutation sweep); reference = reviewed transcription
# in reference/tables_ref_b.py (tools/make_ref_b.py).  Same comparison, same verdict policy as tier A.
_V = 'malVisitor.'
TABLES_B = [
    # ---- the compiler: one visit method per grammar rule (C04; C17 for what an include merges)
    *[(f'B{100 + i}', _V + m, ('C04', 'C17') if m in ('visitMal', 'visitInclude') else ('C04',)) for i, m in enumerate([
        'visitMal', 'visitInclude', 'visitDefine', 'visitCategory', 'visitMeta', 'visitAsset', 'visitStep', 'visitSteptype',
        'visitTag', 'visitCias', 'visitCia', 'visitTtc', 'visitTtcexpr', 'visitTtcterm', 'visitTtcfact', 'visitTtcatom',
        'visitTtcdist', 'visitPrecondition', 'visitReaches', 'visitNumber', 'visitVariable', 'visitExpr', 'visitParts',
        'visitPart', '_resolve_part_ID_type', 'visitVarsubst', 'visitType', 'visitSetop', 'visitAssociations',
        'visitAssociation', 'visitField', 'visitLinkname'])],
    # ---- language graph queries and serialisers (C15)
    *[(f'B{200 + i}', m, ('C15',)) for i, m in enumerate([
        'LanguageGraphAsset.to_dict', 'LanguageGraphAsset.is_subasset_of', 'LanguageGraphAsset.get_all_subassets',
        'LanguageGraphAsset.get_all_superassets', 'LanguageGraphAssociation.to_dict',
        'LanguageGraphAssociation.contains_fieldname', 'LanguageGraphAssociation.contains_asset',
        'LanguageGraphAssociation.get_opposite_fieldname', 'LanguageGraphAssociation.get_opposite_asset',
        'LanguageGraphAttackStep.to_dict', 'LanguageGraphAttackStep.qualified_name', 'DependencyChain.to_dict',
        'DependencyChain.__next__', 'LanguageGraph.reverse_dep_chain', 'LanguageGraph.process_step_expression',
        'LanguageGraph._get_variable_for_asset_type_by_name', 'LanguageGraph.get_asset_by_name',
        'LanguageGraph._to_dict', 'LanguageGraph.load_from_file', 'LanguageGraphAsset.get_all_common_superassets'])],
    # ---- attack graph: evaluation of step expressions, generation, bookkeeping, codec
    ('B300', '_process_step_expression', ('C01', 'C16')),
    ('B301', 'AttackGraph._generate_graph', ('C01', 'C02')),
    ('B313', 'LanguageGraph._generate_graph', ('C15', 'C06')),
    ('B302', 'AttackGraph.add_node', ('C09', 'C02')),
    ('B303', 'AttackGraph.remove_node', ('C09', 'C13')),
    ('B304', 'AttackGraph.add_attacker', ('C09', 'C11')),
    ('B305', 'AttackGraph.remove_attacker', ('C09', 'C11')),
    ('B306', 'AttackGraph.attach_attackers', ('C11', 'C09')),
    ('B307', 'AttackGraph._to_dict', ('C10',)),
    ('B308', 'AttackGraph._from_dict', ('C10',)),
    ('B309', 'AttackGraphNode.to_dict', ('C10',)),
    ('B310', 'Attacker.to_dict', ('C10',)),
    ('B311', 'AttackGraph.load_from_file', ('C10',)),
    ('B312', 'AttackGraph.save_to_file', ('C10',)),
    # ---- model codec (C07) and legacy loaders (C18, C19)
    ('B400', 'Model._to_dict', ('C07',)),
    ('B401', 'Model._from_dict', ('C07',)),
    ('B402', 'Model.asset_to_dict', ('C07',)),
    ('B403', 'Model.association_to_dict', ('C07',)),
    ('B404', 'Model.attacker_to_dict', ('C07',)),
    ('B405', 'Model.get_asset_defenses', ('C07', 'C02')),
    ('B406', 'Model.load_from_file', ('C07',)),
    ('B407', 'Model.save_to_file', ('C07',)),
    ('B408', 'save_dict_to_file', ('C07', 'C10')),
    ('B410', 'load_model_from_version_0_0_39._process_model', ('C18',)),
    ('B411', 'load_model_from_scad_archive', ('C18',)),
    ('B420', 'get_model', ('C19',)),
    ('B421', 'ingest_model', ('C19',)),
    ('B422', 'ingest_attack_graph', ('C19',)),
]
REF_B = os.path.join(os.path.dirname(os.path.dirname(os.path.abspath(__file__))), 'reference', 'tables_ref_b.py')
STRIP_COPIES = {'T10'}
# small pure methods that may be inlined into their callers
INLINE_METHODS = [('AttackerAttachment', 'get_entry_point_tuple'), ('AttackGraphNode', 'is_compromised_by'), ('AttackGraphNode', 'is_compromised'),
                  ('AttackGraphNode', 'is_enabled_defense'), ('AttackGraphNode', 'is_available_defense')]
# calls that stay opaque on both sides (they are tables of their own)
OPAQUE = {'evaluate_viability', 'evaluate_necessity', 'propagate_viability_from_node',
          'propagate_necessity_from_node', 'is_node_traversable_by_attacker'}


def run(ctx) -> list[Inst]:
    prog = ctx.prog
    with open(REF, encoding='utf-8') as fh:
        from ..normalize import normalize
        reft = normalize(ast.parse(fh.read()))
    ref_funcs = {n.name: n for n in reft.body if isinstance(n, ast.FunctionDef)}
    for cls in reft.body:
        if isinstance(cls, ast.ClassDef):
            for n in cls.body:
                if isinstance(n, ast.FunctionDef):
                    ref_funcs[n.name] = n
    ref_inline = {k: v for k, v in ref_funcs.items() if k.startswith('_')}
    insts = []
    for (tid, fname, props) in TABLES:
        f = prog.func(fname)
        rname = fname.split('.')[-1]
        if rname not in ref_funcs:
            raise AnalysisError(f'reference table for {rname} missing')
        # inline table for the repository side: small pure methods + module-level helpers
        inline = {}
        for cn, mn in INLINE_METHODS:
            c = prog.classes.get(cn)
            if c is not None and mn in c.methods:
                inline[mn] = c.methods[mn].node
        if f.cls is None:
            for g in f.module.functions.values():
                if g.name not in OPAQUE and g is not f:
                    inline[g.name] = g.node
        construct = f'{tid}: decision table of {rname} equals the reference'
        rel = f.module.relpath
        try:
            ref_table = table_of(ref_funcs[rname], ref_inline, strip_copies=tid in STRIP_COPIES)
        except Unsupported as e:
            raise AnalysisError(f'reference table {rname} not extractable: {e}')
        # T3/T4: a propagation that delegates the re-evaluation of a child to evaluate_* is compared by what that
        # call does (the per-type equations have no TTC gate: delegating to them changes the result)
        effectful = {}
        if tid in ('T3', 'T4'):
            for nm in ('evaluate_viability', 'evaluate_necessity'):
                if nm in f.module.functions:
                    effectful[nm] = f.module.functions[nm].node
        try:
            table = table_of(f.node, inline, strip_copies=tid in STRIP_COPIES, effectful=effectful)
        except RecursionError as e:
            insts.append(Inst(RULE, fname, construct, 'unproven', msg='extractor recursion limit', file=rel,
                              line=f.node.lineno, props=props))
            continue
        except Unsupported as e:
            insts.append(Inst(RULE, fname, construct, 'unproven', msg=f'construct outside the table language: {e}',
                              file=rel, line=f.node.lineno, props=props))
            continue
        if table == ref_table:
            insts.append(Inst(RULE, fname, construct, 'ok',
                              msg=f'{len(table[1])} essential atoms, {len(table[2])} rows',
                              file=rel, line=f.node.lineno, props=props))
            continue
        v1, v2 = set(), set()
        opaque_names(table, v1)
        opaque_names(ref_table, v2)
        extra = sorted(v1 - v2)
        k1, k2 = set(), set()
        imprecise_kinds(table, k1)
        imprecise_kinds(ref_table, k2)
        if not extra and k1 - k2:
            extra = [f'<uninterpreted construct: {x}>' for x in sorted(k1 - k2)]
        try:
            d = diff_tables(table, ref_table)
        except Exception as e:      # rendering only
            d = f'tables differ (rendering failed: {e})'
        if not extra and _presence_respelling(table, ref_table):
            extra = ['<presence test respelled: `D.get(k) is None` against `k in D` - equal only if D never holds None>']
        if extra:
            insts.append(Inst(RULE, fname, construct, 'unproven',
                              msg=f'table differs but calls functions / reads globals the reference does not know {extra}: {d[:300]}',
                              file=rel, line=f.node.lineno, props=props))
        else:
            insts.append(Inst(RULE, fname, construct, 'violation',
                              msg=f'{rname} does not implement its specification: {d[:600]}',
                              file=rel, line=f.node.lineno, props=props))
    insts += _no_visited_cut(ctx)
    insts += _no_self_read_fold(ctx)
    insts += _tier_b(ctx)
    return insts


def _tier_b(ctx) -> list[Inst]:
    prog = ctx.prog
    from ..normalize import normalize
    with open(REF_B, encoding='utf-8') as fh:
        reft = normalize(ast.parse(fh.read()), inline=False)
    ref_funcs = {n.name: n for n in reft.body if isinstance(n, ast.FunctionDef)}
    insts = []
    for (tid, fname, props) in TABLES_B:
        rname = fname.replace('.', '__')
        if rname not in ref_funcs:
            raise AnalysisError(f'tier-B reference for {fname} missing (run tools/make_ref_b.py)')
        construct = f'{tid}: decision table of {fname.split(".")[-1]} equals the reviewed reference'
        if not prog.has_func(fname):
            # merged into its caller / renamed: nothing to compare (the callers' own tables and rules still apply)
            insts.append(Inst(RULE, fname, construct, 'unproven', msg='function not found under this name',
                              file='', line=0, props=props, nontrivial=False))
            continue
        f = prog.func(fname)
        rel = f.module.relpath
        try:
            ref_table = table_of(ref_funcs[rname], {})
        except (Unsupported, RecursionError) as e:
            insts.append(Inst(RULE, fname, construct, 'info', msg=f'reference outside the table language: {e}',
                              file=rel, line=f.node.lineno, props=props, nontrivial=False))
            continue
        try:
            table = table_of(f.node, {})
        except RecursionError:
            insts.append(Inst(RULE, fname, construct, 'unproven', msg='extractor recursion limit', file=rel,
                              line=f.node.lineno, props=props))
            continue
        except Unsupported as e:
            insts.append(Inst(RULE, fname, construct, 'unproven', msg=f'construct outside the table language: {e}',
                              file=rel, line=f.node.lineno, props=props))
            continue
        if table == ref_table:
            insts.append(Inst(RULE, fname, construct, 'ok', msg=f'{len(table[1])} essential atoms, {len(table[2])} rows',
                              file=rel, line=f.node.lineno, props=props))
            continue
        v1, v2 = set(), set()
        opaque_names(table, v1)
        opaque_names(ref_table, v2)
        extra = sorted(v1 - v2)
        k1, k2 = set(), set()
        imprecise_kinds(table, k1)
        imprecise_kinds(ref_table, k2)
        if not extra and k1 - k2:
            extra = [f'<uninterpreted construct: {x}>' for x in sorted(k1 - k2)]
        try:
            d = diff_tables(table, ref_table)
        except Exception as e:      # rendering only
            d = f'tables differ (rendering failed: {e})'
        # tier B decides only NEAR the reference: the same tests (essential atoms at every nesting level, up to the
        # constants and the strictness of comparisons inside them) with a different outcome somewhere.  A table over other tests is a restructured function - which this comparison
        # cannot tell from a changed one: unproven.
        if not extra and _imprecise_counts(table) != _imprecise_counts(ref_table):
            # the same KINDS of uninterpreted constructs, but not the same number of them (a recursion turned into a
            # second `while`, an extra loop-carried local): restructured
            extra = ['<another number of uninterpreted constructs (while loops / carried state) than the reference>']
        if not extra and k2 - k1:
            # the REFERENCE leans on constructs the table language only names (state carried through a loop ..) and the
            # code does without them: the two were not brought to a common form
            extra = [f'<reference uses uninterpreted construct: {x}>' for x in sorted(k2 - k1)]
        if not extra:
            # term kinds / method names the reference never uses: the values are computed another way (restructured)
            newk = sorted(_kinds(table, set()) - _kinds(ref_table, set()))
            if newk:
                extra = [f'<computed with constructs the reference does not use: {newk[:6]}>']
        if not extra and _new_atoms(table, ref_table):
            extra = ['<tests the reference does not make: restructured>']
        if extra:
            insts.append(Inst(RULE, fname, construct, 'unproven',
                              msg=f'table differs but uses names / constructs the reference does not know {extra}: {d[:300]}',
                              file=rel, line=f.node.lineno, props=props))
        else:
            insts.append(Inst(RULE, fname, construct, 'violation',
                              msg=f'{fname.split(".")[-1]} no longer does what its reviewed reference does: {d[:600]}',
                              file=rel, line=f.node.lineno, props=props))
    return insts


def _no_visited_cut(ctx) -> list[Inst]:
    """T3/T4 side condition - the propagation is a chaotic iteration towards the greatest fixed point: a child is
    re-evaluated every time one of its parents changes.  A 'visited' collection consulted before a child is
    examined (`if child in visited: continue`) is compatible with that only if children are marked when their label
    CHANGES (labels only ever go from True to False); marking them when they are merely examined stops later
    re-evaluations, the result is no longer the fixed point and depends on the order of the children."""
    from ..core import own_nodes, stmt_text
    prog = ctx.prog
    insts = []
    for fname in ('propagate_viability_from_node', 'propagate_necessity_from_node'):
        f = prog.func(fname)
        cfg = ctx.cfg(f)
        rel = f.module.relpath
        label = 'is_viable' if 'viability' in fname else 'is_necessary'
        tests = {}
        for n in own_nodes(f.node):
            if isinstance(n, ast.Compare) and len(n.ops) == 1 and isinstance(n.ops[0], (ast.In, ast.NotIn)) \
                    and isinstance(n.comparators[0], ast.Name):
                tests.setdefault(n.comparators[0].id, []).append(n)
        bad = None
        for V, ts in tests.items():
            for n in own_nodes(f.node):
                if isinstance(n, ast.Call) and isinstance(n.func, ast.Attribute) and n.func.attr in ('add', 'append') \
                        and isinstance(n.func.value, ast.Name) and n.func.value.id == V:
                    node = cfg.owner(n)
                    on_change = False
                    for g in cfg.nodes:
                        if g.kind == 'if' and g is not node and cfg.dominates(g, node) and label in stmt_text(g.ast.test) \
                                and any(isinstance(c, ast.Compare) and isinstance(c.ops[0], (ast.NotEq, ast.Eq, ast.IsNot, ast.Is))
                                        for c in ast.walk(g.ast.test)):
                            on_change = True
                    if not on_change:
                        bad = (V, n, ts[0])
        construct = f'{fname}: no child is skipped because it was merely examined before'
        if bad:
            V, n, t = bad
            insts.append(Inst(
                RULE, fname, construct, 'violation',
                msg=(f"'{stmt_text(t)}' skips children recorded by '{stmt_text(n)}', and that recording is not tied to a "
                     f"change of {label}: a child examined while another parent still held the label is never "
                     f"re-evaluated when that parent loses it - the labels are no longer the greatest fixed point and "
                     f"depend on the order of the children lists"),
                file=rel, line=n.lineno, props=('C08',)))
        else:
            insts.append(Inst(RULE, fname, construct, 'ok', file=rel, line=f.node.lineno, props=('C08',),
                              nontrivial=bool(tests)))
    return insts


def _no_self_read_fold(ctx) -> list[Inst]:
    """T3/T4 side condition - the table language reads `x.f = c ; for p in x.parents: x.f = x.f op p.f` (and
    `x.f = c ; x.f = any(p.f for p in x.parents)`) as `x.f = any/all(p.f for p in x.parents)` computed from the labels
    the parents carried BEFORE.  That reading is only right when x is not among its own parents: a step that leads to
    itself (`| a -> a`) is, and then the parents are read after x.f has been overwritten - the self-supporting
    labelling, which the greatest fixed point contains, is lost.  Rule: no write to <owner>.f may reach (inside one
    iteration over the children) a read of <v>.f where v ranges over <owner>.parents."""
    from ..core import own_nodes, stmt_text
    prog = ctx.prog
    insts = []
    for fname in ('propagate_viability_from_node', 'propagate_necessity_from_node'):
        f0 = prog.func(fname)
        funcs = [f0] + [g for g in ctx.an.reachable([f0]).values() if g is not f0 and g.module is f0.module
                        and g.name not in ('propagate_viability_from_node', 'propagate_necessity_from_node',
                                           'evaluate_viability', 'evaluate_necessity')]
        bad = None
        nreads = 0
        for f in funcs:
            cfg = ctx.cfg(f)
            # reads: <v>.<attr> with v bound by a for / comprehension over <owner>.parents
            reads = []
            for n in ast.walk(f.node):
                gens = []
                if isinstance(n, ast.For) and isinstance(n.target, ast.Name):
                    gens.append((n.target.id, n.iter, n.body))
                if isinstance(n, (ast.GeneratorExp, ast.ListComp, ast.SetComp)):
                    for g in n.generators:
                        if isinstance(g.target, ast.Name):
                            gens.append((g.target.id, g.iter, [n.elt] + list(g.ifs)))
                for v, it, scope in gens:
                    if not (isinstance(it, ast.Attribute) and it.attr == 'parents'):
                        continue
                    owner = stmt_text(it.value)
                    for sc in scope:
                        for r in ast.walk(sc):
                            if isinstance(r, ast.Attribute) and isinstance(r.ctx, ast.Load) \
                                    and isinstance(r.value, ast.Name) and r.value.id == v \
                                    and r.attr in ('is_viable', 'is_necessary'):
                                reads.append((owner, r, cfg.owner(r)))
            nreads += len(reads)
            pm = {}
            for x in ast.walk(f.node):
                for ch in ast.iter_child_nodes(x):
                    pm[id(ch)] = x

            def guards(node):
                """{subject text: set of constants it must equal} from the enclosing `if X == c` / `case c` arms"""
                out = {}
                cur = node
                while id(cur) in pm:
                    par = pm[id(cur)]
                    if isinstance(par, ast.If) and any(cur is b for b in par.body):
                        t = par.test
                        if isinstance(t, ast.Compare) and len(t.ops) == 1 and isinstance(t.ops[0], ast.Eq) \
                                and isinstance(t.comparators[0], ast.Constant):
                            out.setdefault(stmt_text(t.left), set()).add(t.comparators[0].value)
                        elif isinstance(t, ast.Compare) and len(t.ops) == 1 and isinstance(t.ops[0], ast.In) \
                                and isinstance(t.comparators[0], (ast.Tuple, ast.List, ast.Set)) \
                                and all(isinstance(e_, ast.Constant) for e_ in t.comparators[0].elts):
                            out.setdefault(stmt_text(t.left), set()).update(e_.value for e_ in t.comparators[0].elts)
                    if isinstance(par, ast.match_case) and id(par) in pm and isinstance(pm[id(par)], ast.Match):
                        vals = {v_.value.value for v_ in ast.walk(par.pattern)
                                if isinstance(v_, ast.MatchValue) and isinstance(v_.value, ast.Constant)}
                        if vals:
                            out.setdefault(stmt_text(pm[id(par)].subject), set()).update(vals)
                    cur = par
                return out

            def exclusive(a, b) -> bool:
                ga, gb = guards(a), guards(b)
                return any(k in gb and not (ga[k] & gb[k]) for k in ga)
            # the header of the enclosing loop over the children (one iteration = one child)
            headers = {g.idx for g in cfg.nodes if g.kind == 'for'
                       and isinstance(g.ast.iter, ast.Attribute) and g.ast.iter.attr == 'children'}
            for owner, r, rnode in reads:
                if rnode is None:
                    continue
                for w in cfg.nodes:
                    if w.kind != 'stmt' or not isinstance(w.ast, (ast.Assign, ast.AugAssign)):
                        continue
                    tg = w.ast.targets[0] if isinstance(w.ast, ast.Assign) else w.ast.target
                    if not (isinstance(tg, ast.Attribute) and tg.attr == r.attr and stmt_text(tg.value) == owner):
                        continue
                    if w is rnode:
                        # `x.f = any(p.f ...)`: the right-hand side is evaluated before the store - unless the store
                        # sits in the loop that does the reading (x.f = x.f or p.f)
                        inside = any(isinstance(lp, ast.For) and any(x is w.ast for x in ast.walk(lp))
                                     and isinstance(lp.iter, ast.Attribute) and lp.iter.attr == 'parents'
                                     for lp in ast.walk(f.node))
                        if inside:
                            bad = (f, w.ast, tg, r)
                        continue
                    if rnode.idx in cfg.reachable_from(w, avoiding=headers) and not exclusive(w.ast, r):
                        bad = (f, w.ast, tg, r)
        construct = f'{fname}: the parents are read before the label of the step itself is overwritten'
        rel = f0.module.relpath
        if bad:
            f, st, tg, r = bad
            insts.append(Inst(
                RULE, fname, construct, 'violation',
                msg=(f"'{stmt_text(st, 90)}' ({f.short}) writes {stmt_text(tg)} before / while {stmt_text(r)} is read for "
                     f"the parents of the same step: for a step that is its own parent (`| a -> a`) the label just "
                     f"overwritten is read back, so a self-supporting step is lowered although the labelling that keeps "
                     f"it satisfies every equation - the result is not the greatest fixed point"),
                file=f.module.relpath, line=st.lineno, props=('C08',)))
        else:
            insts.append(Inst(RULE, fname, construct, 'ok', file=rel, line=f0.node.lineno, props=('C08',),
                              nontrivial=bool(nreads)))
    return insts


def _all_atoms(t, acc):
    if isinstance(t, tuple):
        if t and t[0] == 'table':
            acc.append(tuple(t[1]))
        if t and t[0] == 'ite' and len(t) == 4:
            acc.append((t[1],))         # the test of a conditional value is a test too
        for x in t:
            _all_atoms(x, acc)
    return acc


def _skeleton(t):
    """an atom (or tuple of atoms) with literal constants blanked and < / <= identified: `len(x) == 1` and
    `len(x) == 2`, `a < b` and `a <= b` are the same test asked with another constant / strictness"""
    if isinstance(t, tuple):
        if t and t[0] == 'lit' and len(t) == 3:
            return ('lit', t[1], '?')
        if t and t[0] == 'const':
            return ('const', '?')
        if t and t[0] in ('lt', 'le'):
            return ('cmp',) + tuple(_skeleton(x) for x in t[1:])
        return tuple(_skeleton(x) for x in t)
    return t


_KIND_NEUTRAL = {'not', 'and', 'or', 'bf', 'const', 'lit', 'table', 'out', 'v', 'arg', 'ite', 'eq', 'lt', 'le', 'new', 'break',
                 'foreach', 'foreach-exit'}


def _kinds(t, acc):
    """term constructors and method / function names occurring in a table"""
    if isinstance(t, tuple) and t:
        if isinstance(t[0], str):
            if t[0] in ('mcall', 'call') and len(t) > 1 and isinstance(t[1], str):
                acc.add(t[0] + ':' + t[1])
            elif t[0] not in _KIND_NEUTRAL:
                acc.add(t[0])
        for x in t:
            if isinstance(x, tuple):
                _kinds(x, acc)
    return acc


def _imprecise_counts(t, acc=None):
    """how often each construct the table language only names (while loops, carried state ..) occurs"""
    from ..genf import IMPRECISE
    acc = acc if acc is not None else {}
    if isinstance(t, tuple) and t:
        if isinstance(t[0], str) and t[0] in IMPRECISE:
            acc[t[0]] = acc.get(t[0], 0) + 1
        for x in t:
            if isinstance(x, tuple):
                _imprecise_counts(x, acc)
    return acc


def _presence_respelling(table, ref_table) -> bool:
    """the code asks `D.get(k) is None` / `D[k] is None` where the reference asks `k in D` (or the other way round), and
    nothing else is new: the two are the same test exactly when D never holds None - a fact about the data that is not
    visible in the function.  Not decidable here."""
    def flat(t):
        out = set()
        for group in _all_atoms(t, []):
            for a in group:
                out.add(a)
        return out
    ca, ra = flat(table), flat(ref_table)
    new = ca - ra
    if not new:
        return False

    def none_item(a):
        if isinstance(a, tuple) and len(a) == 3 and a[0] == 'eq':
            x, y = a[1], a[2]
            if x == ('const', None):
                x, y = y, x
            if y == ('const', None) and isinstance(x, tuple) and x and x[0] == 'item' and len(x) == 3:
                return x[1], x[2]
        return None
    refs_in = {(a[2], a[1]) for a in ra if isinstance(a, tuple) and len(a) == 3 and a[0] == 'in'}
    code_in = {(a[2], a[1]) for a in ca if isinstance(a, tuple) and len(a) == 3 and a[0] == 'in'}
    hit = False
    for a in new:
        ni = none_item(a)
        if ni is not None and ni in refs_in:
            hit = True
            continue
        if isinstance(a, tuple) and len(a) == 3 and a[0] == 'in' and any(none_item(b) == (a[2], a[1]) for b in ra):
            hit = True
            continue
        # atoms that only differ by reading D[k] through the respelled test are accepted as part of the same rewrite
        return False
    return hit


def _new_atoms(table, ref_table) -> bool:
    """does `table` test something (up to constants / strictness) that `ref_table` never tests?  Dropping a test of
    the reference is a changed decision; testing something else is another way of writing the function."""
    def flat(t):
        out = set()
        for group in _all_atoms(t, []):
            for a in group:
                out.add(repr(_skeleton(a)))
        return out
    # a violation is claimed only over the very same tests: a test dropped because the grammar / an invariant makes it
    # redundant cannot be told from a guard that was lost
    return flat(table) != flat(ref_table)
