"""R17 TABLE - decision tables of small pure functions agree with the specification (tier B).

Each listed repository function is normalised to a canonical decision table (genf.py) and compared
with the table of the reference function of the same name in reference/tables_ref.py (written
from the property statements, parsed, never executed).  Equal tables <=> same guarded effects
modulo propositional equivalence, branch order, match vs if/elif, loop vs any()/all(), local
renames, helper extraction of pure predicates.  A table that differs while using only names the
reference knows is a violation; unknown vocabulary or unsupported constructs are 'unproven'.
"""
from __future__ import annotations

import ast
import os

from ..core import AnalysisError
from ..genf import table_of, Unsupported, diff_tables, names_in, opaque_names, imprecise_kinds, show
from ..report import Inst

RULE = 'R17'
REF = os.path.join(os.path.dirname(os.path.dirname(os.path.abspath(__file__))), 'reference', 'tables_ref.py')

TABLES = [
    ('T1', 'evaluate_viability', ('C08',)),
    ('T2', 'evaluate_necessity', ('C08',)),
    ('T3', 'propagate_viability_from_node', ('C08',)),
    ('T4', 'propagate_necessity_from_node', ('C08',)),
    ('T5', 'calculate_viability_and_necessity', ('C08',)),
    ('T6', 'prune_unviable_and_unnecessary_nodes', ('C13',)),
    ('T7', 'is_node_traversable_by_attacker', ('C12',)),
    ('T8a', 'AttackGraphNode.is_enabled_defense', ('C12',)),
    ('T8b', 'AttackGraphNode.is_available_defense', ('C12',)),
    ('T8c', 'get_defense_surface', ('C12',)),
    ('T8d', 'get_enabled_defenses', ('C12',)),
    ('T8e', 'get_attack_surface', ('C12',)),
    ('T8f', 'update_attack_surface_add_nodes', ('C12',)),
    ('T10', 'LanguageGraph._get_attacks_for_asset_type', ('C03', 'C02', 'C01', 'C06')),
    ('T11a', 'LanguageClassesFactory._generate_assets', ('C06', 'C05')),
    ('T11b', 'LanguageClassesFactory._generate_associations', ('C06',)),
    ('T11c', 'LanguageClassesFactory.get_association_by_signature', ('C06', 'C18')),
    ('T12a', 'Model._validate_association', ('C06', 'C05')),
    ('T12b', 'Model.add_association', ('C06', 'C05')),
    ('T21', 'Model.remove_association', ('C05', 'C01')),
    ('T22', 'Model.remove_asset_from_association', ('C05', 'C07', 'C02')),
    ('T23', 'Model.add_asset', ('C05', 'C06', 'C07')),
    ('T24', 'Model.add_attacker', ('C05', 'C07')),
    ('T25', 'Model.remove_asset', ('C05',)),
    ('T26', 'Model.association_exists_between_assets', ('C05', 'C06')),
    ('T27', 'Model.get_associated_assets_by_field_name', ('C05', 'C01')),
    ('T28', 'Model.remove_attacker', ('C05',)),
    ('T13', 'LanguageGraph._get_associations_for_asset_type', ('C15',)),
    ('T20', 'LanguageGraph.get_association_by_fields_and_assets', ('C15', 'C18', 'C19')),
    ('T17', 'AttackerAttachment.get_entry_point_tuple', ('C05', 'C07')),
    ('T18', 'AttackerAttachment.add_entry_point', ('C05', 'C07', 'C18')),
    ('T19', 'AttackerAttachment.remove_entry_point', ('C05',)),
    ('T14', 'AttackGraphNode.is_compromised_by', ('C11', 'C12')),
    ('T15', 'Attacker.compromise', ('C11', 'C09', 'C10')),
    ('T16', 'Attacker.undo_compromise', ('C11', 'C09')),
]
STRIP_COPIES = {'T10'}
# small pure methods that may be inlined into their callers
INLINE_METHODS = [('AttackerAttachment', 'get_entry_point_tuple'), ('AttackGraphNode', 'is_compromised_by'), ('AttackGraphNode', 'is_compromised'),
                  ('AttackGraphNode', 'is_enabled_defense'), ('AttackGraphNode', 'is_available_defense')]
# calls that stay opaque on both sides (they are tables of their own)
OPAQUE = {'evaluate_viability', 'evaluate_necessity', 'propagate_viability_from_node',
          'propagate_necessity_from_node', 'is_node_traversable_by_attacker'}


def run(ctx) -> list[Inst]:
    prog = ctx.prog
    with open(REF, encoding='utf-8') as fh:
        from ..normalize import normalize
        reft = normalize(ast.parse(fh.read()))
    ref_funcs = {n.name: n for n in reft.body if isinstance(n, ast.FunctionDef)}
    for cls in reft.body:
        if isinstance(cls, ast.ClassDef):
            for n in cls.body:
                if isinstance(n, ast.FunctionDef):
                    ref_funcs[n.name] = n
    ref_inline = {k: v for k, v in ref_funcs.items() if k.startswith('_')}
    insts = []
    for (tid, fname, props) in TABLES:
        f = prog.func(fname)
        rname = fname.split('.')[-1]
        if rname not in ref_funcs:
            raise AnalysisError(f'reference table for {rname} missing')
        # inline table for the repository side: small pure methods + module-level helpers
        inline = {}
        for cn, mn in INLINE_METHODS:
            c = prog.classes.get(cn)
            if c is not None and mn in c.methods:
                inline[mn] = c.methods[mn].node
        if f.cls is None:
            for g in f.module.functions.values():
                if g.name not in OPAQUE and g is not f:
                    inline[g.name] = g.node
        construct = f'{tid}: decision table of {rname} equals the reference'
        rel = f.module.relpath
        try:
            ref_table = table_of(ref_funcs[rname], ref_inline, strip_copies=tid in STRIP_COPIES)
        except Unsupported as e:
            raise AnalysisError(f'reference table {rname} not extractable: {e}')
        # T3/T4: a propagation that delegates the re-evaluation of a child to evaluate_* is compared by what that
        # call does (the per-type equations have no TTC gate: delegating to them changes the result)
        effectful = {}
        if tid in ('T3', 'T4'):
            for nm in ('evaluate_viability', 'evaluate_necessity'):
                if nm in f.module.functions:
                    effectful[nm] = f.module.functions[nm].node
        try:
            table = table_of(f.node, inline, strip_copies=tid in STRIP_COPIES, effectful=effectful)
        except RecursionError as e:
            insts.append(Inst(RULE, fname, construct, 'unproven', msg='extractor recursion limit', file=rel,
                              line=f.node.lineno, props=props))
            continue
        except Unsupported as e:
            insts.append(Inst(RULE, fname, construct, 'unproven', msg=f'construct outside the table language: {e}',
                              file=rel, line=f.node.lineno, props=props))
            continue
        if table == ref_table:
            insts.append(Inst(RULE, fname, construct, 'ok',
                              msg=f'{len(table[1])} essential atoms, {len(table[2])} rows',
                              file=rel, line=f.node.lineno, props=props))
            continue
        v1, v2 = set(), set()
        opaque_names(table, v1)
        opaque_names(ref_table, v2)
        extra = sorted(v1 - v2)
        k1, k2 = set(), set()
        imprecise_kinds(table, k1)
        imprecise_kinds(ref_table, k2)
        if not extra and k1 - k2:
            extra = [f'<uninterpreted construct: {x}>' for x in sorted(k1 - k2)]
        try:
            d = diff_tables(table, ref_table)
        except Exception as e:      # rendering only
            d = f'tables differ (rendering failed: {e})'
        if extra:
            insts.append(Inst(RULE, fname, construct, 'unproven',
                              msg=f'table differs but calls functions / reads globals the reference does not know {extra}: {d[:300]}',
                              file=rel, line=f.node.lineno, props=props))
        else:
            insts.append(Inst(RULE, fname, construct, 'violation',
                              msg=f'{rname} does not implement its specification: {d[:600]}',
                              file=rel, line=f.node.lineno, props=props))
    insts += _no_visited_cut(ctx)
    insts += _no_self_read_fold(ctx)
    return insts


def _no_visited_cut(ctx) -> list[Inst]:
    """T3/T4 side condition - the propagation is a chaotic iteration towards the greatest fixed point: a child is
    re-evaluated every time one of its parents changes.  A 'visited' collection consulted before a child is
    examined (`if child in visited: continue`) is compatible with that only if children are marked when their label
    CHANGES (labels only ever go from True to False); marking them when they are merely examined stops later
    re-evaluations, the result is no longer the fixed point and depends on the order of the children."""
    from ..core import own_nodes, stmt_text
    prog = ctx.prog
    insts = []
    for fname in ('propagate_viability_from_node', 'propagate_necessity_from_node'):
        f = prog.func(fname)
        cfg = ctx.cfg(f)
        rel = f.module.relpath
        label = 'is_viable' if 'viability' in fname else 'is_necessary'
        tests = {}
        for n in own_nodes(f.node):
            if isinstance(n, ast.Compare) and len(n.ops) == 1 and isinstance(n.ops[0], (ast.In, ast.NotIn)) \
                    and isinstance(n.comparators[0], ast.Name):
                tests.setdefault(n.comparators[0].id, []).append(n)
        bad = None
        for V, ts in tests.items():
            for n in own_nodes(f.node):
                if isinstance(n, ast.Call) and isinstance(n.func, ast.Attribute) and n.func.attr in ('add', 'append') \
                        and isinstance(n.func.value, ast.Name) and n.func.value.id == V:
                    node = cfg.owner(n)
                    on_change = False
                    for g in cfg.nodes:
                        if g.kind == 'if' and g is not node and cfg.dominates(g, node) and label in stmt_text(g.ast.test) \
                                and any(isinstance(c, ast.Compare) and isinstance(c.ops[0], (ast.NotEq, ast.Eq, ast.IsNot, ast.Is))
                                        for c in ast.walk(g.ast.test)):
                            on_change = True
                    if not on_change:
                        bad = (V, n, ts[0])
        construct = f'{fname}: no child is skipped because it was merely examined before'
        if bad:
            V, n, t = bad
            insts.append(Inst(
                RULE, fname, construct, 'violation',
                msg=(f"'{stmt_text(t)}' skips children recorded by '{stmt_text(n)}', and that recording is not tied to a "
                     f"change of {label}: a child examined while another parent still held the label is never "
                     f"re-evaluated when that parent loses it - the labels are no longer the greatest fixed point and "
                     f"depend on the order of the children lists"),
                file=rel, line=n.lineno, props=('C08',)))
        else:
            insts.append(Inst(RULE, fname, construct, 'ok', file=rel, line=f.node.lineno, props=('C08',),
                              nontrivial=bool(tests)))
    return insts


def _no_self_read_fold(ctx) -> list[Inst]:
    """T3/T4 side condition - the table language reads `x.f = c ; for p in x.parents: x.f = x.f op p.f` as
    `x.f = any/all(p.f for p in x.parents)`.  That reading is only right when x is not among its own parents: a
    step that leads to itself (`| a -> a`) is, and then the loop reads the label it has just reset instead of the
    label the node carried - the self-supporting labelling, which the greatest fixed point contains, is lost.
    The accumulation must therefore go through a value that is not the label itself (any()/all(), a local)."""
    from ..core import own_nodes, stmt_text
    prog = ctx.prog
    insts = []
    for fname in ('propagate_viability_from_node', 'propagate_necessity_from_node'):
        f = prog.func(fname)
        rel = f.module.relpath
        bad = None
        nloops = 0
        for n in own_nodes(f.node):
            if not isinstance(n, ast.For) or not isinstance(n.target, ast.Name):
                continue
            it = n.iter
            if not (isinstance(it, ast.Attribute) and it.attr in ('parents', 'children')):
                continue
            owner = stmt_text(it.value)
            lv = n.target.id
            for st in ast.walk(n):
                tg = None
                if isinstance(st, ast.Assign) and len(st.targets) == 1:
                    tg, val = st.targets[0], st.value
                elif isinstance(st, ast.AugAssign):
                    tg, val = st.target, st.value
                if not (isinstance(tg, ast.Attribute) and stmt_text(tg.value) == owner):
                    continue
                nloops += 1
                for r in ast.walk(val):
                    if isinstance(r, ast.Attribute) and r.attr == tg.attr and isinstance(r.value, ast.Name) \
                            and r.value.id == lv:
                        bad = (st, tg, r, it)
        construct = f'{fname}: a label is not accumulated in place while the parents (possibly the node itself) are read'
        if bad:
            st, tg, r, it = bad
            insts.append(Inst(
                RULE, fname, construct, 'violation',
                msg=(f"'{stmt_text(st, 90)}' updates {stmt_text(tg)} inside the loop over {stmt_text(it)} that reads "
                     f"{stmt_text(r)}: for a step that is its own parent (`| a -> a`) the loop reads the label it has "
                     f"just overwritten, so a self-supporting step is lowered although the labelling that keeps it "
                     f"satisfies every equation - the result is not the greatest fixed point"),
                file=rel, line=st.lineno, props=('C08',)))
        else:
            insts.append(Inst(RULE, fname, construct, 'ok', file=rel, line=f.node.lineno, props=('C08',),
                              nontrivial=True))
    return insts
