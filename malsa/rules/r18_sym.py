"""R18 SYM - both orientations of an association are treated alike, and explicitly.

Where code distinguishes the left and the right field of an association:
 (a) the orientation tests come in pairs that map to each other under swapping left/right
     (or first/second) - same conjuncts, same effect on the swapped side;
 (b) no orientation is *inferred*: an ``else`` (or fall-through) that uses one side's data because
     the test of the other side failed is a violation - an asset can sit on both sides of a
     self-association, or on neither;
 (c) navigation by field name (from an asset / asset type through field F) must test BOTH that F is
     the field on one side AND that the source sits on the opposite side;
 (d) the "association already created" lookup of LanguageGraph._generate_graph identifies an
     association by name AND left asset AND right asset (a pure conjunction): anything weaker drops
     distinct associations that share a name.
"""
from __future__ import annotations

import ast
import re

from ..core import own_nodes, stmt_text, AnalysisError
from ..report import Inst

RULE = 'R18'

SCOPE = [
    ('Model.get_associated_assets_by_field_name', ('C01', 'C05', 'C02'), True),
    ('LanguageGraph.process_step_expression', ('C15', 'C01'), True),
    ('LanguageGraph.get_association_by_fields_and_assets', ('C15', 'C18'), False),
    ('Model.association_exists_between_assets', ('C05', 'C06'), False),
]


def swap_lr(s: str) -> str:
    return re.sub(r'left|right', lambda m: 'right' if m.group(0) == 'left' else 'left', s)


def swap_fs(s: str) -> str:
    return re.sub(r'first|second', lambda m: 'second' if m.group(0) == 'first' else 'first', s)


def conjuncts(test):
    if isinstance(test, ast.BoolOp) and isinstance(test.op, ast.And):
        out = []
        for v in test.values:
            out += conjuncts(v)
        return out
    return [test]


def norm(test) -> tuple:
    return tuple(sorted(' '.join(stmt_text(c, 300).split()) for c in conjuncts(test)))


def sides(txt: str) -> set:
    return set(re.findall(r'left|right', txt))


def run(ctx) -> list[Inst]:
    prog = ctx.prog
    insts = []
    for (fname, props, navigation) in SCOPE:
        f = prog.func(fname)
        rel = f.module.relpath
        tests = []      # (If node, norm, text)
        for n in own_nodes(f.node):
            if isinstance(n, ast.If):
                txt = stmt_text(n.test, 400)
                if sides(txt):
                    tests.append((n, norm(n.test), txt))
        # (b') the same inference written as a conditional expression: `x = R if <asset on the left> else L`
        for n in own_nodes(f.node):
            if isinstance(n, ast.IfExp):
                ttxt = stmt_text(n.test, 400)
                tested = sides(ttxt)
                used = sides(stmt_text(n.orelse, 400))
                member = ' in ' in ttxt or 'is_subasset_of' in ttxt
                if len(tested) == 1 and used and member and not isinstance(n.orelse, ast.IfExp):
                    insts.append(Inst(
                        RULE, fname, f'(b) orientation is tested, not inferred: else of {ttxt[:70]}', 'violation',
                        msg=(f"'{stmt_text(n, 160)}' takes the {sorted(used)}-side value only because the "
                             f"{sorted(tested)}-side test failed: for an asset on both sides of a self-association one "
                             f"direction is never reported; for an asset on neither side a wrong side is used"),
                        file=rel, line=n.lineno, props=props))
        if not tests:
            insts.append(Inst(RULE, fname, 'orientation tests', 'unproven',
                              msg='no test distinguishing left/right found', file=rel, line=f.node.lineno,
                              props=props))
            continue
        normset = {t[1] for t in tests}
        for (n, nt, txt) in tests:
            construct = f'(a) orientation test has its mirror image: {txt[:90]}'
            s_lr = tuple(sorted(swap_lr(c) for c in nt))
            s_fs = tuple(sorted(swap_fs(c) for c in nt))
            both_sides_in_one = len(sides(txt)) == 2 and s_lr == nt
            if isinstance(n.test, ast.BoolOp) and isinstance(n.test.op, ast.Or):
                # `if <orientation A> or <orientation B>`: the disjuncts must map onto each other
                ds = {norm(v) for v in n.test.values}
                if {tuple(sorted(swap_lr(c) for c in d)) for d in ds} == ds or \
                        {tuple(sorted(swap_fs(c) for c in d)) for d in ds} == ds:
                    both_sides_in_one = True
            if s_lr in normset and s_lr != nt or s_fs in normset and s_fs != nt or both_sides_in_one:
                insts.append(Inst(RULE, fname, construct, 'ok', file=rel, line=n.lineno, props=props))
            elif len(sides(txt)) == 2 and (s_fs == nt or s_lr == nt):
                insts.append(Inst(RULE, fname, construct, 'ok', msg='self-symmetric', file=rel, line=n.lineno,
                                  props=props))
            elif len(sides(txt)) == 2 and 'first' not in txt and 'second' not in txt:
                # one test constraining both sides at once (left side by left value, right by right)
                insts.append(Inst(RULE, fname, construct, 'ok', msg='constrains both sides at once', file=rel,
                                  line=n.lineno, props=props))
            else:
                insts.append(Inst(
                    RULE, fname, construct, 'violation',
                    msg=(f"'{txt[:160]}' has no counterpart with left and right swapped: one orientation of the "
                         f"association is handled differently from the other"),
                    file=rel, line=n.lineno, props=props))
            # (b) inference through else
            # the branch taken when the membership test FAILED: `else` of a positive test, the body of a negated one
            t_ = n.test
            negated = (isinstance(t_, ast.Compare) and len(t_.ops) == 1 and isinstance(t_.ops[0], ast.NotIn)) or \
                      (isinstance(t_, ast.UnaryOp) and isinstance(t_.op, ast.Not))
            failed_branch = n.body if negated else n.orelse
            if negated and all(isinstance(x, (ast.Pass, ast.Continue)) for x in failed_branch):
                failed_branch = []
            if failed_branch:
                n_orelse = failed_branch
                used = sides(' '.join(stmt_text(s, 400) for s in n_orelse))
                tested = sides(txt)
                els_is_test = len(n_orelse) == 1 and isinstance(n_orelse[0], ast.If) and sides(stmt_text(n_orelse[0].test, 400))
                if used and not els_is_test and len(tested) == 1 and (used - tested or used):
                    insts.append(Inst(
                        RULE, fname, f'(b) orientation is tested, not inferred: else of {txt[:70]}', 'violation',
                        msg=(f"the else branch of 'if {txt[:120]}' uses {sorted(used)}-side data only because the "
                             f"{sorted(tested)}-side test failed: for an asset on both sides of a self-association "
                             f"one direction is returned twice and the other never; for an asset on neither side a "
                             f"wrong side is used"),
                        file=rel, line=n_orelse[0].lineno, props=props))
                elif used and not els_is_test:
                    insts.append(Inst(RULE, fname, f'(b) orientation is tested, not inferred: else of {txt[:70]}',
                                      'unproven', msg='else branch touches orientation data', file=rel,
                                      line=n_orelse[0].lineno, props=props))
            # (c) navigation completeness
            if navigation:
                cj = [' '.join(stmt_text(c, 300).split()) for c in conjuncts(n.test)]
                name_cj = [c for c in cj if ('fieldname' in c or 'field_name' in c) and '==' in c]
                if not name_cj:
                    continue
                construct_c = f'(c) field navigation tests the source on the opposite side: {txt[:80]}'
                unproven_c = False
                ok = True
                why = ''
                for c in name_cj:
                    sd = sides(c)
                    if len(sd) != 1:
                        continue
                    opp = 'right' if 'left' in sd else 'left'
                    src = [x for x in cj if x is not c and opp in sides(x) and
                           ('is_subasset_of' in x or ' in ' in x)]
                    if not src:
                        # the source test may sit in a nested `if` of this branch ...
                        nested = [x for b in n.body for x in ast.walk(b) if isinstance(x, ast.If)]
                        if any(opp in sides(stmt_text(x.test, 300)) and
                               ('is_subasset_of' in stmt_text(x.test, 300) or ' in ' in stmt_text(x.test, 300))
                               for x in nested):
                            continue
                        # ... or the side may be carried in a variable (`opposite = left if ... else right`) and
                        # tested through it: orientation no longer visible in the spelling -> not decided
                        neutral = [x for x in own_nodes(f.node) if isinstance(x, (ast.If, ast.IfExp))
                                   and not sides(stmt_text(x.test, 300))
                                   and ('is_subasset_of' in stmt_text(x.test, 300) or ' in ' in stmt_text(x.test, 300))
                                   and ('getattr' in stmt_text(x.test, 300) or 'field' in stmt_text(x.test, 300))]
                        if neutral:
                            unproven_c = True
                            continue
                        ok = False
                        why = (f"'{c}' selects the {next(iter(sd))} field by name, but nothing in the same test "
                               f"checks that the source asset/type sits on the {opp} side")
                if ok and unproven_c:
                    insts.append(Inst(RULE, fname, construct_c, 'unproven',
                                      msg='the side is carried in a variable; the source test is not spelled per side',
                                      file=rel, line=n.lineno, props=props))
                elif ok:
                    insts.append(Inst(RULE, fname, construct_c, 'ok', file=rel, line=n.lineno, props=props))
                else:
                    insts.append(Inst(
                        RULE, fname, construct_c, 'violation',
                        msg=why + ': a field name used by two associations (or both ends of one) resolves to the wrong target',
                        file=rel, line=n.lineno, props=props))
    # ---------------------------------------------------------------- (d) dedupe lookup
    f = prog.func('LanguageGraph._generate_graph')
    rel = f.module.relpath
    found = False
    for n in own_nodes(f.node):
        if isinstance(n, ast.Call) and isinstance(n.func, ast.Name) and n.func.id in ('next', 'any') and n.args \
                and isinstance(n.args[0], (ast.GeneratorExp, ast.ListComp)):
            g = n.args[0].generators[0]
            if 'associations' not in stmt_text(g.iter):
                continue
            if n.func.id == 'any' and not g.ifs:
                cond = n.args[0].elt          # any(<condition> for assoc in self.associations)
            elif g.ifs:
                cond = g.ifs[0] if len(g.ifs) == 1 else ast.BoolOp(op=ast.And(), values=list(g.ifs))
            else:
                continue
            found = True
            cj = conjuncts(cond)
            txts = [' '.join(stmt_text(c, 300).split()) for c in cj]
            pure = all(isinstance(c, ast.Compare) and len(c.ops) == 1 and isinstance(c.ops[0], (ast.Eq, ast.Is))
                       for c in cj)
            has_name = any('.name' in t and "['name']" in t for t in txts)
            has_left = any('left_field.asset' in t and 'left' in t.split('==')[-1] for t in txts)
            has_right = any('right_field.asset' in t and 'right' in t.split('==')[-1] for t in txts)
            construct = '(d) existing-association lookup: name and left asset and right asset'
            if pure and has_name and has_left and has_right:
                insts.append(Inst(RULE, f.short, construct, 'ok', file=rel, line=n.lineno, props=('C15', 'C06')))
            else:
                insts.append(Inst(
                    RULE, f.short, construct, 'violation',
                    msg=(f"the lookup that decides 'association already created' is '{stmt_text(cond, 200)}': it is "
                         f"not the conjunction name == and left asset == and right asset ==, so two different "
                         f"associations sharing a name (e.g. the same two asset types in opposite orientation) are "
                         f"treated as one and the second is dropped"),
                    file=rel, line=n.lineno, props=('C15', 'C06')))
    if not found:
        raise AnalysisError('R18d: existing-association lookup not found in LanguageGraph._generate_graph')
    return insts
