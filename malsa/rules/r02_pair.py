"""R2 PAIR / DETACH - mirrored relations move together; removal cleans every referrer.

PAIR    a primitive in-place add / remove / whole-list rebind on field F of a relation pair F<->F'
        is control-equivalent (cfg.covered) with the same-direction change of the mirror field F';
        when the objects can be named (value identity), `a.F gets b` must be mirrored by
        `b.F' gets a`.  Removals that are part of detaching the object removed from its primary
        container fall under DETACH instead.
        P5 (pjs): a change of membership of an association field is accompanied by an update of
        the member asset's `associations` list; adding/removing an association to/from the model
        updates `associations` of its members.
DETACH  a function that removes object o from a primary container cleans every referrer listed
        in the reference table of o's class (directly or through a callee).
Frozen exceptions: AttackGraph._from_dict restores children and parents independently from the two
serialised mirrors of the same record - rule there: both sides are restored in the same function.
The __deepcopy__ methods re-link fresh copies from the original's lists: decided by R7c instead.
"""
from __future__ import annotations

import ast

from ..cfg import covered
from ..core import stmt_text, own_nodes
from ..effects import DYN, ELEM
from ..report import Inst
from .r03_index import dclass

RULE = 'R2'

PAIRS = [
    ('P1', 'AttackGraphNode', 'children', 'AttackGraphNode', 'parents', ('C01', 'C09')),
    ('P2', 'AttackGraphNode', 'compromised_by', 'Attacker', 'reached_attack_steps', ('C11', 'C09')),
    ('P3', 'LanguageGraphAsset', 'super_assets', 'LanguageGraphAsset', 'sub_assets', ('C15',)),
    ('P4', 'LanguageGraphAttackStep', 'children', 'LanguageGraphAttackStep', 'parents', ('C15',)),
]
PRIMARIES = {('AttackGraph', 'nodes'), ('AttackGraph', 'attackers'), ('Model', 'assets'),
             ('Model', 'associations'), ('Model', 'attackers')}
# referrers that must be cleaned when an object leaves its primary container
DETACH = {
    ('AttackGraph', 'nodes'): ([('parents', 'AttackGraphNode'), ('children', 'AttackGraphNode'),
                                ('compromised_by|reached_attack_steps', 'Attacker'),
                                ('entry_points@attackers', 'Attacker')], ('C09', 'C13', 'C10')),
    # the nodes that list an attacker are exactly its reached steps (P2): the clean-up ranges over THAT list
    ('AttackGraph', 'attackers'): ([('compromised_by@reached_attack_steps', 'AttackGraphNode')], ('C09', 'C11', 'C13')),
    ('Model', 'assets'): ([(DYN, ''), ('entry_points', 'AttackerAttachment')], ('C05', 'C02', 'C07', 'C01')),
    ('Model', 'associations'): ([('associations', 'pjs')], ('C05',)),
}
# functions that restore each side of a relation independently from an already mirrored source
# (one line of reason each); rule there: both sides are restored in the same function
INDEPENDENT_RESTORE = {
    'AttackGraph._from_dict',     # both serialised mirrors of one record are read back
}
# relation fields of fresh copies are re-linked from the original's own lists through the memo:
# completeness of that relinking is rule R7c's obligation, not a mirrored update
DEFERRED_TO_R7 = {'AttackGraph.__deepcopy__', 'AttackGraphNode.__deepcopy__', 'Attacker.__deepcopy__'}


def field_of(e, cls, field):
    """does effect e act on <obj of cls>.field (the list itself, or its per-key bucket for dicts)?"""
    steps = e.path.steps
    if not steps:
        return False
    if steps[-1] == field and e.ptype == cls:
        return True
    if len(steps) >= 2 and steps[-2] == field and steps[-1].startswith('[') and e.ptype == cls:
        return True
    return False


def _is_empty_bucket_init(e) -> bool:
    """`d[k] = []` / `d.setdefault(k, [])`: creates the (empty) per-key bucket of a dict-of-lists relation"""
    src = e.src
    if e.kind == 'item-set' and isinstance(src, ast.Assign) and isinstance(src.value, (ast.List, ast.Dict)) \
            and not getattr(src.value, 'elts', getattr(src.value, 'keys', None)):
        return True
    if e.kind == 'item-set' and isinstance(src, ast.Call) and isinstance(src.func, ast.Attribute) \
            and src.func.attr == 'setdefault' and len(src.args) == 2 and isinstance(src.args[1], ast.List) \
            and not src.args[1].elts:
        return True
    return False


def _prim_args(R, e):
    """(value id of the object owning the field, value id of the element added/removed)"""
    src = e.src
    if not isinstance(src, ast.Call) or not isinstance(src.func, ast.Attribute) or e.node is None:
        return None, None
    recv = src.func.value
    while isinstance(recv, ast.Subscript):
        recv = recv.value
    owner = recv.value if isinstance(recv, ast.Attribute) else None
    ov = R.value_id(owner, e.node) if owner is not None else None
    av = None
    if len(src.args) == 1:
        a = src.args[0]
        # (object, annotation) pairs of dict-of-lists relations: the related object is element 0
        if isinstance(a, ast.Name):
            defs = R.cfg.reaching(e.node, a.id)
            if len(defs) == 1 and defs[0].kind == 'stmt' and isinstance(defs[0].ast, ast.Assign) \
                    and isinstance(defs[0].ast.value, ast.Tuple) and defs[0].ast.value.elts:
                return ov, R.value_id(defs[0].ast.value.elts[0], defs[0])
        if isinstance(a, ast.Tuple) and a.elts:
            a = a.elts[0]
        av = R.value_id(a, e.node)
    return ov, av


def _callers(ctx):
    """callee qname -> list of (caller Func, call ast, CFG node)"""
    out = {}
    for g in ctx.prog.all_funcs():
        for call, res, node in ctx.an.of(g).calls:
            if res[0] == 'func':
                out.setdefault(res[1].qname, []).append((g, call, node))
    return out


def _detached_params(ctx, f, callers):
    """parameters of helper f that every caller binds to an object it removes from a primary container
    (so that f runs in a DETACH context of its caller)."""
    sites = callers.get(f.qname, [])
    if not sites:
        return set()
    result = None
    for (g, call, node) in sites:
        Rg = ctx.R(g)
        removed = set()
        for e in ctx.an.of(g).effects:
            if not e.chain and e.kind == 'remove' and e.path.steps and (e.ptype, e.path.steps[-1]) in PRIMARIES \
                    and isinstance(e.src, ast.Call) and len(e.src.args) == 1:
                v = Rg.value_id(e.src.args[0], e.node)
                if v is not None:
                    removed.add(v)
        amap = ctx.an.arg_map(call, f, call.func.value if isinstance(call.func, ast.Attribute) else None)
        here = set()
        for p, a in amap.items():
            if a is None or isinstance(a, str):
                continue
            if Rg.value_id(a, node) in removed:
                here.add(p)
        result = here if result is None else (result & here)
    return result or set()


DELEGATES = [
    # node-side spellings of the attacker operations: (function, parameter the request is about, method delegated to)
    ('AttackGraphNode.compromise', 'attacker', 'compromise'),
    ('AttackGraphNode.undo_compromise', 'attacker', 'undo_compromise'),
]


def _delegations(ctx) -> list[Inst]:
    """DELEGATE  node.compromise(a) / node.undo_compromise(a) ARE a.compromise(node) / a.undo_compromise(node): every
    normally returning path performs the delegation, or skips it under a test that involves the attacker asked about
    (what another attacker did to the node does not answer this attacker's request)."""
    out = []
    for (fname, param, meth) in DELEGATES:
        if not ctx.prog.has_func(fname):
            continue
        f = ctx.prog.func(fname)
        if param not in f.params:
            continue
        cfg = ctx.cfg(f)
        rel = f.module.relpath
        construct = f'DELEGATE: {fname} hands every request to {param}.{meth}'
        calls = [cfg.owner(n) for n in own_nodes(f.node) if isinstance(n, ast.Call) and isinstance(n.func, ast.Attribute)
                 and n.func.attr == meth and isinstance(n.func.value, ast.Name) and n.func.value.id == param]
        calls = [c for c in calls if c is not None]
        if not calls:
            out.append(Inst(RULE, f.short, construct, 'unproven', msg='delegation not found (implemented here?)', file=rel,
                            line=f.node.lineno, props=('C11', 'C09'), nontrivial=False))
            continue
        reach = cfg.reachable_from(cfg.entry, avoiding={c.idx for c in calls})
        if cfg.exit.idx not in reach:
            out.append(Inst(RULE, f.short, construct, 'ok', file=rel, line=f.node.lineno, props=('C11', 'C09')))
            continue
        # which tests let a path slip past the delegation?
        bad = None
        for g in cfg.nodes:
            if g.kind == 'if' and g.idx in reach:
                for t, lab in g.succ:
                    r2 = cfg.reachable_from(t, avoiding={c.idx for c in calls})
                    if (t is cfg.exit or cfg.exit.idx in r2) and not any(
                            isinstance(x, ast.Name) and x.id == param for x in ast.walk(g.ast.test)):
                        others = [t2 for t2, _l in g.succ if t2 is not t]
                        cidx = {c.idx for c in calls}
                        if not any(o.idx in cidx or (o is not cfg.exit and cfg.exit.idx not in cfg.reachable_from(o, avoiding=cidx))
                                   for o in others):
                            continue
                        # undo only: "nobody has compromised the node" implies "this attacker has not": skipping then is
                        # exactly what the delegate would do
                        tst = g.ast.test
                        neg = isinstance(tst, ast.UnaryOp) and isinstance(tst.op, ast.Not)
                        core = tst.operand if neg else tst
                        nobody = (isinstance(core, ast.Call) and isinstance(core.func, ast.Attribute) and core.func.attr == 'is_compromised'
                                  and not core.args) or (isinstance(core, ast.Attribute) and core.attr == 'compromised_by')
                        if meth == 'undo_compromise' and nobody and ((neg and lab == 'T') or (not neg and lab == 'F')):
                            continue
                        bad = g
        if bad is not None:
            out.append(Inst(
                RULE, f.short, construct, 'violation',
                msg=(f"'if {stmt_text(bad.ast.test, 60)}' lets {fname} return without calling {param}.{meth}(self), and the "
                     f"test does not involve '{param}': whether THIS attacker's request is carried out is decided by "
                     f"what any attacker did to the node - with two attackers the node side and the attacker side "
                     f"of the relation stop agreeing with what was asked"),
                file=rel, line=bad.ast.lineno, props=('C11', 'C09')))
        else:
            out.append(Inst(RULE, f.short, construct, 'unproven', msg='a path returns without the delegation', file=rel,
                            line=f.node.lineno, props=('C11', 'C09'), nontrivial=False))
    return out


def _attach_additive(ctx) -> list[Inst]:
    """ATTACH  AttackGraph.attach_attackers makes ONE graph attacker per model attacker: inside its loop over the model's
    attackers nothing removes a graph attacker (two model attackers may share a name; the one made for the first must
    still be there after the second is handled)."""
    fname = 'AttackGraph.attach_attackers'
    if not ctx.prog.has_func(fname):
        return []
    f = ctx.prog.func(fname)
    rel = f.module.relpath
    construct = 'ATTACH: no graph attacker is removed while the model attackers are being attached'
    out = []
    loops = [lp for lp in own_nodes(f.node) if isinstance(lp, ast.For) and 'attackers' in stmt_text(lp.iter, 100)
             and 'model' in stmt_text(lp.iter, 100)]
    for lp in loops:
        for n in ast.walk(lp):
            if isinstance(n, ast.Call) and isinstance(n.func, ast.Attribute) and (
                    n.func.attr == 'remove_attacker' or
                    (n.func.attr in ('remove', 'pop', 'clear') and isinstance(n.func.value, ast.Attribute)
                     and n.func.value.attr == 'attackers' and isinstance(n.func.value.value, ast.Name)
                     and n.func.value.value.id == f.self_name)):
                out.append(Inst(
                    RULE, f.short, construct, 'violation',
                    msg=(f"'{stmt_text(n, 60)}' removes graph attackers inside the loop over the model's attackers: an "
                         f"attacker created for an earlier model attacker (same name, say) is taken out again - fewer "
                         f"graph attackers than model attackers, their entry points compromised by nobody"),
                    file=rel, line=n.lineno, props=('C11', 'C09')))
    if loops and not out:
        out.append(Inst(RULE, f.short, construct, 'ok', file=rel, line=loops[0].lineno, props=('C11', 'C09')))
    return out


def run(ctx) -> list[Inst]:
    prog, an = ctx.prog, ctx.an
    insts: list[Inst] = _delegations(ctx) + _attach_additive(ctx)
    callers = _callers(ctx)
    for f in prog.all_funcs():
        facts = an.of(f)
        if not facts.effects:
            continue
        cfg = ctx.cfg(f)
        R = ctx.R(f)
        rel = f.module.relpath
        own = [e for e in facts.effects if not e.chain and not e.path.truncated]
        # objects this function removes from a primary container (DETACH context)
        detached_vids = set()
        primary_removals = []
        for e in own:
            if e.kind == 'remove' and e.path.steps and (e.ptype, e.path.steps[-1]) in PRIMARIES:
                primary_removals.append(e)
                if isinstance(e.src, ast.Call) and len(e.src.args) == 1:
                    v = R.value_id(e.src.args[0], e.node)
                    if v is not None:
                        detached_vids.add(v)
        # helper extracted from a removing function: its parameter is the object being detached
        for p in _detached_params(ctx, f, callers):
            detached_vids.add(('param', p))
        # ---------------------------------------------------------------- PAIR P1-P4
        for (pn, c1, f1, c2, f2, props) in PAIRS:
            for (ca, fa, cb, fb) in ((c1, f1, c2, f2), (c2, f2, c1, f1)):
                for e in own:
                    if not field_of(e, ca, fa):
                        continue
                    c = dclass(e)
                    if c is None:
                        continue
                    if _is_empty_bucket_init(e):
                        continue
                    ov, av = _prim_args(R, e)
                    construct = f'{pn}: {c} on {ca}.{fa} mirrored on {cb}.{fb}'
                    if c == 'remove' and (av in detached_vids or ov in detached_vids) and \
                            (av is not None or ov is not None):
                        insts.append(Inst(RULE, f.short, construct + ' (detach context)', 'ok',
                                          msg='part of detaching an object leaving its container',
                                          file=rel, line=e.lineno, props=props))
                        continue
                    mirrors = [d for d in facts.effects
                               if field_of(d, cb, fb) and dclass(d) == c and d.node is not None
                               and (not d.chain or d.cmust) and d is not e and not _is_empty_bucket_init(d)]
                    if f.short in DEFERRED_TO_R7:
                        insts.append(Inst(RULE, f.short, construct, 'info',
                                          msg='copy relinking: decided by R7c', file=rel,
                                          line=e.lineno, props=props, nontrivial=False))
                        continue
                    if f.short in INDEPENDENT_RESTORE:
                        ok = bool(mirrors)
                        why = 'independent restore of both serialised mirrors (frozen exception)'
                    else:
                        good = []
                        for d in mirrors:
                            if not d.chain:
                                dov, dav = _prim_args(R, d)
                                if None not in (ov, av, dov, dav) and not (dov == av and dav == ov):
                                    continue        # mirrors a different pair of objects
                            good.append(d)
                        ok = covered(cfg, e.node, [d.node for d in good])
                        why = 'mirror update is control-equivalent'
                    untyped_sites = 0
                    if not ok:
                        # updates of a `.fb` whose receiver the type environment could not name (an object fetched from a
                        # local index, `idx.get(k)`): they may well be the mirror - not decided
                        def chain_has(x):
                            while isinstance(x, (ast.Subscript, ast.Attribute, ast.Call)):
                                if isinstance(x, ast.Attribute) and x.attr == fb:
                                    return True
                                x = x.func if isinstance(x, ast.Call) else x.value
                            return False
                        for n_ in own_nodes(f.node):
                            if isinstance(n_, ast.Assign) and any(isinstance(t_, ast.Subscript) and chain_has(t_.value)
                                                                   for t_ in n_.targets):
                                untyped_sites += 1
                            if isinstance(n_, ast.Call) and isinstance(n_.func, ast.Attribute) \
                                    and n_.func.attr in ('append', 'extend', 'add', 'remove', 'pop', 'discard') and chain_has(n_.func.value):
                                untyped_sites += 1
                    # a private one-sided helper (`node._add_compromising_attacker(a)`): the pairing is the callers' job -
                    # every caller must perform the converse update next to the call
                    sites_ = callers.get(f.qname, [])
                    if not ok and f.name.startswith('_') and not f.name.startswith('__') and sites_:
                        def caller_mirrors(h, hnode):
                            hf = an.of(h)
                            hm = [d for d in hf.effects if field_of(d, cb, fb) and dclass(d) == c and d.node is not None
                                  and (not d.chain or d.cmust)]
                            return covered(ctx.cfg(h), hnode, [d.node for d in hm]) if hnode is not None else bool(hm)
                        if all(caller_mirrors(h, hnode) for (h, _c, hnode) in sites_):
                            insts.append(Inst(RULE, f.short, construct, 'ok',
                                              msg=f'one-sided private helper; every one of its {len(sites_)} callers performs the converse update next to the call',
                                              file=rel, line=e.lineno, props=props))
                            continue
                    if ok:
                        insts.append(Inst(RULE, f.short, construct, 'ok', msg=why, file=rel,
                                          line=e.lineno, props=props))
                    elif untyped_sites > len([d for d in mirrors if not d.chain]):
                        insts.append(Inst(RULE, f.short, construct, 'unproven',
                                          msg=(f"{untyped_sites} update(s) of a '.{fb}' in {f.short} are on objects whose class "
                                               f"is not resolved (fetched from a local index): possibly the mirror"),
                                          file=rel, line=e.lineno, props=props))
                    else:
                        insts.append(Inst(
                            RULE, f.short, construct, 'violation',
                            msg=(f"'{e.text}' changes {ca}.{fa} but the converse update of {cb}.{fb} "
                                 f"(same objects, same direction) is not performed on every normally "
                                 f"continuing path through it"),
                            file=rel, line=e.lineno, props=props))
        # ---------------------------------------------------------------- PAIR P5 (pjs)
        p5props = ('C05',)
        for e in own:
            steps = e.path.steps
            if not steps:
                continue
            c = dclass(e)
            if steps[-1] == DYN and c in ('add', 'remove') and f.cls is not None and f.cls.name == 'Model':
                mirrors = [d for d in facts.effects
                           if d.path.steps and d.path.steps[-1] == 'associations'
                           and (d.ptype == 'pjs' or DYN in d.path.steps)
                           and d.node is not None and (not d.chain or d.cmust)]
                ok = covered(cfg, e.node, [d.node for d in mirrors])
                construct = f'P5: {c} on an association field mirrored on asset.associations'
                if ok:
                    insts.append(Inst(RULE, f.short, construct, 'ok', file=rel, line=e.lineno,
                                      props=p5props))
                else:
                    insts.append(Inst(
                        RULE, f.short, construct, 'violation',
                        msg=(f"'{e.text}' changes the membership of an association field but the "
                             f"asset's own 'associations' list is not updated on every normally "
                             f"continuing path: the asset keeps listing an association that no "
                             f"longer lists it"),
                        file=rel, line=e.lineno, props=p5props))
            if steps[-1] == 'associations' and e.ptype == 'Model' and c in ('add', 'remove'):
                mirrors = [d for d in facts.effects
                           if d.path.steps and d.path.steps[-1] == 'associations'
                           and (d.ptype == 'pjs' or DYN in d.path.steps)]
                construct = f'P5: {c} on Model.associations updates member assets'
                # updates of `<x>.associations` on objects whose class is not resolved (members handed over by a helper
                # as (name, assets) pairs ..): possibly the mirror - not decided
                untyped_ = [n_ for n_ in own_nodes(f.node)
                            if (isinstance(n_, ast.Assign) and any(isinstance(t_, ast.Attribute) and t_.attr == 'associations'
                                                                    and isinstance(t_.value, ast.Name) and t_.value.id != f.self_name
                                                                    for t_ in n_.targets))
                            or (isinstance(n_, ast.Call) and isinstance(n_.func, ast.Attribute) and n_.func.attr in ('append', 'remove')
                                and isinstance(n_.func.value, ast.Attribute) and n_.func.value.attr == 'associations'
                                and isinstance(n_.func.value.value, ast.Name) and n_.func.value.value.id != f.self_name)]
                if mirrors:
                    insts.append(Inst(RULE, f.short, construct, 'ok', file=rel, line=e.lineno,
                                      props=p5props))
                elif untyped_:
                    insts.append(Inst(RULE, f.short, construct, 'unproven',
                                      msg=f"'{stmt_text(untyped_[0], 60)}' updates an associations list of an object whose class is not resolved",
                                      file=rel, line=e.lineno, props=p5props))
                else:
                    insts.append(Inst(
                        RULE, f.short, construct, 'violation',
                        msg=(f"'{e.text}' changes Model.associations but no member asset's "
                             f"'associations' list is updated in this function"),
                        file=rel, line=e.lineno, props=p5props))
        # ---------------------------------------------------------------- DETACH
        for e in primary_removals:
            key = (e.ptype, e.path.steps[-1])
            if key not in DETACH:
                continue
            refs, props = DETACH[key]
            for (field, owner) in refs:
                via = None
                if '@' in field:
                    # no mirror field exists for this referrer: the clean-up has to range over the
                    # whole owner container (`via`), not over a subset of it
                    field, via = field.split('@')
                names = field.split('|')
                found = [d for d in facts.effects
                         if d.path.steps and dclass(d) in ('remove', 'rebind')
                         and any(d.path.steps[-1] == nm or
                                 (len(d.path.steps) > 1 and d.path.steps[-2] == nm
                                  and d.path.steps[-1].startswith('['))
                                 for nm in names)
                         and (not owner or d.ptype == owner or d.ptype == '')
                         and d is not e]
                construct = f'DETACH: leaving {key[0]}.{key[1]} cleans {field}'
                if found and via is not None and not any(via in d.path.steps for d in found):
                    d = found[0]
                    insts.append(Inst(
                        RULE, f.short, construct, 'violation',
                        msg=(f"'{d.text}' removes the object from '{field}' only for the objects reached "
                             f"through {d.path!r}; '{field}' has no mirror field, so every element of "
                             f"{key[0]}.{via} has to be examined (an attacker whose entry point it is need not "
                             f"have compromised it)"),
                        file=rel, line=d.lineno, props=props))
                    continue
                if found:
                    insts.append(Inst(RULE, f.short, construct, 'ok',
                                      msg=f'{found[0].func}: {found[0].text}', file=rel,
                                      line=e.lineno, props=props))
                else:
                    insts.append(Inst(
                        RULE, f.short, construct, 'violation',
                        msg=(f"'{e.text}' removes an object from {key[0]}.{key[1]} but nothing in "
                             f"{f.short} (or its callees) removes it from '{field}' of the objects "
                             f"that still refer to it"),
                        file=rel, line=e.lineno, props=props))
    insts += _setlike(ctx)
    insts += _listing_per_membership(ctx)
    return insts


def _listing_per_membership(ctx) -> list:
    """PERFIELD  Model.add_association lists the association on an asset once per FIELD MEMBERSHIP (an asset on both
    sides of a reflexive association is listed twice): remove_asset_from_association / remove_association take one
    listing away per field the asset sits in.  Listing from a de-duplicated collection of the members breaks that
    pairing (the second removal raises after the fields were already edited)."""
    import ast
    from ..core import own_nodes, stmt_text
    prog = ctx.prog
    if not prog.has_func('Model.add_association'):
        return []
    f = prog.func('Model.add_association')
    rel = f.module.relpath
    insts = []
    pmap = {}
    for x in ast.walk(f.node):
        for ch in ast.iter_child_nodes(x):
            pmap[id(ch)] = x
    construct = 'PERFIELD: the association is listed on an asset once per field membership'
    verdict = None
    for lp in own_nodes(f.node):
        if not isinstance(lp, ast.For):
            continue
        writes = [x for x in ast.walk(lp) if (isinstance(x, ast.Attribute) and x.attr == 'associations'
                                               and isinstance(x.ctx, ast.Store)) or
                  (isinstance(x, ast.Call) and isinstance(x.func, ast.Attribute) and x.func.attr in ('append', 'extend')
                   and isinstance(x.func.value, ast.Attribute) and x.func.value.attr == 'associations')]
        if not writes or not isinstance(lp.iter, ast.Name):
            continue
        # the loop ranges over a local: is that local filled under a `not in` test of itself (a de-duplication)?
        for x in own_nodes(f.node):
            if isinstance(x, ast.Call) and isinstance(x.func, ast.Attribute) and x.func.attr in ('append', 'add') \
                    and isinstance(x.func.value, ast.Name) and x.func.value.id == lp.iter.id:
                cur = x
                while id(cur) in pmap:
                    cur = pmap[id(cur)]
                    if isinstance(cur, ast.If) and any(
                            isinstance(c, ast.Compare) and isinstance(c.ops[0], ast.NotIn) and isinstance(c.comparators[0], ast.Name)
                            and c.comparators[0].id == lp.iter.id for c in ast.walk(cur.test)):
                        verdict = (lp, cur)
                        break
        if isinstance(lp.iter, ast.Name):
            for x in own_nodes(f.node):
                if isinstance(x, ast.Assign) and len(x.targets) == 1 and isinstance(x.targets[0], ast.Name) \
                        and x.targets[0].id == lp.iter.id and isinstance(x.value, (ast.Set, ast.SetComp)) or (
                        isinstance(x, ast.Assign) and len(x.targets) == 1 and isinstance(x.targets[0], ast.Name)
                        and x.targets[0].id == lp.iter.id and isinstance(x.value, ast.Call) and isinstance(x.value.func, ast.Name)
                        and x.value.func.id in ('set', 'frozenset')):
                    verdict = (lp, x)
    if verdict is not None:
        lp, why = verdict
        insts.append(Inst(
            RULE, f.short, construct, 'violation',
            msg=(f"'for {stmt_text(lp.target)} in {stmt_text(lp.iter)}' lists the association once per DISTINCT member "
                 f"('{stmt_text(why, 60)}'): an asset sitting in both fields of a reflexive association is listed once, "
                 f"but remove_asset_from_association drops one listing per field - the second drop raises ValueError after "
                 f"the fields were already changed"),
            file=rel, line=lp.lineno, props=('C05', 'C01')))
    else:
        insts.append(Inst(RULE, f.short, construct, 'ok', file=rel, line=f.node.lineno, props=('C05', 'C01'), nontrivial=False))
    return insts


SETLIKE = {'entry_points': ('Attacker',), 'reached_attack_steps': ('Attacker',), 'compromised_by': ('AttackGraphNode',)}


def _setlike(ctx) -> list:
    """SETLIKE  remove_node / remove_attacker / undo_compromise detach with ONE list.remove per holder, so the lists
    they clean (attacker.entry_points, attacker.reached_attack_steps, node.compromised_by) must never hold an
    element twice: every `.append(x)` on them is guarded by a membership test of x on the same list (or sits in
    Attacker.compromise behind its is_compromised_by guard, decided by table T15)."""
    import ast
    from ..core import own_nodes
    prog = ctx.prog
    insts = []
    for f in prog.all_funcs():
        if f.module.generated or f.name == '__deepcopy__':
            continue
        env = prog.env(f)
        cfg = ctx.cfg(f)
        rel = f.module.relpath
        for n in own_nodes(f.node):
            if not (isinstance(n, ast.Call) and isinstance(n.func, ast.Attribute) and n.func.attr in ('append', 'insert')
                    and isinstance(n.func.value, ast.Attribute) and n.func.value.attr in SETLIKE and n.args):
                continue
            lst = n.func.value
            t = env.type_of(lst.value)
            owner = t[1] if t[0] == 'cls' else None
            if owner is not None and owner not in SETLIKE[lst.attr]:
                continue            # AttackerAttachment.entry_points (model side) holds (asset, steps) tuples
            if owner is None and 'attackgraph' not in rel:
                continue
            x = n.args[-1]
            ltxt, xtxt = stmt_text(lst), stmt_text(x)
            node = cfg.owner(n)
            guarded = False
            if f.short in ('Attacker.compromise',):
                guarded = True
            for g in cfg.nodes:
                if g.kind != 'if' or not cfg.dominates(g, node) or g is node:
                    continue
                for c in ast.walk(g.ast.test):
                    if isinstance(c, ast.Compare) and len(c.ops) == 1 and isinstance(c.ops[0], (ast.In, ast.NotIn)) \
                            and stmt_text(c.comparators[0]) == ltxt and stmt_text(c.left) == xtxt:
                        guarded = True
                    if isinstance(c, ast.Call) and isinstance(c.func, ast.Attribute) and c.func.attr == 'is_compromised_by':
                        guarded = True
            construct = f'SETLIKE: {ltxt}.append({xtxt}) cannot add a duplicate'
            props = ('C09', 'C11', 'C13') if lst.attr != 'entry_points' else ('C09', 'C11', 'C13', 'C10')
            guard_at_callers = False
            if not guarded and f.name.startswith('_') and not f.name.startswith('__'):
                # a private one-statement helper: the membership guard belongs to its callers
                sites_ = _callers(ctx).get(f.qname, [])
                def caller_guards(h, hnode):
                    hcfg = ctx.cfg(h)
                    for g_ in hcfg.nodes:
                        if g_.kind == 'if' and hnode is not None and hcfg.dominates(g_, hnode) and g_ is not hnode:
                            t_ = stmt_text(g_.ast.test, 300)
                            if 'is_compromised_by' in t_ or (' in ' in t_ and lst.attr in t_):
                                return True
                    return False
                guard_at_callers = bool(sites_) and all(caller_guards(h, hn) for (h, _c, hn) in sites_)
            if guarded or guard_at_callers:
                insts.append(Inst(RULE, f.short, construct, 'ok', msg='guarded at every call site' if guard_at_callers else '',
                                  file=rel, line=n.lineno, props=props))
            else:
                insts.append(Inst(
                    RULE, f.short, construct, 'violation',
                    msg=(f"'{stmt_text(n, 60)}' is not guarded by a membership test of {xtxt} on {ltxt}: the same node "
                         f"can be listed twice, and the removers detach with a single list.remove - after remove_node / "
                         f"remove_attacker / undo a reference to an object that left the graph stays behind"),
                    file=rel, line=n.lineno, props=props))
    return insts
