"""R8 CODEC - writer and reader tables of the dict codecs agree.

From each writer the shape ``key path -> (conversion, source field, conditional?)`` is extracted,
from each reader ``key path -> (conversion, destination field, guarded?)`` (codec.py).  Rules:
 (i)   every written key that carries property-relevant content is read by the reader;
 (ii)  every key the reader reads unguarded is written unconditionally by the writer;
 (iii) writer and reader conversions are inverse w.r.t. the declared type of the source field
       (str(float)<->float(), str(bool)<-> == 'True', identity<->identity / idempotent casts;
       str(list) has no accepted inverse) and the value lands in the field it came from;
       ids used as mapping keys are re-int()ed before they are used as ids (JSON stringifies keys);
 (iv)  a mapping built by ``d[k(x)] = ...`` over a collection is keyed by an entry of the
       unique-key table (each entry justified by a guard another rule re-checks);
 (v)   sibling serialisers of the same kind of payload apply the same conversion;
 (vi)  the extension tables of save_dict_to_file and the load_from_file functions agree;
 (vii) string templates that name the same thing agree (node full name; association sub-entry).
"""
from __future__ import annotations

import ast

from ..codec import WriterShapes, reader_facts, WFact, RFact
from ..core import stmt_text, own_nodes, const_str, AnalysisError
from ..report import Inst

RULE = 'R8'

CODECS = [
    dict(name='attack graph', writer='AttackGraph._to_dict', reader='AttackGraph._from_dict',
         root='serialized_object', props=('C10',),
         unread_ok={('attack_steps', '*', 'compromised_by'):
                    'redundant: restored through the attackers\' reached_attack_steps'}),
    dict(name='model', writer='Model._to_dict', reader='Model._from_dict',
         root='serialized_object', props=('C07',),
         unread_ok={('metadata', 'langVersion'): 'metadata other than the name is outside C07\'s content',
                    ('metadata', 'langID'): 'same', ('metadata', 'malVersion'): 'same',
                    ('metadata', 'MAL-Toolbox Version'): 'same', ('metadata', 'info'): 'same'},
         # the reader looks for 'MAL Toolbox Version' (blank), the writer emits 'MAL-Toolbox Version' (hyphen): the
         # version stamp of a file is never read back (remark D32) - metadata other than the name is outside C07
         unwritten_ok={('metadata', 'MAL Toolbox Version'): 'version stamp, outside C07 (remark D32)'}),
]
KW_FIELD = {'node_id': 'id', 'attacker_id': 'id', 'asset_id': 'id'}

# (class, attribute) pairs that are unique among the live objects of a container, with the
# justification re-checked elsewhere
UNIQUE_KEYS = {
    ('AttackGraphNode', 'id'): 'R4b guard on _id_to_node',
    ('AttackGraphNode', 'full_name'): 'unique asset name (R4d) or unique id, ":", step name (dict key of the step table)',
    ('Attacker', 'id'): 'R4b guard on _id_to_attacker',
    ('pjs', 'id'): 'R4b guard on asset_ids',
    ('pjs', 'name'): 'R4d',
}


def norm(path):
    return tuple('*' if s == '[]' else s for s in path)


def roundtrip(ftype, wconv, rconv):
    """True / False / None (unknown) : does reader(writer(x)) give x back for a field of ftype?"""
    t = ftype[0] if ftype else 'unk'
    if rconv.startswith('eq:'):
        lit = rconv[3:]
        if t == 'bool':
            return wconv == 'str' and lit == "'True'"
        return False
    if wconv == 'id':
        if rconv == 'id':
            return True
        if rconv in ('float', 'int', 'str', 'bool', 'list', 'dict'):
            return {'float': 'float', 'int': 'int', 'str': 'str', 'bool': 'bool', 'list': 'list',
                    'dict': 'dict'}[rconv] == t or (rconv == 'float' and t == 'int') or None
        return None
    if wconv == 'str':
        if t in ('list', 'dict', 'set', 'tuple'):
            return rconv == 'parse'
        if t == 'float':
            return rconv == 'float'
        if t == 'int':
            return rconv == 'int'
        if t == 'bool':
            return False        # only == 'True' inverts str(bool)
        if t == 'str':
            return rconv in ('id', 'str')
        return None
    if wconv in ('list', 'sorted', 'tuple') or wconv.startswith('listcomp'):
        return rconv in ('id', 'list') if t in ('list', 'unk') else None
    if wconv == 'float':
        return rconv in ('id', 'float')
    if wconv == 'int':
        return rconv in ('id', 'int')
    if wconv == 'as_dict':
        return rconv in ('id', 'dict')
    if wconv == 'dict':
        return rconv in ('id', 'dict')
    return None


def key_origin(ctx, f, expr, node, depth=0):
    """-> ('attr', Class, attr) | ('dictkey',) | ('const',) | None for the key of a built mapping."""
    if depth > 5 or expr is None:
        return None
    prog = ctx.prog
    env = prog.env(f)
    cfg = ctx.cfg(f)
    if isinstance(expr, ast.Call) and isinstance(expr.func, ast.Name) and expr.func.id in ('int', 'str') \
            and len(expr.args) == 1:
        return key_origin(ctx, f, expr.args[0], node, depth + 1)
    if isinstance(expr, ast.Constant):
        return ('const',)
    if isinstance(expr, ast.Attribute):
        if expr.attr == '__name__':
            return ('const',)
        bt = env.type_of(expr.value)
        if bt[0] == 'cls':
            return ('attr', bt[1], expr.attr)
        if bt == ('pjs',):
            return ('attr', 'pjs', expr.attr)
        return None
    if isinstance(expr, ast.Name):
        R = ctx.R(f)
        cb = R.comp_of_name.get(id(expr))
        if cb is not None and cb[0] == 'iter':
            it, idx = cb[1], cb[2]
            if isinstance(it, ast.Call) and isinstance(it.func, ast.Name) and it.func.id == 'map' and len(it.args) == 2:
                fake = ast.Call(func=it.args[0], args=[ast.Name(id='_', ctx=ast.Load())], keywords=[])
                ast.copy_location(fake, it)
                ast.fix_missing_locations(fake)
                res = env.resolve_call(fake)
                if res[0] == 'func' and len(idx) == 1:
                    callee = res[1]
                    for n in own_nodes(callee.node):
                        if isinstance(n, ast.Return) and isinstance(n.value, ast.Tuple) and idx[0] < len(n.value.elts):
                            return key_origin(ctx, callee, n.value.elts[idx[0]], ctx.cfg(callee).node_of(n), depth + 1)
            if isinstance(it, ast.Call) and isinstance(it.func, ast.Attribute) and it.func.attr in ('items', 'keys') \
                    and idx in ((0,), ()):
                return ('dictkey',)
            return None
        defs = cfg.reaching(node, expr.id) if node is not None else []
        if cb is None and len(defs) == 1:
            d = defs[0]
            a = d.ast
            if d.kind == 'for':
                it = a.iter
                idx = R._target_index(a.target, expr.id)
                if isinstance(it, ast.Call) and isinstance(it.func, ast.Attribute) \
                        and it.func.attr in ('items', 'keys') and (idx in ((0,), ())):
                    return ('dictkey',)
                if isinstance(it, (ast.Name, ast.Attribute)) and idx == ():
                    t = env.type_of(it)
                    if t[0] == 'dict':
                        return ('dictkey',)
                return None
            if d.kind == 'stmt' and isinstance(a, ast.Assign):
                for t in a.targets:
                    if isinstance(t, ast.Name) and t.id == expr.id:
                        return key_origin(ctx, f, a.value, d, depth + 1)
                    if isinstance(t, (ast.Tuple, ast.List)) and isinstance(a.value, ast.Call):
                        for i, el in enumerate(t.elts):
                            if isinstance(el, ast.Name) and el.id == expr.id:
                                res = env.resolve_call(a.value)
                                if res[0] == 'func':
                                    callee = res[1]
                                    for n in own_nodes(callee.node):
                                        if isinstance(n, ast.Return) and isinstance(n.value, ast.Tuple) \
                                                and i < len(n.value.elts):
                                            return key_origin(ctx, callee, n.value.elts[i],
                                                              ctx.cfg(callee).node_of(n), depth + 1)
        return None
    return None


def run(ctx) -> list[Inst]:
    prog = ctx.prog
    insts: list[Inst] = []
    ws = WriterShapes(ctx)
    for cd in CODECS:
        wf = prog.func(cd['writer'])
        rf = prog.func(cd['reader'])
        props = cd['props']
        ws.opaque = set()
        W = ws.of_func(wf)
        writer_opaque = bool(ws.opaque)
        # the serialised record is the first parameter after cls / self (not a spelling of the plan)
        rparams = [p for p in rf.params if p not in ('cls', 'self')]
        root = rparams[0] if rparams else cd['root']
        Rf = reader_facts(ctx, rf, root)
        if len(W) < 5 or len(Rf) < 5:
            raise AnalysisError(f"R8: shape extraction for the {cd['name']} codec found too little "
                                f"({len(W)} written, {len(Rf)} read keys): idiom not recognised")
        wby = {}
        for w in W:
            wby.setdefault(norm(w.path), []).append(w)
        rby = {}
        for r in Rf:
            rby.setdefault(norm(r.path), []).append(r)
        rel_w = wf.module.relpath
        rel_r = rf.module.relpath
        # a record (or part of it) parked in a local container - `todo.append((node, node_dict))` - and read back later
        # is outside the access paths followed here: "never read" cannot be claimed for that reader
        derived = {root}
        for _ in range(3):
            for n in own_nodes(rf.node):
                if isinstance(n, ast.Assign) and len(n.targets) == 1 and isinstance(n.targets[0], ast.Name) \
                        and any(isinstance(x, ast.Name) and x.id in derived for x in ast.walk(n.value)):
                    derived.add(n.targets[0].id)
                if isinstance(n, ast.For) and any(isinstance(x, ast.Name) and x.id in derived for x in ast.walk(n.iter)):
                    for x in ast.walk(n.target):
                        if isinstance(x, ast.Name):
                            derived.add(x.id)
        reader_parks = any(
            isinstance(n, ast.Call) and isinstance(n.func, ast.Attribute) and n.func.attr in ('append', 'add', 'setdefault')
            and any(isinstance(a, (ast.Tuple, ast.List)) and any(isinstance(e, ast.Name) and e.id in derived and e.id != root
                                                                   for e in a.elts) for a in n.args)
            for n in own_nodes(rf.node))
        # ---------------------------------------------------------------- (i)
        for path, wl in sorted(wby.items()):
            if path[-1] == '*':
                continue
            w = wl[0]
            construct = f"(i) {cd['name']}: written key {'/'.join(path)} is read back"
            reads = [r for r in rby.get(path, []) if r.kind in ('sub', 'get')]
            if reads:
                insts.append(Inst(RULE, w.func.short, construct, 'ok', file=w.func.module.relpath,
                                  line=getattr(w.value, 'lineno', 0), props=props))
            elif path in cd['unread_ok']:
                insts.append(Inst(RULE, w.func.short, construct + ' [documented exception]', 'info',
                                  msg=cd['unread_ok'][path], file=w.func.module.relpath,
                                  line=getattr(w.value, 'lineno', 0), props=props, nontrivial=False))
            elif reader_parks:
                insts.append(Inst(RULE, w.func.short, construct, 'unproven',
                                  msg=(f"no read of '{path[-1]}' seen, but {rf.short} keeps records in a local container "
                                       f"and reads them back from there (not followed)"),
                                  file=w.func.module.relpath, line=getattr(w.value, 'lineno', 0), props=props))
            else:
                insts.append(Inst(
                    RULE, w.func.short, construct, 'violation',
                    msg=(f"{w.func.short} writes '{path[-1]}' (from {w.src or stmt_text(w.value)}) but "
                         f"{rf.short} never reads it: the content is lost on load"),
                    file=w.func.module.relpath, line=getattr(w.value, 'lineno', 0), props=props))
        # ---------------------------------------------------------------- (ii)
        for path, rl in sorted(rby.items()):
            for r in rl:
                if r.kind != 'sub' or r.guarded:
                    continue
                construct = f"(ii) {cd['name']}: unguarded read of {'/'.join(path)} is always written"
                wl = wby.get(path, [])
                if any(not w.conditional for w in wl):
                    v = 'ok'
                    msg = ''
                elif wl:
                    v = 'violation'
                    msg = (f"{rf.short} reads '{path[-1]}' without a presence test but "
                           f"{wl[0].func.short} writes it only conditionally ({wl[0].guard}): loading "
                           f"what was saved raises KeyError when the value is absent")
                elif writer_opaque:
                    v = 'unproven'
                    msg = (f"no write of '{path[-1]}' seen, but part of the record is built by a construct whose keys "
                           f"are not read (dict(<call>), .copy())")
                else:
                    v = 'violation'
                    msg = (f"{rf.short} reads '{path[-1]}' without a presence test but the writer never "
                           f"emits that key")
                insts.append(Inst(RULE, rf.short, construct, v, msg=msg, file=rel_r,
                                  line=r.expr.lineno, props=props))
                break
        # ---------------------------------------------------------------- (ii''') restored keys are written somewhere
        # a key the reader restores under a presence test but that no writer ever emits is dead on the way in and
        # LOST on the way out: whatever the field held does not survive a save / load
        for path, rl in sorted(rby.items()):
            if path[-1] in ('*', '[]') or path in wby:
                continue
            r0 = next((r for r in rl if r.kind in ('sub', 'get', 'in') and r.guarded), None)
            if r0 is None or any(r.kind == 'sub' and not r.guarded for r in rl):
                continue
            # only below a record the writer does produce (same parent path written)
            if not any(w.path[:-1] == path[:-1] for w in W if len(w.path) == len(path)):
                continue
            if path in cd.get('unwritten_ok', {}):
                continue
            construct = f"(ii) {cd['name']}: {'/'.join(path)} restored by the reader is written by the writer"
            # the key cannot be written without being named: when its literal occurs somewhere in the writer's code
            # (the function and what it reaches) it is probably written in a form the shape extraction does not read
            named = False
            try:
                for g_ in ctx.an.reachable([wf]).values():
                    if any(isinstance(x, ast.Constant) and x.value == path[-1] for x in ast.walk(g_.node)):
                        named = True
            except Exception:
                named = True
            insts.append(Inst(
                RULE, wf.short, construct, 'unproven' if (writer_opaque or named) else 'violation',
                msg=(f"{rf.short} restores '{path[-1]}' when the record has it, but {wf.short} never writes that key "
                     f"(its sibling keys are written): the value does not survive a save / load round trip"),
                file=rel_w, line=wf.node.lineno, props=props))
        # ---------------------------------------------------------------- (ii') omission guards
        for path, wl in sorted(wby.items()):
            for w in wl:
                if not w.conditional or path[-1] == '*' or w.guard_test is None:
                    continue
                construct = f"(ii') {cd['name']}: {'/'.join(path)} omitted only when it equals the reader's default"
                ttxt = stmt_text(w.guard_test)
                subject = None
                if w.guard == 'not-none' and isinstance(w.guard_test, ast.Compare):
                    subject = stmt_text(w.guard_test.left)
                elif w.guard == 'truthy':
                    subject = ttxt
                vtxt = stmt_text(w.value)
                same_subject = subject is not None and (subject in vtxt or (w.src and subject.endswith(w.src.split('.', 1)[-1])))
                falsy_loss = False
                if w.guard == 'truthy' and same_subject and w.src and w.src.startswith('self.') and w.func.cls is not None \
                        and len(w.src.split('.')) == 2:
                    ft_ = prog.field_type(w.func.cls.name, w.src.split('.')[1])
                    # a truthiness guard drops EVERY falsy value: fine for a container whose empty state is the reader's
                    # default, wrong for flags, numbers and optional strings (False, 0.0, '' are values of their own)
                    if ft_ and ft_[0] not in ('list', 'dict', 'set', 'unk'):
                        falsy_loss = True
                if falsy_loss:
                    insts.append(Inst(
                        RULE, w.func.short, construct, 'violation',
                        msg=(f"'{path[-1]}' is written only 'if {ttxt}': a truthiness test also drops the values False / 0 / '' of "
                             f"{w.src}; the reader then assumes its default (True for the analysis labels, None for an "
                             f"annotation) - a lowered label or an empty annotation does not survive the file"),
                        file=w.func.module.relpath, line=w.guard_test.lineno,
                        props=props + (('C08', 'C19') if w.func.short == 'AttackGraphNode.to_dict' else ())))
                elif w.guard in ('not-none', 'truthy') and same_subject:
                    insts.append(Inst(RULE, w.func.short, construct, 'ok', msg=f'if {ttxt}',
                                      file=w.func.module.relpath, line=w.guard_test.lineno, props=props))
                elif w.guard in ('not-none', 'truthy'):
                    insts.append(Inst(
                        RULE, w.func.short, construct, 'violation',
                        msg=(f"'{path[-1]}' (from {vtxt}) is written only 'if {ttxt}', a test of a different "
                             f"value: it can be omitted although it differs from what the reader assumes"),
                        file=w.func.module.relpath, line=w.guard_test.lineno, props=props))
                else:
                    insts.append(Inst(
                        RULE, w.func.short, construct, 'violation',
                        msg=(f"'{path[-1]}' (from {vtxt}) is written only 'if {ttxt}': that is neither a "
                             f"None test nor the emptiness of the value itself, so a value different from the "
                             f"reader's default can be dropped on save"),
                        file=w.func.module.relpath, line=w.guard_test.lineno, props=props))
        # ---------------------------------------------------------------- (iii)
        for path, wl in sorted(wby.items()):
            if path[-1] == '*':
                continue
            for w in wl:
                if w.conv.startswith('lossy:'):
                    insts.append(Inst(
                        RULE, w.func.short, f"(iii) {cd['name']}: {'/'.join(path)} is written without loss", 'violation',
                        msg=(f"'{path[-1]}' is written as '{stmt_text(w.value, 70)}': {w.conv[6:]} maps different "
                             f"values of {w.src or 'the field'} to the same text, no reader can restore them "
                             f"(the loaded value differs from the saved one)"),
                        file=w.func.module.relpath, line=w.value.lineno,
                        # the neo4j export sends what AttackGraphNode.to_dict produces
                        props=props + (('C19',) if w.func.short == 'AttackGraphNode.to_dict' else ())))
                    continue
                if w.conv in ('dict', 'call', 'list-literal', 'const', 'other', 'none'):
                    continue
                reads = [r for r in rby.get(path, []) if r.kind in ('sub', 'get')
                         and r.dest and (r.dest.startswith('attr:') or r.dest.startswith('kw:'))]
                if not reads:
                    continue
                # declared type of the source field
                ftype = ('unk',)
                sfield = None
                if w.src and w.src.startswith('self.') and w.func.cls is not None:
                    sfield = w.src.split('.')[1]
                    ftype = prog.field_type(w.func.cls.name, sfield)
                    if len(w.src.split('.')) > 2:
                        ftype = ('str',) if w.src.endswith('.name') else ('unk',)
                elif w.src and '.' in w.src:
                    sfield = w.src.split('.')[1]
                    for sub in ast.walk(w.value):
                        if isinstance(sub, ast.Attribute) and stmt_text(sub).endswith(w.src):
                            ftype = prog.env(w.func).type_of(sub)
                            break
                for r in reads:
                    dfield = r.dest.split(':', 1)[1]
                    dfield = KW_FIELD.get(dfield, dfield)
                    construct = f"(iii) {cd['name']}: {'/'.join(path)} conversions invert ({w.conv} / {r.conv})"
                    rt = roundtrip(ftype, w.conv, r.conv)
                    if sfield and len((w.src or '').split('.')) == 2 and dfield != sfield \
                            and w.src.startswith('self.'):
                        insts.append(Inst(
                            RULE, rf.short, construct, 'violation',
                            msg=(f"'{path[-1]}' is written from {w.src} but read into field '{dfield}'"),
                            file=rel_r, line=r.expr.lineno, props=props))
                    elif rt is True:
                        insts.append(Inst(RULE, rf.short, construct, 'ok', file=rel_r,
                                          line=r.expr.lineno, props=props))
                    elif rt is False:
                        insts.append(Inst(
                            RULE, rf.short, construct, 'violation',
                            msg=(f"writer stores {w.conv}({w.src}) [declared {ftype[0]}], reader applies "
                                 f"'{r.conv}': the loaded value differs from the saved one "
                                 f"({w.func.short}: {stmt_text(w.value)} / {rf.short}: {stmt_text(r.expr)})"),
                            file=rel_r, line=r.expr.lineno, props=props))
                    else:
                        insts.append(Inst(RULE, rf.short, construct, 'unproven',
                                          msg=f'unknown conversion pair for type {ftype[0]}', file=rel_r,
                                          line=r.expr.lineno, props=props))
        # ---------------------------------------------------------------- (iv)
        seen_iv = set()
        for w in W:
            if w.keyexpr is None or not w.path or w.path[-1] != '*':
                continue
            org = key_origin(ctx, w.func, w.keyexpr, w.node)
            ktxt = stmt_text(w.keyexpr)
            if org is not None and org[0] == 'attr':
                ktxt = f'{org[1]}.{org[2]}'       # resolved origin, independent of local spellings
            construct = f"(iv) {cd['name']}: mapping {'/'.join(norm(w.path))} keyed by {ktxt}"
            if construct in seen_iv:
                continue
            seen_iv.add(construct)
            # keys of a dict literal with computed keys: one literal, finitely many distinct keys
            if w.literal:
                insts.append(Inst(RULE, w.func.short, construct, 'ok', msg='key of a dict literal',
                                  file=w.func.module.relpath, line=w.keyexpr.lineno, props=props,
                                  nontrivial=False))
                continue
            if org is None:
                insts.append(Inst(RULE, w.func.short, construct, 'unproven',
                                  msg='origin of the key not resolved', file=w.func.module.relpath,
                                  line=w.keyexpr.lineno, props=props))
            elif org[0] in ('dictkey', 'const'):
                insts.append(Inst(RULE, w.func.short, construct, 'ok', msg='keys of a dict are distinct',
                                  file=w.func.module.relpath, line=w.keyexpr.lineno, props=props))
            elif (org[1], org[2]) in UNIQUE_KEYS:
                insts.append(Inst(RULE, w.func.short, construct, 'ok',
                                  msg=f'{org[1]}.{org[2]} is unique: {UNIQUE_KEYS[(org[1], org[2])]}',
                                  file=w.func.module.relpath, line=w.keyexpr.lineno, props=props))
            else:
                insts.append(Inst(
                    RULE, w.func.short, construct, 'violation',
                    msg=(f"the serialised mapping is keyed by {org[1]}.{org[2]}, which no guard keeps "
                         f"unique: two objects with the same {org[2]} collapse into one entry and one "
                         f"of them is lost on save"),
                    file=w.func.module.relpath, line=w.keyexpr.lineno, props=props))
        # ---------------------------------------------------------------- (v)
        bylast = {}
        for w in W:
            if w.path and w.path[-1] not in ('*', '[]') and w.src and w.conv not in ('dict', 'call'):
                attr = w.src.split('.')[-1]
                bylast.setdefault((w.path[-1], attr), []).append(w)
        for (k, attr), wl in sorted(bylast.items()):
            convs = {w.conv for w in wl}
            structured = convs & {'as_dict', 'dict', 'list', 'sorted'} or any(c.startswith('listcomp') for c in convs)
            if len(wl) > 1 and len({w.func.short for w in wl}) > 1 and structured:
                construct = f"(v) {cd['name']}: sibling serialisers of '{k}' use the same conversion"
                if len(convs) == 1:
                    insts.append(Inst(RULE, wl[0].func.short, construct, 'ok', file=wl[0].func.module.relpath,
                                      line=getattr(wl[0].value, 'lineno', 0), props=props))
                else:
                    odd = wl[-1]
                    insts.append(Inst(
                        RULE, odd.func.short, construct, 'violation',
                        msg=('; '.join(f'{w.func.short}: {stmt_text(w.value)}' for w in wl)
                             + ' - the same kind of payload is serialised differently (the raw form is '
                               'not JSON-serialisable / is not what the reader restores)'),
                        file=odd.func.module.relpath, line=getattr(odd.value, 'lineno', 0), props=props))
        # ---------------------------------------------------------------- (xii) containers are filled
        for path, wl in sorted(wby.items()):
            if path[-1] == '*':
                continue
            w = wl[0]
            if not (isinstance(w.value, (ast.Dict, ast.List)) and not (getattr(w.value, 'keys', None) or getattr(w.value, 'elts', None))):
                continue
            if len(wl) > 1 or not [r for r in rby.get(path, []) if r.kind in ('sub', 'get')]:
                continue
            construct = f"(xii) {cd['name']}: container {'/'.join(path)} written empty is filled before it is saved"
            filled = any(len(p) > len(path) and p[:len(path)] == path for p in wby)
            if filled:
                insts.append(Inst(RULE, w.func.short, construct, 'ok', file=w.func.module.relpath,
                                  line=w.value.lineno, props=props))
            else:
                insts.append(Inst(
                    RULE, w.func.short, construct, 'violation',
                    msg=(f"'{path[-1]}' is written as the empty literal '{stmt_text(w.value)}' and nothing is ever "
                         f"stored into it, but {rf.short} restores the field from its members: whatever the object "
                         f"held is lost on save"),
                    file=w.func.module.relpath, line=w.value.lineno, props=props))
    insts += _absent_defaults(ctx)
    insts += _ids_through_adders(ctx)
    insts += _id_keys(ctx)
    insts += _extensions(ctx)
    insts += _file_layer(ctx)
    insts += _stale_locals(ctx)
    insts += _positional_keys(ctx)
    insts += _default_omission(ctx)
    insts += _discriminator_keys(ctx)
    insts += _signature_args(ctx)
    insts += _templates(ctx)
    return insts


# ------------------------------------------------------------------------------------------------
# (iii, second part) ids that travelled as mapping keys are int()-ed before use as ids
ID_LOOKUPS = {'get_node_by_id', 'get_asset_by_id', 'get_attacker_by_id'}


def _id_keys(ctx) -> list[Inst]:
    """Taint: names bound by iterating a mapping read from a serialised record (its keys) are
    'string-maybe'; passing one to get_*_by_id / add_*(.._id=) without int() is a violation.
    Flow-sensitive on locals (reaching definitions), propagated through package calls by
    parameter (context-insensitive)."""
    prog = ctx.prog
    insts = []
    work = [('AttackGraph._from_dict', 'serialized_object', ('C10',)),
            ('Model._from_dict', 'serialized_object', ('C07',)),
            ('load_model_from_version_0_0_39._process_model', 'model_dict', ('C18',))]
    reported = set()
    for (fname, root, props) in work:
        if not prog.has_func(fname):
            continue
        f0 = prog.func(fname)
        rparams = [p for p in f0.params if p not in ('cls', 'self')]
        todo = [(f0, {(rparams[0] if rparams else root): 'record'})]
        done = set()
        while todo:
            f, seeds = todo.pop()
            key = (f.qname, tuple(sorted(seeds.items())))
            if key in done:
                continue
            done.add(key)
            env = prog.env(f)
            cfg = ctx.cfg(f)
            R = ctx.R(f)
            # names used as containers (subscripted / .items() / .keys() / .get()): records, not keys
            container_use = set()
            for n in own_nodes(f.node):
                if isinstance(n, ast.Subscript) and isinstance(n.value, ast.Name):
                    container_use.add(n.value.id)
                if isinstance(n, ast.Call) and isinstance(n.func, ast.Attribute) \
                        and isinstance(n.func.value, ast.Name) \
                        and n.func.attr in ('items', 'keys', 'values', 'get', 'pop'):
                    container_use.add(n.func.value.id)
            kinds: dict[tuple, str] = {(p, cfg.entry.idx): k for p, k in seeds.items()}

            def kind_of(e, node):
                if isinstance(e, ast.Name):
                    cb = R.comp_of_name.get(id(e))
                    if cb is not None and cb[0] == 'iter':
                        return iter_kind(cb[1], cb[2], e.id, node)
                    ks = {kinds.get((e.id, d.idx)) for d in cfg.reaching(node, e.id)} if node is not None else set()
                    for pref in ('key', 'keys', 'record'):
                        if pref in ks:
                            return pref
                    return None
                if isinstance(e, ast.Subscript):
                    return 'record' if kind_of(e.value, node) == 'record' else None
                if isinstance(e, ast.Call) and isinstance(e.func, ast.Attribute):
                    if e.func.attr in ('get', 'pop') and kind_of(e.func.value, node) == 'record':
                        return 'record'
                    if e.func.attr == 'keys' and kind_of(e.func.value, node) == 'record':
                        return 'keys'
                    return None
                if isinstance(e, ast.Call) and isinstance(e.func, ast.Name) \
                        and e.func.id in ('list', 'sorted', 'tuple', 'iter', 'reversed') and e.args:
                    return kind_of(e.args[0], node)
                if isinstance(e, ast.IfExp):
                    return kind_of(e.body, node) or kind_of(e.orelse, node)
                return None

            def iter_kind(it, idx, name, node):
                """kind of a variable bound at tuple position idx while iterating `it`."""
                if isinstance(it, ast.Call) and isinstance(it.func, ast.Attribute) and not it.args:
                    base = kind_of(it.func.value, node)
                    if base == 'record':
                        if it.func.attr == 'items':
                            return 'key' if idx == (0,) else ('record' if idx == (1,) else None)
                        if it.func.attr == 'keys':
                            return 'key'
                        if it.func.attr == 'values':
                            return 'record'
                k = kind_of(it, node)
                if k == 'keys':
                    return 'key'
                if k == 'record' and idx == ():
                    return 'record' if name in container_use else 'key'
                return None

            changed = True
            while changed:
                changed = False
                for d in cfg.nodes:
                    a = d.ast
                    new = {}
                    if d.kind == 'for':
                        names = []
                        cfg._targets(a.target, names)
                        for nm in names:
                            idx = R._target_index(a.target, nm)
                            k = iter_kind(a.iter, idx, nm, d)
                            if k:
                                new[nm] = k
                    elif d.kind == 'stmt' and isinstance(a, ast.Assign) and len(a.targets) == 1 \
                            and isinstance(a.targets[0], ast.Name):
                        k = kind_of(a.value, d)
                        if k:
                            new[a.targets[0].id] = k
                    for nm, k in new.items():
                        if kinds.get((nm, d.idx)) != k:
                            kinds[(nm, d.idx)] = k
                            changed = True
            # sinks, sanitised uses, propagation
            for n in own_nodes(f.node):
                if not isinstance(n, ast.Call):
                    continue
                node = cfg.owner(n)
                fname_called = n.func.attr if isinstance(n.func, ast.Attribute) else (
                    n.func.id if isinstance(n.func, ast.Name) else '')
                if fname_called == 'int' and n.args and kind_of(n.args[0], node) == 'key':
                    ckey = (f.short, 'int', stmt_text(n))
                    if ckey not in reported:
                        reported.add(ckey)
                        insts.append(Inst(RULE, f.short, f'(iii) id key re-int()ed: {stmt_text(n)}', 'ok',
                                          file=f.module.relpath, line=n.lineno, props=props))
                    continue
                res = env.resolve_call(n)
                callee = res[1] if res[0] == 'func' else (res[2] if res[0] == 'ctor' else None)
                args = list(enumerate(n.args)) + [(kw.arg, kw.value) for kw in n.keywords if kw.arg]
                for pos, a in args:
                    k = kind_of(a, node)
                    if k not in ('key', 'keys'):
                        continue
                    is_id_sink = fname_called in ID_LOOKUPS or (isinstance(pos, str) and pos.endswith('_id'))
                    if is_id_sink and k == 'key':
                        ckey = (f.short, stmt_text(n))
                        if ckey in reported:
                            continue
                        reported.add(ckey)
                        insts.append(Inst(
                            RULE, f.short, f'(iii) id key used without int(): {stmt_text(n, 70)}', 'violation',
                            msg=(f"'{stmt_text(a)}' is a key of a serialised mapping (a string after a JSON "
                                 f"round trip) and is used as an id without int(): the lookup fails for "
                                 f"files written as JSON"),
                            file=f.module.relpath, line=n.lineno, props=props))
                    elif callee is not None:
                        params = list(callee.params)
                        if callee.is_method:
                            params = params[1:]
                        pname = None
                        if isinstance(pos, int) and pos < len(params):
                            pname = params[pos]
                        elif isinstance(pos, str) and pos in callee.params:
                            pname = pos
                        if pname:
                            todo.append((callee, {pname: k}))
    return insts


# ------------------------------------------------------------------------------------------------
def _ext_table(f):
    """extension string -> set of callee names dispatched to under that test."""
    table = {}
    # validation form: `if not name.endswith((..)): raise` - every listed extension goes on to what follows
    pmv = {}
    for n in ast.walk(f.node):
        for fld in ('body', 'orelse'):
            blk = getattr(n, fld, None)
            if isinstance(blk, list):
                for i_, st_ in enumerate(blk):
                    pmv[id(st_)] = (blk, i_)
    for n in own_nodes(f.node):
        if isinstance(n, ast.If) and isinstance(n.test, ast.UnaryOp) and isinstance(n.test.op, ast.Not) \
                and isinstance(n.test.operand, ast.Call) and isinstance(n.test.operand.func, ast.Attribute) \
                and n.test.operand.func.attr == 'endswith' and n.test.operand.args \
                and any(isinstance(x, ast.Raise) for b in n.body for x in ast.walk(b)) and id(n) in pmv:
            a = n.test.operand.args[0]
            exts = [a.value] if isinstance(a, ast.Constant) else [x.value for x in getattr(a, 'elts', []) if isinstance(x, ast.Constant)]
            blk, i_ = pmv[id(n)]
            calls = set()
            for st in blk[i_ + 1:]:
                for sub in ast.walk(st):
                    if isinstance(sub, ast.Call):
                        calls.add(sub.func.attr if isinstance(sub.func, ast.Attribute) else (sub.func.id if isinstance(sub.func, ast.Name) else ''))
            for e in exts:
                if isinstance(e, str):
                    table.setdefault(e.lstrip('.'), set()).update(calls)
    for n in own_nodes(f.node):
        if isinstance(n, ast.If):
            exts = []
            for sub in ast.walk(n.test):
                if isinstance(sub, ast.Call) and isinstance(sub.func, ast.Attribute) and sub.func.attr == 'endswith':
                    a = sub.args[0] if sub.args else None
                    if isinstance(a, ast.Constant) and isinstance(a.value, str):
                        exts.append(a.value)
                    elif isinstance(a, ast.Tuple):
                        exts += [x.value for x in a.elts if isinstance(x, ast.Constant)]
            if exts:
                calls = set()
                for st in n.body:
                    for sub in ast.walk(st):
                        if isinstance(sub, ast.Call):
                            nm = sub.func.attr if isinstance(sub.func, ast.Attribute) else (
                                sub.func.id if isinstance(sub.func, ast.Name) else '')
                            calls.add(nm)
                        # a reader / writer selected here and called later: the reference counts
                        if isinstance(sub, ast.Name) and isinstance(sub.ctx, ast.Load):
                            calls.add(sub.id)
                        if isinstance(sub, ast.Attribute) and isinstance(sub.ctx, ast.Load):
                            calls.add(sub.attr)
                # helpers defined inside f (or in its module) that are called here: what THEY call / mention counts too
                local_defs = {x.name: x for x in ast.walk(f.node) if isinstance(x, ast.FunctionDef) and x is not f.node}
                local_defs.update({k: v.node for k, v in f.module.functions.items() if k not in local_defs})
                for nm in list(calls):
                    d = local_defs.get(nm)
                    if d is not None:
                        for sub in ast.walk(d):
                            if isinstance(sub, ast.Call):
                                calls.add(sub.func.attr if isinstance(sub.func, ast.Attribute) else (
                                    sub.func.id if isinstance(sub.func, ast.Name) else ''))
                            if isinstance(sub, ast.Name) and isinstance(sub.ctx, ast.Load):
                                calls.add(sub.id)
                for e in exts:
                    table.setdefault(e.lstrip('.'), set()).update(calls)
    return table


def _ext_readable(f) -> bool:
    """is every `x.endswith(..)` of f a plain positive test of an `if` / `elif` (the dispatch form _ext_table reads)?
    A result kept in a local, negated, or steering a conditional expression is another way of dispatching."""
    pm = {}
    for n in ast.walk(f.node):
        for ch in ast.iter_child_nodes(n):
            pm[id(ch)] = n
    for n in own_nodes(f.node):
        if isinstance(n, ast.Call) and isinstance(n.func, ast.Attribute) and n.func.attr == 'endswith':
            cur, child = pm.get(id(n)), n
            ok = False
            while cur is not None:
                if isinstance(cur, ast.If) and cur.test is child:
                    ok = True
                    break
                if isinstance(cur, ast.UnaryOp) and isinstance(cur.op, ast.Not) and isinstance(pm.get(id(cur)), ast.If) \
                        and pm[id(cur)].test is cur and any(isinstance(x, ast.Raise) for b in pm[id(cur)].body for x in ast.walk(b)):
                    ok = True       # `if not name.endswith((..)): raise` - the validation form _ext_table reads
                    break
                if isinstance(cur, ast.BoolOp) and isinstance(cur.op, ast.Or):
                    child, cur = cur, pm.get(id(cur))
                    continue
                break
            if not ok:
                return False
    return True


def _extensions(ctx) -> list[Inst]:
    prog = ctx.prog
    insts = []
    save = prog.func('save_dict_to_file')
    st = _ext_table(save)
    loaders = [('Model.load_from_file', ('C07',)), ('AttackGraph.load_from_file', ('C10',)),
               ('load_model_from_version_0_0_39', ('C18',))]
    for ext, calls in sorted(st.items()):
        fam = 'yaml' if ext in ('yml', 'yaml') else ext
        ok = any(fam in c for c in calls)
        insts.append(Inst(RULE, save.short, f'(vi) .{ext} saved through the {fam} writer',
                          'ok' if ok else 'violation',
                          msg='' if ok else f'.{ext} dispatches to {sorted(calls)}',
                          file=save.module.relpath, line=save.node.lineno, props=('C07', 'C10')))
    for (ln, props) in loaders:
        lf = prog.func(ln)
        lt = _ext_table(lf)
        construct = f'(vi) extension table of {ln} equals that of save_dict_to_file'
        if not _ext_readable(lf) or not _ext_readable(save):
            insts.append(Inst(RULE, ln, construct, 'unproven',
                              msg='extension tests are kept in locals / negated / steer a conditional expression: dispatch not read',
                              file=lf.module.relpath, line=lf.node.lineno, props=props))
            continue
        if set(lt) == set(st):
            insts.append(Inst(RULE, ln, construct, 'ok', msg=', '.join(sorted(lt)),
                              file=lf.module.relpath, line=lf.node.lineno, props=props))
        elif not lt or not st:
            # no `filename.endswith(<constants>)` dispatch found on one side (delegated to a helper, a table, a
            # suffix map ..): nothing to compare
            insts.append(Inst(RULE, ln, construct, 'unproven',
                              msg=f'extension dispatch not in a form this rule reads (save: {sorted(st)}, load: {sorted(lt)})',
                              file=lf.module.relpath, line=lf.node.lineno, props=props))
        else:
            insts.append(Inst(
                RULE, ln, construct, 'violation',
                msg=(f'save accepts {sorted(st)} but {ln} accepts {sorted(lt)}: a file that was saved '
                     f'cannot be loaded back (or vice versa)'),
                file=lf.module.relpath, line=lf.node.lineno, props=props))
        for ext, calls in sorted(lt.items()):
            fam = 'yaml' if ext in ('yml', 'yaml') else ext
            libs = {c for c in calls if c in ('json', 'yaml')}
            ok = (fam in libs) if libs else any(fam in c for c in calls)
            insts.append(Inst(RULE, ln, f'(vi) .{ext} loaded through the {fam} reader',
                              'ok' if ok else 'violation',
                              msg='' if ok else f'.{ext} dispatches to {sorted(calls)}',
                              file=lf.module.relpath, line=lf.node.lineno, props=props))
    return insts


# ------------------------------------------------------------------------------------------------
def _positional_keys(ctx) -> list[Inst]:
    """(x) a reader never picks a key of a serialised mapping by POSITION (`list(d.keys())[0]`, `list(d)[0]`,
    `next(iter(d))`, `d.popitem()`): the YAML writer sorts keys and the entry may carry sibling keys (an
    association entry holds its type AND optionally 'extras'), so the first key is not a fixed one."""
    prog = ctx.prog
    insts = []
    readers = [('Model._from_dict', ('C07',)), ('AttackGraph._from_dict', ('C10',)),
               ('load_model_from_version_0_0_39._process_model', ('C18',))]
    for fname, props in readers:
        if not prog.has_func(fname):
            continue
        f = prog.func(fname)
        rel = f.module.relpath
        bad = []
        for n in own_nodes(f.node):
            # list(X.keys())[0] / list(X)[0]
            if isinstance(n, ast.Subscript) and isinstance(n.slice, ast.Constant) and n.slice.value in (0, -1) \
                    and isinstance(n.value, ast.Call) and isinstance(n.value.func, ast.Name) \
                    and n.value.func.id in ('list', 'tuple', 'sorted') and n.value.args:
                a = n.value.args[0]
                if (isinstance(a, ast.Call) and isinstance(a.func, ast.Attribute) and a.func.attr in ('keys', 'items')) \
                        or isinstance(a, ast.Name):
                    if n.value.func.id != 'sorted':
                        bad.append(n)
            # next(iter(X))
            if isinstance(n, ast.Call) and isinstance(n.func, ast.Name) and n.func.id == 'next' and n.args \
                    and isinstance(n.args[0], ast.Call) and isinstance(n.args[0].func, ast.Name) \
                    and n.args[0].func.id == 'iter':
                bad.append(n)
            if isinstance(n, ast.Call) and isinstance(n.func, ast.Attribute) and n.func.attr == 'popitem':
                bad.append(n)
        construct = f'(x) {fname} selects no key of the input by position'
        if bad:
            insts.append(Inst(
                RULE, fname, construct, 'violation',
                msg=(f"'{stmt_text(bad[0], 60)}' takes whichever key comes first: an entry that also holds 'extras' "
                     f"(or any sibling key) is read wrongly as soon as the file lists that key first - the YAML writer "
                     f"sorts keys, so a type name sorting after the sibling key breaks loading"),
                file=rel, line=bad[0].lineno, props=props))
        else:
            insts.append(Inst(RULE, fname, construct, 'ok', file=rel, line=f.node.lineno, props=props))
    return insts


def _default_omission(ctx) -> list[Inst]:
    """(ii'') a defense value is left out of the file only when it EQUALS the default the reader will assume: the test
    that decides the omission is an exact `==` / `!=` with `<value>.default()`.  A tolerance (isclose, round, abs(a-b)
    < eps) drops values that differ from the default and brings them back as the default."""
    prog = ctx.prog
    if not prog.has_func('Model.get_asset_defenses'):
        return []
    f = prog.func('Model.get_asset_defenses')
    rel = f.module.relpath
    insts = []
    tests = [n for n in own_nodes(f.node) if isinstance(n, (ast.If, ast.IfExp)) and 'default' in stmt_text(n.test)]
    construct = "(ii') a defense is omitted only when it equals its default exactly"
    if not tests:
        return [Inst(RULE, f.short, construct, 'unproven', msg='no comparison with the default found', file=rel,
                     line=f.node.lineno, props=('C07',))]
    for n in tests:
        approx = [c for c in ast.walk(n.test) if isinstance(c, ast.Call) and (
            (isinstance(c.func, ast.Attribute) and c.func.attr in ('isclose', 'allclose')) or
            (isinstance(c.func, ast.Name) and c.func.id in ('round', 'abs', 'isclose')))]
        ineq = [c for c in ast.walk(n.test) if isinstance(c, ast.Compare) and 'default' in stmt_text(c)
                and any(isinstance(o, (ast.Lt, ast.LtE, ast.Gt, ast.GtE)) for o in c.ops)]
        if approx or ineq:
            insts.append(Inst(
                RULE, f.short, construct, 'violation',
                msg=(f"'{stmt_text(n.test, 90)}' treats values NEAR the default as the default: such a defense value is "
                     f"not written, and the loaded model has the default instead of the value that was set"),
                file=rel, line=n.lineno, props=('C07',)))
        else:
            insts.append(Inst(RULE, f.short, construct, 'ok', msg=stmt_text(n.test, 60), file=rel, line=n.lineno,
                              props=('C07',)))
    return insts


def _discriminator_keys(ctx) -> list[Inst]:
    """(xi) a record whose keys are iterated wholesale as DATA (`for field, ids in entry.items()`) must not still
    contain a key the reader has used as a discriminator (`entry['metaconcept']`): the discriminator is removed
    first (pop / del) or skipped inside the loop - otherwise it is processed as one more field."""
    prog = ctx.prog
    insts = []
    readers = [('Model._from_dict', ('C07',)), ('AttackGraph._from_dict', ('C10',)),
               ('load_model_from_version_0_0_39._process_model', ('C18',))]
    for fname, props in readers:
        if not prog.has_func(fname):
            continue
        f0 = prog.func(fname)
        group = [f0] + [g for g in prog.all_funcs() if g.short.startswith(f0.short + '.')]
        for f in group:
            cfg = ctx.cfg(f)
            rel = f.module.relpath
            for h in [n for n in cfg.nodes if n.kind == 'for']:
                it = h.ast.iter
                X = None
                if isinstance(it, ast.Call) and isinstance(it.func, ast.Attribute) and it.func.attr in ('items', 'keys') \
                        and isinstance(it.func.value, ast.Name):
                    X = it.func.value.id
                elif isinstance(it, ast.Name):
                    X = it.id
                if X is None:
                    continue
                # is the loop variable used as a field name (setattr / getattr / subscript store)? then keys are data
                tnames = []
                cfg._targets(h.ast.target, tnames)
                keyvar = tnames[0] if tnames else None
                uses_as_field = any(isinstance(c, ast.Call) and isinstance(c.func, ast.Name) and c.func.id == 'setattr'
                                    and len(c.args) >= 2 and isinstance(c.args[1], ast.Name) and c.args[1].id == keyvar
                                    for c in ast.walk(h.ast))
                if not uses_as_field:
                    continue
                reads, removed, skipped = {}, set(), set()
                for n in own_nodes(f.node):
                    if isinstance(n, ast.Subscript) and isinstance(n.ctx, ast.Load) and isinstance(n.value, ast.Name) \
                            and n.value.id == X and isinstance(n.slice, ast.Constant) and isinstance(n.slice.value, str):
                        nd = cfg.owner(n)
                        if nd is not None and cfg.dominates(nd, h) and nd is not h:
                            reads[n.slice.value] = n
                    if isinstance(n, ast.Call) and isinstance(n.func, ast.Attribute) and n.func.attr == 'pop' \
                            and isinstance(n.func.value, ast.Name) and n.func.value.id == X and n.args \
                            and isinstance(n.args[0], ast.Constant):
                        removed.add(n.args[0].value)
                    if isinstance(n, ast.Delete):
                        for t in n.targets:
                            if isinstance(t, ast.Subscript) and isinstance(t.value, ast.Name) and t.value.id == X \
                                    and isinstance(t.slice, ast.Constant):
                                removed.add(t.slice.value)
                for c in ast.walk(h.ast):
                    if isinstance(c, ast.Compare) and isinstance(c.left, ast.Name) and c.left.id == keyvar:
                        for cmp_ in c.comparators:
                            for k_ in ast.walk(cmp_):
                                if isinstance(k_, ast.Constant) and isinstance(k_.value, str):
                                    skipped.add(k_.value)
                construct = f'(xi) {fname}: keys of {X} iterated as fields exclude its discriminator'
                bad = [k for k in reads if k not in removed and k not in skipped]
                if bad:
                    insts.append(Inst(
                        RULE, fname, construct, 'violation',
                        msg=(f"'{stmt_text(reads[bad[0]])}' reads the key '{bad[0]}' of {X} and leaves it in place; the loop "
                             f"'for {stmt_text(h.ast.target)} in {stmt_text(it)}' then treats every key as a field name, "
                             f"'{bad[0]}' included (an entry in the flat layout makes the loader fail / set a bogus field)"),
                        file=rel, line=reads[bad[0]].lineno, props=props))
                else:
                    insts.append(Inst(RULE, fname, construct, 'ok', file=rel, line=h.lineno, props=props))
    return insts


def _signature_args(ctx) -> list[Inst]:
    """(vii-b) get_association_by_signature is asked with the end types the language association DECLARES
    (<assoc>.left_field.asset.name / <assoc>.right_field.asset.name): that is what the sub-entry names are generated
    from.  The types of the instances (asset.type) are sub-types in general and name no sub-entry."""
    prog = ctx.prog
    insts = []
    for f in prog.all_funcs():
        if f.module.generated:
            continue
        rel = f.module.relpath
        for n in own_nodes(f.node):
            if isinstance(n, ast.Call) and isinstance(n.func, ast.Attribute) \
                    and n.func.attr == 'association_exists_between_assets' and n.args and not f.is_method:
                # the model files associations under the name of their generated CLASS (sub-entry name for
                # same-named associations), not under the name of the language association
                a0 = n.args[0]
                cfg = ctx.cfg(f)
                node = cfg.owner(n)
                kind = None
                if isinstance(a0, ast.Attribute) and a0.attr == '__name__':
                    kind = 'class'
                elif isinstance(a0, ast.Name) and node is not None:
                    for d in cfg.reaching(node, a0.id):
                        v = getattr(d.ast, 'value', None) if d.kind == 'stmt' else None
                        if isinstance(v, ast.Call) and isinstance(v.func, ast.Attribute):
                            if v.func.attr == 'get_association_by_signature':
                                kind = kind or 'class'
                            else:
                                kind = 'other'
                        elif v is not None:
                            kind = 'other'
                elif isinstance(a0, ast.Attribute) and a0.attr == 'name' and isinstance(a0.value, ast.Name) and node is not None:
                    for d in cfg.reaching(node, a0.value.id):
                        v = getattr(d.ast, 'value', None) if d.kind == 'stmt' else None
                        if isinstance(v, ast.Call) and isinstance(v.func, ast.Attribute) \
                                and v.func.attr == 'get_association_by_fields_and_assets':
                            kind = 'langname'
                pr = ('C19', 'C06') if 'neo4j' in rel else (('C18', 'C06') if 'securicad' in rel else ('C05', 'C06'))
                construct = f'(vii) existing-link test asks for the generated class name: {stmt_text(n, 50)}'
                if kind == 'langname':
                    insts.append(Inst(
                        RULE, f.short, construct, 'violation',
                        msg=(f"'{stmt_text(a0)}' is the name of the LANGUAGE association; the model indexes associations by "
                             f"the name of the generated class (for same-named associations '<name>_<left>_<right>'), so "
                             f"the test never finds the existing link and the mirrored row is added a second time "
                             f"(DuplicateModelAssociationError)"),
                        file=rel, line=n.lineno, props=pr))
                else:
                    insts.append(Inst(RULE, f.short, construct, 'ok' if kind == 'class' else 'unproven',
                                      msg='' if kind == 'class' else 'origin of the name not resolved', file=rel,
                                      line=n.lineno, props=pr))
                continue
            if not (isinstance(n, ast.Call) and isinstance(n.func, ast.Attribute)
                    and n.func.attr == 'get_association_by_signature' and len(n.args) == 3):
                continue
            props = tuple(dict.fromkeys(('C18', 'C19', 'C06') ))
            if 'neo4j' in rel:
                props = ('C19', 'C06')
            elif 'securicad' in rel:
                props = ('C18', 'C06')
            construct = f'(vii) sub-entry requested with the declared end types: {stmt_text(n, 60)}'
            texts = []
            cfg_ = ctx.cfg(f)
            for a in n.args[1:]:
                # a local bound once to `x.type` / `assoc.left_field.asset.name` stands for that expression
                if isinstance(a, ast.Name):
                    defs = cfg_.reaching(cfg_.owner(n), a.id) if cfg_.owner(n) is not None else []
                    if len(defs) == 1 and defs[0].kind == 'stmt' and isinstance(defs[0].ast, ast.Assign) \
                            and len(defs[0].ast.targets) == 1 and isinstance(defs[0].ast.targets[0], ast.Name):
                        a = defs[0].ast.value
                texts.append(stmt_text(a))
            declared = all(t.endswith('_field.asset.name') for t in texts) and \
                {('left' in t) for t in texts} == {True, False}
            instance = any(t.endswith('.type') for t in texts)
            if declared:
                insts.append(Inst(RULE, f.short, construct, 'ok', file=rel, line=n.lineno, props=props))
            elif instance:
                insts.append(Inst(
                    RULE, f.short, construct, 'violation',
                    msg=(f"the sub-entry name is requested with {texts}: the types of the linked assets. Sub-entries of "
                         f"same-named associations are generated from the types the association declares; for an asset "
                         f"of a sub-type the lookup raises although the native model accepts the link"),
                    file=rel, line=n.lineno, props=props))
            else:
                insts.append(Inst(RULE, f.short, construct, 'unproven', msg=f'arguments {texts}', file=rel,
                                  line=n.lineno, props=props))
    return insts


# ------------------------------------------------------------------------------------------------
STALE_READERS = [('AttackGraph._from_dict', ('C10', 'C09')), ('Model._from_dict', ('C07',)),
                 ('load_model_from_scad_archive', ('C18',)), ('get_model', ('C19',)),
                 ('load_model_from_version_0_0_39._process_model', ('C18',))]


def _stale_locals(ctx) -> list[Inst]:
    """(ix) in a reader, what goes into the object built for one record is computed from THAT record: a local that
    is (re)bound inside the per-record loop and flows into a constructor / adder argument must be bound in the
    same iteration on every path to that use.  A path from the loop header to the use that passes no binding
    hands the record the value left over from the previous record (or from before the loop)."""
    prog = ctx.prog
    insts = []
    for fname, props in STALE_READERS:
        if not prog.has_func(fname):
            continue
        f = prog.func(fname)
        cfg = ctx.cfg(f)
        rel = f.module.relpath
        checked = 0
        for h in [n for n in cfg.nodes if n.kind == 'for']:
            inside = [n for n in cfg.nodes if _in_loop(n, h)]
            defs_in = {}
            for n in inside:
                if n.kind == 'stmt' and isinstance(n.ast, (ast.Assign, ast.AnnAssign)) and \
                        getattr(n.ast, 'value', None) is not None:
                    tg = n.ast.targets if isinstance(n.ast, ast.Assign) else [n.ast.target]
                    for t in tg:
                        if isinstance(t, ast.Name):
                            defs_in.setdefault(t.id, []).append(n)
            loop_targets = set()
            cfg._targets(h.ast.target, loop_targets := [])
            for v, dnodes in sorted(defs_in.items()):
                if v in loop_targets:
                    continue
                # uses of v as (part of) an argument of a constructor / add_* call inside the loop
                for n in inside:
                    if n.loop is not h and not _in_loop(n, h):
                        continue
                    uses = []
                    for r in _stmt_roots(n):
                        for c in ast.walk(r):
                            if isinstance(c, ast.Call):
                                nm = c.func.attr if isinstance(c.func, ast.Attribute) else (
                                    c.func.id if isinstance(c.func, ast.Name) else '')
                                if nm[:1].isupper() or nm.startswith('add_'):
                                    for a in list(c.args) + [k.value for k in c.keywords]:
                                        if any(isinstance(x, ast.Name) and x.id == v for x in ast.walk(a)):
                                            uses.append(c)
                    if not uses:
                        continue
                    checked += 1
                    construct = f"(ix) '{v}' handed to {stmt_text(uses[0].func)}(...) is bound in the same iteration"
                    dset = {d.idx for d in dnodes}
                    bad = _path_without(cfg, h, n, dset, v, strict=True)
                    # only the hoisted-initialisation shape is decided: `v = <init>` before the loop reaches the use
                    # (without it an unbound path is a NameError the tests would show, or the paths are correlated
                    # through another variable - not decidable path-insensitively)
                    outer = [d for d in cfg.reaching(n, v) if d.kind == 'stmt' and not _in_loop(d, h)]
                    if bad is not None and not outer:
                        insts.append(Inst(RULE, fname, construct, 'ok',
                                          msg='bound on correlated paths only (no initialisation outside the loop)',
                                          file=rel, line=n.lineno, props=props, nontrivial=False))
                        continue
                    if bad is None:
                        insts.append(Inst(RULE, fname, construct, 'ok', file=rel, line=n.lineno, props=props))
                    elif _path_without(cfg, h, n, dset, v, strict=False) is not None:
                        insts.append(Inst(
                            RULE, fname, construct, 'violation',
                            msg=(f"an iteration of 'for {stmt_text(h.ast.target)} in {stmt_text(h.ast.iter, 50)}' can "
                                 f"reach '{stmt_text(uses[0], 60)}' without binding '{v}' (bound at line "
                                 f"{dnodes[0].lineno} only on some paths): the record then gets the value computed "
                                 f"for the PREVIOUS record"),
                            file=rel, line=n.lineno, props=props))
                    else:
                        insts.append(Inst(RULE, fname, construct, 'unproven',
                                          msg=f"'{v}' is carried across iterations under a test of '{v}' itself",
                                          file=rel, line=n.lineno, props=props))
        # (ix') the hoisted container: `acc = []` BEFORE the per-record loop, filled inside it and handed to the object
        # built for the record (constructor / add_* argument, attribute) without being re-created per record - every
        # record's object then holds the very same list, with the entries of all records
        for h in [n for n in cfg.nodes if n.kind == 'for']:
            inside = [n for n in cfg.nodes if _in_loop(n, h)]
            bound_inside = set()
            for n in inside:
                bound_inside.update(cfg.defs_of(n))
            outer_inits = {}
            for n in cfg.nodes:
                if n.kind == 'stmt' and isinstance(n.ast, (ast.Assign, ast.AnnAssign)) and not _in_loop(n, h) \
                        and n.loop is h.loop and getattr(n.ast, 'value', None) is not None:
                    v_ = n.ast.value
                    empty = (isinstance(v_, (ast.List, ast.Dict, ast.Set)) and not (getattr(v_, 'elts', None) or getattr(v_, 'keys', None))) \
                        or (isinstance(v_, ast.Call) and isinstance(v_.func, ast.Name) and v_.func.id in ('list', 'dict', 'set') and not v_.args)
                    tg = n.ast.targets[0] if isinstance(n.ast, ast.Assign) else n.ast.target
                    if empty and isinstance(tg, ast.Name) and cfg.dominates(n, h):
                        outer_inits[tg.id] = n
            for v, initn in sorted(outer_inits.items()):
                if v in bound_inside:
                    continue
                filled = handed = None
                for n in inside:
                    for r in _stmt_roots(n):
                        for c in ast.walk(r):
                            if isinstance(c, ast.Call) and isinstance(c.func, ast.Attribute) and isinstance(c.func.value, ast.Name) \
                                    and c.func.value.id == v and c.func.attr in ('append', 'extend', 'add', 'update', 'insert'):
                                filled = c
                            if isinstance(c, ast.Call):
                                nm = c.func.attr if isinstance(c.func, ast.Attribute) else (
                                    c.func.id if isinstance(c.func, ast.Name) else '')
                                if nm[:1].isupper() or nm.startswith('add_'):
                                    for a in list(c.args) + [k.value for k in c.keywords]:
                                        if isinstance(a, ast.Name) and a.id == v:
                                            handed = c
                        if isinstance(n.ast, ast.Assign) and isinstance(n.ast.targets[0], ast.Attribute) \
                                and isinstance(n.ast.value, ast.Name) and n.ast.value.id == v:
                            handed = n.ast
                if filled is not None and handed is not None:
                    checked += 1
                    insts.append(Inst(
                        RULE, fname, f"(ix) '{v}' handed to the object of each record is created per record", 'violation',
                        msg=(f"'{v}' is created once at line {initn.lineno}, before 'for {stmt_text(h.ast.target)} in "
                             f"{stmt_text(h.ast.iter, 50)}', filled by '{stmt_text(filled, 50)}' and given to "
                             f"'{stmt_text(handed, 60)}' in every iteration: all records share ONE list holding the entries "
                             f"of all of them (with two attackers, each gets the entry points of both)"),
                        file=rel, line=initn.lineno, props=props))
        if not checked:
            insts.append(Inst(RULE, fname, '(ix) per-record locals', 'info', msg='no per-record local feeds a constructor',
                              file=rel, line=f.node.lineno, props=props, nontrivial=False))
    return insts


def _in_loop(n, h):
    l = n.loop
    while l is not None:
        if l is h:
            return True
        l = l.loop
    return False


def _stmt_roots(n):
    a = n.ast
    if n.kind in ('if', 'while'):
        return [a.test]
    if n.kind == 'for':
        return [a.iter]
    if n.kind in ('entry', 'exit', 'raise', 'try', 'handler', 'case', 'match', 'with'):
        return []
    if isinstance(a, (ast.FunctionDef, ast.ClassDef)):
        return []
    return [a]


def _path_without(cfg, h, use, dset, v, strict):
    """a node sequence header -T-> ... -> use that avoids every binding of v (and, when not strict ... see caller:
    strict=True ignores validating tests; strict=False also refuses to pass an `if` whose FIRST operand tests v)."""
    seen = set()
    st = [t for t, l in h.succ if l == 'T']
    while st:
        x = st.pop()
        if x is use:
            return x
        if x.idx in seen or x.idx in dset or x is h or not _in_loop(x, h):
            continue
        seen.add(x.idx)
        if not strict and x.kind == 'if':
            t = x.ast.test
            first = t.values[0] if isinstance(t, ast.BoolOp) else t
            if any(isinstance(y, ast.Name) and y.id == v for y in ast.walk(first)):
                continue
        for t, _ in x.succ:
            if t is cfg.raise_exit or t is cfg.exit:
                continue
            st.append(t)
    return None


# ------------------------------------------------------------------------------------------------
LIB_READ = {('json', 'load'), ('json', 'loads'), ('yaml', 'safe_load'), ('yaml', 'load')}
LIB_WRITE = {('json', 'dump'), ('json', 'dumps'), ('yaml', 'dump'), ('yaml', 'safe_dump')}
HOOK_KW = {'object_hook', 'object_pairs_hook', 'parse_float', 'parse_int', 'parse_constant', 'default', 'cls',
           'skipkeys'}
LAYOUT_KW = {'indent', 'sort_keys', 'ensure_ascii', 'separators', 'allow_nan', 'Dumper', 'Loader',
             'default_flow_style', 'allow_unicode', 'width', 'encoding', 'explicit_start', 'explicit_end'}
FILE_FUNCS = ['save_dict_to_json_file', 'save_dict_to_yaml_file', 'load_dict_from_yaml_file',
              'load_dict_from_json_file']


def _file_layer(ctx) -> list[Inst]:
    """(viii) the file layer is transparent: what the codecs hand over is what the library writes, and
    what the library reads is what the codecs get.  A value-rewriting hook (object_hook, parse_float,
    default= ...) acts on EVERY nested mapping / number of the file - also on the free-form `extras`
    dictionaries, whose keys and values it cannot tell from ids - so it cannot be an inverse of the
    other direction."""
    prog = ctx.prog
    insts = []
    props = ('C07', 'C10')
    for fname in FILE_FUNCS:
        if not prog.has_func(fname):
            raise AnalysisError(f'file layer function {fname} missing')
        f = prog.func(fname)
        rel = f.module.relpath
        cfg = ctx.cfg(f)
        R = ctx.R(f)
        reading = fname.startswith('load')
        libcalls = []
        for n in own_nodes(f.node):
            if isinstance(n, ast.Call) and isinstance(n.func, ast.Attribute) and isinstance(n.func.value, ast.Name) \
                    and (n.func.value.id, n.func.attr) in (LIB_READ if reading else LIB_WRITE):
                libcalls.append(n)
        construct = f'(viii) {fname}: the library call has no value-rewriting hook'
        if not libcalls:
            insts.append(Inst(RULE, fname, construct, 'unproven', msg='no json / yaml library call recognised',
                              file=rel, line=f.node.lineno, props=props))
            continue
        for c in libcalls:
            lib = f'{c.func.value.id}.{c.func.attr}'
            bad = [k for k in c.keywords if k.arg in HOOK_KW]
            odd = [k.arg for k in c.keywords if k.arg not in HOOK_KW and k.arg not in LAYOUT_KW]
            verdict, msg = 'ok', lib
            for k in bad:
                v = k.value
                local = isinstance(v, ast.Lambda) or (isinstance(v, ast.Name) and (
                    prog.has_func(v.id) or v.id in f.module.functions)) or \
                    (isinstance(v, ast.Constant) and v.value is True and k.arg == 'skipkeys')
                if local:
                    verdict = 'violation'
                    msg = (f"{lib}(..., {k.arg}={stmt_text(v, 40)}) rewrites every nested object of the file, the "
                           f"free-form extras dictionaries included: content that was saved does not come back "
                           f"unchanged (e.g. extras keys / values that merely look like ids or numbers)")
                    break
                verdict = 'unproven'
                msg = f'{lib} is given {k.arg}={stmt_text(v, 40)}'
            for k in c.keywords:
                if k.arg == 'allow_nan' and isinstance(k.value, ast.Constant) and k.value.value is False:
                    verdict = 'violation'
                    msg = (f"{lib}(..., allow_nan=False) raises ValueError for inf / nan inside the content (free-form "
                           f"extras may hold them, e.g. an unreachable cost): saving fails and leaves a truncated file, "
                           f"while the same content round-trips through the other format")
                if k.arg == 'allow_unicode' and isinstance(k.value, ast.Constant) and k.value.value is True \
                        and lib.startswith('yaml.'):
                    verdict = 'violation'
                    msg = (f"{lib}(..., allow_unicode=True) writes every 'printable' non-ASCII character raw; PyYAML counts "
                           f"the Unicode line breaks U+0085 / U+2028 / U+2029 among them and its reader folds a raw break "
                           f"inside a quoted scalar into a space: a name or extras value containing one comes back "
                           f"changed from .yml/.yaml (the default escapes them and round-trips)")
            if verdict == 'ok' and odd:
                verdict, msg = 'unproven', f'{lib} is given unrecognised options {odd}'
            if verdict == 'ok' and lib == 'yaml.load':
                ld = next((k.value for k in c.keywords if k.arg == 'Loader'), c.args[1] if len(c.args) > 1 else None)
                if ld is None or 'Safe' not in stmt_text(ld):
                    verdict, msg = 'unproven', 'yaml.load without the safe loader'
                    # a loader class of the package with resolvers / constructors of its own: scalars are typed by other
                    # rules on the way in than on the way out unless the dumper used for saving got the same ones
                    if isinstance(ld, ast.Name):
                        extra = []
                        for st in ast.walk(f.module.tree):
                            if isinstance(st, ast.Call) and isinstance(st.func, ast.Attribute) \
                                    and st.func.attr in ('add_implicit_resolver', 'add_constructor', 'add_path_resolver',
                                                         'add_multi_constructor') \
                                    and isinstance(st.func.value, ast.Name) and st.func.value.id == ld.id:
                                extra.append(st)
                        dumper_side = [st for st in ast.walk(f.module.tree)
                                       if isinstance(st, ast.Call) and isinstance(st.func, ast.Attribute)
                                       and st.func.attr == 'add_implicit_resolver'
                                       and not (isinstance(st.func.value, ast.Name) and st.func.value.id == ld.id)]
                        if extra and any(e.func.attr == 'add_implicit_resolver' for e in extra) and not dumper_side:
                            e0 = extra[0]
                            verdict = 'violation'
                            msg = (f"{lib} uses {ld.id}, which resolves plain scalars by an additional rule "
                                   f"('{stmt_text(e0, 90)}'), while saving still decides what to quote with the stock "
                                   f"resolver: a STRING that matches the new pattern (an asset name like '1e5') is written "
                                   f"unquoted and comes back as a number")
                        elif extra:
                            msg = f'yaml.load with {ld.id}, which registers {extra[0].func.attr}: not decided'
            insts.append(Inst(RULE, fname, construct, verdict, msg=msg, file=rel, line=c.lineno, props=props))
        # the value handed over / handed back is the very object
        construct = f'(viii) {fname}: content passes through unchanged'
        if reading:
            rets = [n for n in own_nodes(f.node) if isinstance(n, ast.Return) and n.value is not None]
            ok = bool(rets)
            why = ''
            for r in rets:
                v = r.value
                node = cfg.node_of(r)
                src = None
                if isinstance(v, ast.Call) and v in libcalls:
                    src = v
                elif isinstance(v, ast.Name):
                    defs = cfg.reaching(node, v.id)
                    if len(defs) == 1 and defs[0].kind in ('stmt', 'with') and isinstance(defs[0].ast, ast.Assign) \
                            and defs[0].ast.value in libcalls:
                        src = defs[0].ast.value
                        # no statement between definition and return touches it
                        for x in own_nodes(f.node):
                            if isinstance(x, (ast.Subscript, ast.Attribute)) and isinstance(x.ctx, (ast.Store, ast.Del)) \
                                    and isinstance(x.value, ast.Name) and x.value.id == v.id:
                                src = None
                                why = f"'{v.id}' is modified before it is returned"
                            if isinstance(x, ast.Call) and isinstance(x.func, ast.Attribute) and \
                                    isinstance(x.func.value, ast.Name) and x.func.value.id == v.id and \
                                    x.func.attr in ('pop', 'update', 'clear', 'setdefault', 'popitem'):
                                src = None
                                why = f"'{v.id}.{x.func.attr}(...)' modifies the loaded content"
                if src is None:
                    ok = False
                    why = why or f"'{stmt_text(r, 70)}' does not return the library result itself"
            insts.append(Inst(RULE, fname, construct, 'ok' if ok else 'unproven', msg=why, file=rel,
                              line=f.node.lineno, props=props))
        else:
            pname = f.params[1] if len(f.params) > 1 else None
            ok = True
            why = ''
            for c in libcalls:
                a = c.args[0] if c.args else None
                if not (isinstance(a, ast.Name) and a.id == pname and
                        R.value_id(a, cfg.owner(c)) == ('param', pname)):
                    ok = False
                    why = f"'{stmt_text(c, 70)}' does not write the dictionary parameter itself"
            insts.append(Inst(RULE, fname, construct, 'ok' if ok else 'unproven', msg=why, file=rel,
                              line=f.node.lineno, props=props))
            # the text the library produced is written as it is: an edit of the serialised TEXT (regex substitution,
            # replace, strip of lines ...) cannot tell the inside of a string value from the structure around it
            parent = {}
            for x in ast.walk(f.node):
                for ch in ast.iter_child_nodes(x):
                    parent[id(ch)] = x
            for c in libcalls:
                to_text = c.func.attr == 'dumps' or (c.func.attr in ('dump', 'safe_dump') and len(c.args) < 2
                                                      and not any(k.arg == 'stream' for k in c.keywords))
                if not to_text:
                    continue
                construct = f'(viii) {fname}: the serialised text is written unedited'
                uses = []       # (expression that holds the text, its parent)
                par = parent.get(id(c))
                if isinstance(par, ast.Assign) and len(par.targets) == 1 and isinstance(par.targets[0], ast.Name):
                    v = par.targets[0].id
                    for x in own_nodes(f.node):
                        if isinstance(x, ast.Name) and x.id == v and isinstance(x.ctx, ast.Load):
                            uses.append((x, parent.get(id(x))))
                else:
                    uses.append((c, par))
                verdict, msg, line = 'ok', '', c.lineno
                for (e, pe) in uses:
                    if isinstance(pe, ast.Call) and e in pe.args and isinstance(pe.func, ast.Attribute) \
                            and pe.func.attr in ('write', 'write_text', 'debug', 'info'):
                        continue
                    if isinstance(pe, ast.Call) and isinstance(pe.func, ast.Name) and pe.func.id in ('print', 'len'):
                        continue
                    if isinstance(pe, ast.Return):
                        continue
                    edit = None
                    if isinstance(pe, ast.Call) and e in pe.args:
                        edit = stmt_text(pe.func, 40)
                    elif isinstance(pe, ast.Attribute) and isinstance(parent.get(id(pe)), ast.Call):
                        edit = '.' + pe.attr
                    elif isinstance(pe, ast.Subscript):
                        edit = 'slicing'
                    if edit is not None:
                        verdict, line = 'violation', getattr(pe, 'lineno', c.lineno)
                        msg = (f"the text returned by {c.func.value.id}.{c.func.attr} goes through '{edit}(...)' before it is "
                               f"written: a rewrite of the serialised text also hits the inside of string values (names, "
                               f"extras) that happen to look like the structure it targets - they come back changed")
                        break
                    verdict, msg = 'unproven', f"use of the serialised text not recognised: '{stmt_text(pe, 60)}'"
                insts.append(Inst(RULE, fname, construct, verdict, msg=msg, file=rel, line=line, props=props))
    return insts


# ------------------------------------------------------------------------------------------------
def _template(e):
    """normalise a string-building expression to a list of parts: constants and 'P' placeholders."""
    if isinstance(e, ast.BinOp) and isinstance(e.op, ast.Add):
        l = _template(e.left)
        r = _template(e.right)
        if l is None or r is None:
            return None
        return _merge(l + r)
    if isinstance(e, ast.BinOp) and isinstance(e.op, ast.Mod) and isinstance(e.left, ast.Constant) \
            and isinstance(e.left.value, str):
        fmt = e.left.value
        parts = []
        i = 0
        while i < len(fmt):
            if fmt[i] == '%' and i + 1 < len(fmt) and fmt[i + 1] in 'sd':
                parts.append('P')
                i += 2
            else:
                parts.append(('c', fmt[i]))
                i += 1
        return _merge(parts)
    if isinstance(e, ast.JoinedStr):
        parts = []
        for v in e.values:
            if isinstance(v, ast.Constant):
                parts += [('c', ch) for ch in str(v.value)]
            else:
                parts.append('P')
        return _merge(parts)
    if isinstance(e, ast.Constant) and isinstance(e.value, str):
        return _merge([('c', ch) for ch in e.value])
    if isinstance(e, ast.Call) and isinstance(e.func, ast.Name) and e.func.id == 'str' and e.args:
        return ['P']
    if isinstance(e, (ast.Name, ast.Attribute, ast.Subscript, ast.Call)):
        return ['P']
    return None


def _merge(parts):
    out = []
    for p in parts:
        if p != 'P' and out and out[-1] != 'P':
            out[-1] = ('c', out[-1][1] + p[1])
        else:
            out.append(p)
    return out


def _show(t):
    return ''.join('{}' if p == 'P' else p[1] for p in t)


def _templates(ctx) -> list[Inst]:
    prog = ctx.prog
    insts = []
    # ---- node full name: reference = AttackGraphNode.full_name (asset branch)
    fn = prog.cls('AttackGraphNode').methods.get('full_name')
    if fn is None:
        raise AnalysisError('AttackGraphNode.full_name not found')
    ref = None
    # every string-building expression of the property, in any statement form (assignment, return,
    # either arm of a conditional expression): the one mentioning the asset is the reference
    cands = [n for n in own_nodes(fn.node) if isinstance(n, (ast.BinOp, ast.JoinedStr))]
    for n in cands:
        t = _template(n)
        if t and 'asset' in stmt_text(n) and len(t) > 1:
            ref = t
            break
    if ref is None:
        for n in cands:
            t = _template(n)
            if t and len(t) > 1:
                ref = t
                break
    if ref is None:
        raise AnalysisError('full-name template of AttackGraphNode.full_name not recognised')
    sites = [('AttackGraph._generate_graph', ('C01', 'C02')), ('AttackGraph.attach_attackers', ('C11',))]
    for (fname, props) in sites:
        f = prog.func(fname)
        found = 0
        for n in own_nodes(f.node):
            if isinstance(n, ast.Assign) and isinstance(n.value, (ast.BinOp, ast.JoinedStr)) \
                    and len(n.targets) == 1 and isinstance(n.targets[0], ast.Name):
                txt = stmt_text(n.value)
                if '.name' not in txt:
                    continue
                t = _template(n.value)
                if t is None or len([p for p in t if p == 'P']) != 2:
                    continue
                # only values that are later used for a full-name lookup
                used = any(isinstance(c, ast.Call) and isinstance(c.func, ast.Attribute)
                           and c.func.attr == 'get_node_by_full_name'
                           and any(isinstance(a, ast.Name) and a.id == n.targets[0].id for a in c.args)
                           for c in own_nodes(f.node))
                if not used:
                    continue
                found += 1
                construct = f'(vii) full-name template {stmt_text(n.value)} equals AttackGraphNode.full_name'
                if t == ref:
                    insts.append(Inst(RULE, fname, construct, 'ok', msg=_show(t), file=f.module.relpath,
                                      line=n.lineno, props=props))
                else:
                    insts.append(Inst(
                        RULE, fname, construct, 'violation',
                        msg=(f"lookup name is built as '{_show(t)}' but AttackGraphNode.full_name (the index "
                             f"key) is '{_show(ref)}': lookups by full name miss"),
                        file=f.module.relpath, line=n.lineno, props=props))
        if not found:
            insts.append(Inst(RULE, fname, '(vii) full-name lookup template', 'unproven',
                              msg='no full-name construction feeding get_node_by_full_name recognised',
                              file=f.module.relpath, line=f.node.lineno, props=props))
    # ---- association sub-entry name
    gen = prog.func('LanguageClassesFactory._generate_associations.create_association_with_subentries') \
        if prog.has_func('LanguageClassesFactory._generate_associations.create_association_with_subentries') else None
    sig = prog.func('LanguageClassesFactory.get_association_by_signature')
    tg = None
    if gen is not None:
        for n in own_nodes(gen.node):
            if isinstance(n, ast.Assign) and isinstance(n.value, (ast.BinOp, ast.JoinedStr)):
                t = _template(n.value)
                if t and len([p for p in t if p == 'P']) == 3:
                    tg = (t, n)
    ts = []
    for n in own_nodes(sig.node):
        if isinstance(n, ast.Assign) and isinstance(n.value, (ast.BinOp, ast.JoinedStr)):
            t = _template(n.value)
            if t and len([p for p in t if p == 'P']) == 3:
                ts.append((t, n))
    props = ('C06', 'C18')
    if tg is None or not ts:
        insts.append(Inst(RULE, sig.short, '(vii) association sub-entry name template', 'unproven',
                          msg='template not recognised', file=sig.module.relpath, line=sig.node.lineno,
                          props=props))
    else:
        for (t, n) in ts:
            construct = f'(vii) sub-entry name template {stmt_text(n.value, 60)} equals the generated one'
            if t == tg[0]:
                insts.append(Inst(RULE, sig.short, construct, 'ok', msg=_show(t), file=sig.module.relpath,
                                  line=n.lineno, props=props))
            else:
                insts.append(Inst(
                    RULE, sig.short, construct, 'violation',
                    msg=(f"get_association_by_signature builds '{_show(t)}' but the schema entries are "
                         f"named '{_show(tg[0])}'"),
                    file=sig.module.relpath, line=n.lineno, props=props))
    return insts


def _absent_defaults(ctx) -> list[Inst]:
    """(xiii) an optional key that is absent from the file leaves the field at the value a freshly constructed object
    has: `x.f = d[k] == 'True' if k in d else <default>` / `d.get(k, <default>)`.  A reader that turns "absent" into
    something else (d.get(k) == 'True' is False for a missing key while the dataclass default is True) gives files
    written without that key - older files, hand-written ones - a different object than the one they describe."""
    prog = ctx.prog
    insts = []
    UNK = object()

    def const(e):
        if isinstance(e, ast.Constant):
            return e.value
        if isinstance(e, (ast.List, ast.Dict, ast.Set, ast.Tuple)) and not (getattr(e, 'elts', None) or getattr(e, 'keys', None)):
            return type(ast.literal_eval(e))()
        if isinstance(e, ast.Call) and isinstance(e.func, ast.Name) and e.func.id in ('list', 'dict', 'set') and not e.args:
            return {'list': [], 'dict': {}, 'set': set()}[e.func.id]
        return UNK

    def absent(e, rec):
        """value of e when the key it reads is missing from mapping rec (UNK when not of a known shape)"""
        if isinstance(e, ast.IfExp) and isinstance(e.test, ast.Compare) and len(e.test.ops) == 1 \
                and isinstance(e.test.ops[0], ast.In) and isinstance(e.test.left, ast.Constant):
            return const(e.orelse), e.test.left.value
        if isinstance(e, ast.IfExp) and isinstance(e.test, ast.Compare) and len(e.test.ops) == 1 \
                and isinstance(e.test.ops[0], ast.NotIn) and isinstance(e.test.left, ast.Constant):
            return const(e.body), e.test.left.value
        if isinstance(e, ast.Call) and isinstance(e.func, ast.Attribute) and e.func.attr == 'get' and e.args \
                and isinstance(e.args[0], ast.Constant):
            return (const(e.args[1]) if len(e.args) > 1 else None), e.args[0].value
        if isinstance(e, ast.Compare) and len(e.ops) == 1 and isinstance(e.ops[0], (ast.Eq, ast.NotEq)):
            l = absent(e.left, rec)
            if l is not None and l[0] is not UNK and isinstance(e.comparators[0], ast.Constant):
                v = (l[0] == e.comparators[0].value)
                return (v if isinstance(e.ops[0], ast.Eq) else not v), l[1]
        return None

    for cd in CODECS:
        rf = prog.func(cd['reader'])
        rel = rf.module.relpath
        for n in own_nodes(rf.node):
            if not (isinstance(n, ast.Assign) and len(n.targets) == 1 and isinstance(n.targets[0], ast.Attribute)):
                continue
            F = n.targets[0].attr
            a = absent(n.value, None)
            if a is None or a[0] is UNK:
                continue
            # the default a constructed object carries: a dataclass field of that name with a constant default
            defaults = []
            for c in prog.classes.values():
                fi = c.fields.get(F)
                if fi is not None and fi.origin == 'dataclass' and fi.default is not None:
                    dv = const(fi.default)
                    if dv is UNK and isinstance(fi.default, ast.Call) and 'field' in stmt_text(fi.default.func):
                        for k in fi.default.keywords:
                            if k.arg == 'default':
                                dv = const(k.value)
                            if k.arg == 'default_factory' and isinstance(k.value, ast.Name) and k.value.id in ('list', 'dict', 'set'):
                                dv = {'list': [], 'dict': {}, 'set': set()}[k.value.id]
                    if dv is not UNK:
                        defaults.append((c.name, dv))
            if len({repr(d) for _, d in defaults}) != 1:
                continue
            cname, dv = defaults[0]
            construct = f"(xiii) {cd['name']}: a missing '{a[1]}' leaves {cname}.{F} at its default"
            if a[0] == dv and type(a[0]) is type(dv):
                insts.append(Inst(RULE, rf.short, construct, 'ok', msg=f'{dv!r}', file=rel, line=n.lineno, props=cd['props']))
            else:
                insts.append(Inst(
                    RULE, rf.short, construct, 'violation',
                    msg=(f"'{stmt_text(n, 90)}' gives {F} the value {a[0]!r} when the entry has no '{a[1]}', a freshly "
                         f"constructed {cname} has {dv!r}: a file written without that key (older versions, hand-written "
                         f"graphs) loads as a different object - e.g. every step unviable before the analysis has run"),
                    file=rel, line=n.lineno, props=cd['props'] + (('C08',) if F in ('is_viable', 'is_necessary') else ())))
    return insts


ADDER_ID_PARAM = {'add_node': 'node_id', 'add_attacker': 'attacker_id', 'add_asset': 'asset_id'}


def _ids_through_adders(ctx) -> list[Inst]:
    """(xiv) the id stored in the file reaches the object through the id parameter of add_node / add_attacker /
    add_asset: those functions ASSIGN the id (`x.id = given if given is not None else next_id`), so an id that was only
    put on the object beforehand (constructor argument, attribute) is overwritten with the next free number."""
    prog = ctx.prog
    insts = []
    for cd in CODECS:
        rf = prog.func(cd['reader'])
        rel = rf.module.relpath
        for n in own_nodes(rf.node):
            if not (isinstance(n, ast.Call) and isinstance(n.func, ast.Attribute) and n.func.attr in ADDER_ID_PARAM):
                continue
            prm = ADDER_ID_PARAM[n.func.attr]
            construct = f"(xiv) {cd['name']}: {n.func.attr} receives the stored id through {prm}"
            val = next((k.value for k in n.keywords if k.arg == prm), None)
            if val is None:
                res = prog.env(rf).resolve_call(n)
                if res[0] == 'func' and prm in res[1].params:
                    idx = res[1].params.index(prm) - (1 if res[1].params and res[1].params[0] in ('self', 'cls') else 0)
                    if 0 <= idx < len(n.args):
                        val = n.args[idx]
            if any(k.arg is None for k in n.keywords):
                insts.append(Inst(RULE, rf.short, construct, 'unproven', msg='arguments passed through **mapping', file=rel,
                                  line=n.lineno, props=cd['props']))
            elif val is None or (isinstance(val, ast.Constant) and val.value is None):
                insts.append(Inst(
                    RULE, rf.short, construct, 'violation',
                    msg=(f"'{stmt_text(n, 90)}' does not pass {prm}: {n.func.attr} then numbers the object itself "
                         f"(next free id), whatever id the file gave it - loaded ids differ from the saved ones as soon as "
                         f"they are not 0..n-1 in file order"),
                    file=rel, line=n.lineno, props=cd['props']))
            else:
                insts.append(Inst(RULE, rf.short, construct, 'ok', msg=stmt_text(val, 50), file=rel, line=n.lineno,
                                  props=cd['props']))
    return insts
