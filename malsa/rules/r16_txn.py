"""R16 TXN - neo4j ingestion builds one node per element, mirrored relationships, and commits.

ingest_model / ingest_attack_graph:
 (a) one ``Node(...)`` per element of the iterated collection, stored under a key of the unique-key
     table (asset id / node id);
 (b) relationships are accumulated without loss: appended to a list, or stored under a key that
     contains both end points AND the label; in ingest_model each (first, second) pair yields two
     relationships with swapped end points labelled by the two field names; in ingest_attack_graph
     one relationship per element of node.children;
 (c) every Node / Relationship container flows into the ``Subgraph`` argument, and every path from
     ``g.begin()`` to the normal exit passes ``tx.create(subgraph)`` and then ``g.commit(tx)``;
 (d) the node properties written for assets (name, asset_id, type) are the ones get_model reads.
"""
from __future__ import annotations

import ast

from ..core import own_nodes, stmt_text, AnalysisError
from ..report import Inst
from .r08_codec import key_origin, UNIQUE_KEYS

RULE = 'R16'
PROPS = ('C19',)


def _calls(f, name):
    out = []
    for n in own_nodes(f.node):
        if isinstance(n, ast.Call):
            nm = n.func.attr if isinstance(n.func, ast.Attribute) else (n.func.id if isinstance(n.func, ast.Name) else '')
            if nm == name:
                out.append(n)
    return out


def run(ctx) -> list[Inst]:
    prog = ctx.prog
    insts = []
    for fname in ('ingest_model', 'ingest_attack_graph'):
        f = prog.func(fname)
        cfg = ctx.cfg(f)
        rel = f.module.relpath
        pm = {}
        for n in ast.walk(f.node):
            for ch in ast.iter_child_nodes(n):
                pm[id(ch)] = n
        # ------------------------------------------------------------ (a) nodes
        node_calls = _calls(f, 'Node')
        helper_nodes = False
        if not node_calls:
            # the construction may have been moved into a helper: look in the package functions f reaches
            for g in ctx.an.reachable([f]).values():
                if g is not f and _calls(g, 'Node'):
                    helper_nodes = True
                    insts.append(Inst(RULE, fname, '(a) one Node per element under a unique key', 'unproven',
                                      msg=f'database nodes are built in the helper {g.short}', file=rel,
                                      line=f.node.lineno, props=PROPS))
            if not helper_nodes:
                raise AnalysisError(f'{fname}: no Node(...) construction found')
        node_containers = set()
        for nc in node_calls:
            par = pm.get(id(nc))
            # `x = Node(...)` ... `C[key] = x`: the later store is the registration
            if isinstance(par, ast.Assign) and len(par.targets) == 1 and isinstance(par.targets[0], ast.Name):
                nm_ = par.targets[0].id
                for st_ in own_nodes(f.node):
                    if isinstance(st_, ast.Assign) and isinstance(st_.targets[0], ast.Subscript) \
                            and isinstance(st_.value, ast.Name) and st_.value.id == nm_:
                        par = st_
                        break
            construct = '(a) one Node per element under a unique key'
            if isinstance(par, ast.Assign) and isinstance(par.targets[0], ast.Subscript) \
                    and isinstance(par.targets[0].value, ast.Name):
                node_containers.add(par.targets[0].value.id)
                node = cfg.node_of(par)
                org = key_origin(ctx, f, par.targets[0].slice, node)
                in_loop = node.loop is not None and cfg.postdominates(node, node.loop) is not None
                covered_ok = node.loop is not None
                if org is not None and org[0] == 'attr' and (org[1], org[2]) in UNIQUE_KEYS and covered_ok:
                    insts.append(Inst(RULE, fname, construct, 'ok', msg=f'keyed by {org[1]}.{org[2]}', file=rel,
                                      line=nc.lineno, props=PROPS))
                elif org is not None and org[0] == 'attr':
                    insts.append(Inst(
                        RULE, fname, construct, 'violation',
                        msg=(f"database nodes are collected under {org[1]}.{org[2]}, which is not guaranteed "
                             f"unique: two elements collapse into one database node"),
                        file=rel, line=nc.lineno, props=PROPS))
                else:
                    insts.append(Inst(RULE, fname, construct, 'unproven', msg='key origin not resolved', file=rel,
                                      line=nc.lineno, props=PROPS))
            elif isinstance(par, ast.Call) and isinstance(par.func, ast.Attribute) and par.func.attr == 'append':
                if isinstance(par.func.value, ast.Name):
                    node_containers.add(par.func.value.id)
                insts.append(Inst(RULE, fname, construct, 'ok', msg='appended to a list', file=rel,
                                  line=nc.lineno, props=PROPS))
            else:
                insts.append(Inst(RULE, fname, construct, 'unproven', msg='Node(...) not stored in a recognised container',
                                  file=rel, line=nc.lineno, props=PROPS))
        # ------------------------------------------------------------ (b) relationships
        rel_calls = _calls(f, 'Relationship')
        if not rel_calls:
            helpers = [g for g in ctx.an.reachable([f]).values() if g is not f and _calls(g, 'Relationship')]
            # generators are not followed by the call graph when only iterated: look at module-level functions
            # of the same module that are referenced by name in f
            names = {x.id for x in own_nodes(f.node) if isinstance(x, ast.Name)}
            helpers += [g for g in f.module.functions.values() if g.name in names and _calls(g, 'Relationship')
                        and g not in helpers]
            if helpers:
                insts.append(Inst(RULE, fname, '(b) relationships are accumulated without loss', 'unproven',
                                  msg=f'relationships are built in the helper {helpers[0].short}', file=rel,
                                  line=f.node.lineno, props=PROPS))
                # (c) still applies to what f passes on
                rel_containers = set()
                sg = _calls(f, 'Subgraph')
                begin = [cfg.owner(c) for c in _calls(f, 'begin')]
                create = [cfg.owner(c) for c in _calls(f, 'create')]
                commit = [cfg.owner(c) for c in _calls(f, 'commit')]
                construct = '(c) begin -> create(subgraph) -> commit on every path'
                if len(begin) == 1 and create and commit:
                    ok = all(cfg.postdominates(c, begin[0]) for c in (create[0], commit[0])) and \
                        cfg.dominates(create[0], commit[0])
                    insts.append(Inst(RULE, fname, construct, 'ok' if ok else 'violation',
                                      msg='' if ok else 'some path from g.begin() reaches the end without create + commit',
                                      file=rel, line=begin[0].lineno, props=PROPS))
                continue
            raise AnalysisError(f'{fname}: no Relationship(...) construction found')
        rel_containers = set()
        for rc in rel_calls:
            par = pm.get(id(rc))
            construct = f'(b) relationship {stmt_text(rc, 60)} is accumulated without loss'
            if isinstance(par, ast.Call) and isinstance(par.func, ast.Attribute) and par.func.attr == 'append' \
                    and isinstance(par.func.value, ast.Name):
                rel_containers.add(par.func.value.id)
                insts.append(Inst(RULE, fname, construct, 'ok', msg='list append', file=rel, line=rc.lineno,
                                  props=PROPS))
            elif isinstance(par, ast.Assign) and isinstance(par.targets[0], ast.Subscript) \
                    and isinstance(par.targets[0].value, ast.Name):
                rel_containers.add(par.targets[0].value.id)
                key = par.targets[0].slice
                ktxt = stmt_text(key)
                # the key must mention both end-point expressions and the label (if any)
                args = [stmt_text(a) for a in rc.args]
                need = []
                for a in rc.args:
                    # end points are nodes[<id expr>] : require the id expression; labels: the text itself
                    if isinstance(a, ast.Subscript):
                        need.append(stmt_text(a.slice))
                    else:
                        need.append(stmt_text(a))
                missing = [x for x in need if x not in ktxt and x.replace('str(', '').rstrip(')') not in ktxt]
                if missing:
                    insts.append(Inst(
                        RULE, fname, construct, 'violation',
                        msg=(f"relationships are stored under the key '{ktxt}', which does not contain {missing}: "
                             f"two relationships between the same pair of nodes (different field labels, or a "
                             f"self-link) overwrite each other and only one is sent"),
                        file=rel, line=rc.lineno, props=PROPS))
                else:
                    insts.append(Inst(RULE, fname, construct, 'ok', msg=f'keyed by {ktxt}', file=rel,
                                      line=rc.lineno, props=PROPS))
            elif isinstance(par, (ast.List, ast.Tuple)):
                insts.append(Inst(RULE, fname, construct, 'ok', msg='list literal', file=rel, line=rc.lineno,
                                  props=PROPS))
            else:
                insts.append(Inst(RULE, fname, construct, 'unproven', msg='container not recognised', file=rel,
                                  line=rc.lineno, props=PROPS))
        # (b') an edge is not made conditional on the node dictionary while that dictionary is still being filled
        for rc in rel_calls:
            rnode = cfg.owner(rc)
            for g in cfg.nodes:
                if g.kind != 'if' or rnode is None or not cfg.dominates(g, rnode) or g is rnode:
                    continue
                for c_ in ast.walk(g.ast.test):
                    if isinstance(c_, ast.Compare) and len(c_.ops) == 1 and isinstance(c_.ops[0], (ast.In, ast.NotIn)) \
                            and isinstance(c_.comparators[0], ast.Name) and c_.comparators[0].id in node_containers:
                        cont = c_.comparators[0].id
                        later = [x for x in cfg.nodes if x.kind == 'stmt' and isinstance(x.ast, ast.Assign)
                                 and isinstance(x.ast.targets[0], ast.Subscript)
                                 and isinstance(x.ast.targets[0].value, ast.Name)
                                 and x.ast.targets[0].value.id == cont and x.loop is not None
                                 and (x.loop is g.loop or x.loop is (g.loop.loop if g.loop else None))
                                 and x.idx in cfg.reachable_from(g, avoiding={h_.idx for h_ in cfg.nodes if h_.kind == 'for' and h_ is (x.loop)})]
                        if later:
                            insts.append(Inst(
                                RULE, fname, f'(b) relationship {stmt_text(rc, 50)} does not depend on the fill state of {cont}',
                                'violation',
                                msg=(f"'{stmt_text(rc, 60)}' is created only 'if {stmt_text(g.ast.test, 40)}' while {cont} is "
                                     f"still being filled in the same loop ('{stmt_text(later[0].ast, 50)}' comes after it): "
                                     f"an edge whose other end is registered later relies on being added from that side, "
                                     f"and an edge from a step to itself is never added at all"),
                                file=rel, line=rc.lineno, props=PROPS))
        if fname == 'ingest_model':
            construct = '(b) each linked pair yields two relationships with swapped end points and both field labels'
            three = [rc for rc in rel_calls if len(rc.args) == 3]
            ok = False
            why = f'{len(three)} labelled Relationship constructions'
            if len(three) == 2:
                a, b = three
                swapped = stmt_text(a.args[0]) == stmt_text(b.args[2]) and stmt_text(a.args[2]) == stmt_text(b.args[0]) \
                    and stmt_text(a.args[0]) != stmt_text(a.args[2])
                labels = stmt_text(a.args[1]) != stmt_text(b.args[1])
                same_loop = cfg.owner(a).loop is cfg.owner(b).loop and cfg.owner(a).loop is not None
                ok = swapped and labels and same_loop
                why = f'swapped={swapped} distinct labels={labels} same loop body={same_loop}'
            indirect = False
            if not ok and len(three) == 1:
                # ONE construction fed from intermediate records (a comprehension / loop over a local list that was
                # filled earlier): whether both directions are recorded is decided where the records are made
                rc0 = three[0]
                pm_ = {}
                for x_ in ast.walk(f.node):
                    for ch_ in ast.iter_child_nodes(x_):
                        pm_[id(ch_)] = x_
                cur_ = pm_.get(id(rc0))
                while cur_ is not None and not isinstance(cur_, (ast.For, ast.ListComp, ast.GeneratorExp)):
                    cur_ = pm_.get(id(cur_))
                it_ = cur_.iter if isinstance(cur_, ast.For) else (cur_.generators[0].iter if cur_ is not None else None)
                if isinstance(it_, ast.Name) and any(
                        isinstance(c_, ast.Call) and isinstance(c_.func, ast.Attribute) and c_.func.attr in ('append', 'extend')
                        and isinstance(c_.func.value, ast.Name) and c_.func.value.id == it_.id for c_ in own_nodes(f.node)):
                    indirect = True
            if indirect:
                insts.append(Inst(RULE, fname, construct, 'unproven',
                                  msg='relationships are built from intermediate records collected earlier (not followed)',
                                  file=rel, line=three[0].lineno, props=PROPS))
                continue
            insts.append(Inst(RULE, fname, construct, 'ok' if ok else 'violation',
                              msg='' if ok else f'the two directions of a link are not both sent ({why})',
                              file=rel, line=f.node.lineno, props=PROPS))
        else:
            construct = '(b) one relationship per element of node.children'
            ok = False
            for rc in rel_calls:
                node = cfg.owner(rc)
                l = node.loop
                if l is not None and 'children' in stmt_text(l.ast.iter) and l.loop is not None \
                        and 'nodes' in stmt_text(l.loop.ast.iter):
                    ok = True
            insts.append(Inst(RULE, fname, construct, 'ok' if ok else 'unproven', file=rel, line=f.node.lineno,
                              props=PROPS))
        # ------------------------------------------------------------ (c) subgraph + transaction
        sg = _calls(f, 'Subgraph')
        construct = '(c) all nodes and relationships are passed to Subgraph'
        if len(sg) != 1:
            insts.append(Inst(RULE, fname, construct, 'unproven', msg=f'{len(sg)} Subgraph constructions', file=rel,
                              line=f.node.lineno, props=PROPS))
        else:
            txt = ' '.join(stmt_text(a) for a in sg[0].args)
            miss = [c for c in sorted(node_containers | rel_containers) if c not in txt]
            insts.append(Inst(RULE, fname, construct, 'ok' if not miss else 'violation',
                              msg='' if not miss else f'{miss} never reach the Subgraph: they are built but not sent',
                              file=rel, line=sg[0].lineno, props=PROPS))
        begin = [cfg.owner(c) for c in _calls(f, 'begin')]
        create = [cfg.owner(c) for c in _calls(f, 'create')]
        commit = [cfg.owner(c) for c in _calls(f, 'commit')]
        construct = '(c) begin -> create(subgraph) -> commit on every path'
        if len(begin) == 1 and create and commit:
            ok = all(cfg.postdominates(c, begin[0]) for c in (create[0], commit[0])) and \
                cfg.dominates(create[0], commit[0])
            insts.append(Inst(RULE, fname, construct, 'ok' if ok else 'violation',
                              msg='' if ok else 'some path from g.begin() reaches the end without create + commit: nothing is stored',
                              file=rel, line=begin[0].lineno, props=PROPS))
        else:
            insts.append(Inst(
                RULE, fname, construct, 'violation' if begin and (not create or not commit) else 'unproven',
                msg=('the transaction is ' + ('never committed' if not commit else 'never given the subgraph')
                     if begin and (not create or not commit) else 'transaction idiom not recognised'),
                file=rel, line=f.node.lineno, props=PROPS))
    # ---------------------------------------------------------------- (d) property keys
    f = prog.func('ingest_model')
    g = prog.func('get_model')
    written = set()
    starred = False
    reach = list(ctx.an.reachable([f]).values())
    for g_ in reach:
        for nc in _calls(g_, 'Node'):
            written |= {kw.arg for kw in nc.keywords if kw.arg}
            for kw in nc.keywords:
                if kw.arg is None:
                    # Node(label, **properties): the keys are the keyword arguments of the calls of this helper
                    kwn = g_.node.args.kwarg.arg if g_.node.args.kwarg is not None else None
                    if isinstance(kw.value, ast.Name) and kw.value.id == kwn:
                        named = {a.arg for a in g_.node.args.args + g_.node.args.kwonlyargs}
                        found = False
                        for h_ in reach:
                            for c_ in own_nodes(h_.node):
                                if isinstance(c_, ast.Call) and stmt_text(c_.func).split('.')[-1] == g_.name:
                                    found = True
                                    if any(k.arg is None for k in c_.keywords):
                                        starred = True
                                    written |= {k.arg for k in c_.keywords if k.arg and k.arg not in named}
                        if not found:
                            starred = True
                    else:
                        starred = True
    read = set()
    # variables holding the property dictionary of a database node: `x = dict(<row>[...])`
    node_dicts = set()
    for n in own_nodes(g.node):
        if isinstance(n, ast.Assign) and isinstance(n.targets[0], ast.Name) and isinstance(n.value, ast.Call) \
                and isinstance(n.value.func, ast.Name) and n.value.func.id == 'dict' and n.value.args \
                and isinstance(n.value.args[0], ast.Subscript):
            node_dicts.add(n.targets[0].id)
    for n in own_nodes(g.node):
        if isinstance(n, ast.Subscript) and isinstance(n.slice, ast.Constant) and isinstance(n.slice.value, str) \
                and isinstance(n.value, ast.Name) and n.value.id in node_dicts:
            read.add(n.slice.value)
    construct = '(d) node properties read by get_model are written by ingest_model'
    miss = sorted(read - written)
    if miss and starred:
        insts.append(Inst(RULE, 'get_model', construct, 'unproven',
                          msg=f'properties are passed on as **kwargs from a place not resolved; {miss} not seen', file=g.module.relpath,
                          line=g.node.lineno, props=PROPS))
        return insts
    insts.append(Inst(RULE, 'get_model', construct, 'ok' if not miss and read else ('violation' if miss else 'unproven'),
                      msg='' if not miss else f'get_model reads {miss} but ingest_model writes {sorted(written)}',
                      file=g.module.relpath, line=g.node.lineno, props=PROPS))
    return insts
