"""E0b: un-extraction of helpers, applied per module before the other normalisations.

A call to a small function defined in the same module (module-level function, method of the same
class called through self / the class, function nested in the caller) is replaced by the callee's
body, when that is a plain syntactic operation:

 * the callee has no decorator other than @staticmethod, no *args / **kwargs, no yield, no
   nested def, is not recursive, and its name is not one the rules refer to (PROTECTED: rules
   reason about calls to those - add_asset, compromise, remove_node ... - by name);
 * statement-level call sites  `g(a)`  /  `x = g(a)`  /  `return g(a)`  get the body with guard
   clause returns turned into nesting and the final `return e` turned into the assignment;
 * a callee that is a single `return <expr>` is substituted inside expressions;
 * arguments that are not plain names / attribute chains / constants are first bound to fresh
   locals; the callee's own locals get a unique suffix.

The original definitions stay where they are.  Nothing about the program changes; rules that
are intraprocedural simply see what the function does.  Call sites that do not fit are left
alone (the rule in question then sees a call, as before).
"""
from __future__ import annotations

import ast
import copy
import os
import re

MAX_BODY = 45
_counter = [0, 0]


def _protected_names() -> set:
    """identifiers that occur in string literals of the rule sources: the functions rules know by name."""
    here = os.path.dirname(os.path.abspath(__file__))
    names = set()
    refdefs = set()
    files = [os.path.join(here, 'registry.py'), os.path.join(here, 'props.py')]
    rd = os.path.join(here, 'rules')
    files += [os.path.join(rd, x) for x in os.listdir(rd) if x.endswith('.py')]
    files.append(os.path.join(here, 'reference', 'tables_ref.py'))
    files.append(os.path.join(here, 'reference', 'tables_ref_b.py'))
    for p in files:
        try:
            src = open(p, encoding='utf-8').read()
        except OSError:
            continue
        for m in (re.finditer(r"['\"]([A-Za-z_][A-Za-z0-9_.]*)['\"]", src) if not p.endswith('tables_ref_b.py') else ()):
            parts = m.group(1).split('.')
            if len(parts) >= 2 and parts[0][:1].isupper() and parts[1].startswith('_') \
                    and not parts[1].startswith('__'):
                # 'Class._private_method[.nested]': known to the rules as a method of THAT class only
                QUALIFIED.add((parts[0], parts[1]))
                names.add(parts[0])
                for part in parts[2:]:
                    names.add(part)
                continue
            for part in parts:
                names.add(part)
        if p.endswith('tables_ref_b.py'):
            # tier B compares functions as transcribed: what they call stays a call on both sides
            import ast as _ast
            for x in _ast.walk(_ast.parse(src)):
                if isinstance(x, _ast.Call):
                    if isinstance(x.func, _ast.Name):
                        names.add(x.func.id)
                    elif isinstance(x.func, _ast.Attribute) and isinstance(x.func.value, _ast.Name) \
                            and x.func.value.id in ('self', 'cls'):
                        names.add(x.func.attr)
            continue
        if p.endswith('tables_ref.py'):
            # the reference tables name the helpers they leave uninterpreted: every function / method they
            # define or call
            import ast as _ast
            for x in _ast.walk(_ast.parse(src)):
                if isinstance(x, _ast.FunctionDef):
                    refdefs.add(x.name)
                elif isinstance(x, _ast.Call):
                    if isinstance(x.func, _ast.Name):
                        names.add(x.func.id)
                    elif isinstance(x.func, _ast.Attribute):
                        names.add(x.func.attr)
    # a reference table defined under a name that the rules only know class-qualified stays class-qualified
    qual_names = {n for _, n in QUALIFIED}
    for n in refdefs:
        if n not in qual_names:
            names.add(n)
    # names of functions of the rules' own positive fixtures are not repository functions
    names -= {'attach', 'drop', 'pick', 'pairs', 'cached_load', 'module', 'remember', 'lookup', 'rebuild',
              'extend_surface', 'good', 'resolve'}
    return names


PROTECTED = None
QUALIFIED = set()      # (class name, private method name) pairs the rules know


def _is_protected(g) -> bool:
    if g.name in PROTECTED:
        return True
    return (getattr(g, '_malsa_owner', None), g.name) in QUALIFIED


def _simple_arg(e) -> bool:
    if isinstance(e, (ast.Name, ast.Constant)):
        return True
    if isinstance(e, ast.Attribute):
        return _simple_arg(e.value)
    if isinstance(e, ast.Subscript):
        return _simple_arg(e.value) and _simple_arg(e.slice)     # a pure read: duplicating it is harmless
    if isinstance(e, ast.Call) and isinstance(e.func, ast.Name) and e.func.id == 'getattr' and len(e.args) == 2 \
            and not e.keywords:
        return all(_simple_arg(a) for a in e.args)               # a field read chosen by name
    return False


def _has(node, types) -> bool:
    return any(isinstance(x, types) for x in ast.walk(node))


def _returns_only_at_guards(body) -> bool:
    """every Return is either the last statement of the body or the last statement of a top-level `if` chain
    (guard clause / if-else tail) - no return inside loops, try, with, match."""
    for i, st in enumerate(body):
        last = i == len(body) - 1
        if isinstance(st, ast.Return):
            if not last:
                return False
        elif isinstance(st, ast.If):
            if not _if_ok(st, last):
                return False
        elif _has(st, ast.Return):
            return False
    return True


def _if_ok(st: ast.If, last: bool) -> bool:
    for branch in (st.body, st.orelse):
        for j, s in enumerate(branch):
            blast = j == len(branch) - 1
            if isinstance(s, ast.Return):
                if not blast:
                    return False
            elif isinstance(s, ast.If):
                if not _if_ok(s, blast):
                    return False
            elif _has(s, ast.Return):
                return False
    return True


def _ends_with_return(stmts) -> bool:
    if not stmts:
        return False
    s = stmts[-1]
    if isinstance(s, (ast.Return, ast.Raise)):
        return True
    if isinstance(s, ast.If) and s.orelse:
        return _ends_with_return(s.body) and _ends_with_return(s.orelse)
    return False


def _lower_returns(stmts, result_target, cont=None):
    """continuation-passing rewrite of a body whose returns sit at guards: a `return e` becomes the result
    assignment and ends the path; an `if` that contains returns gets the statements that follow it (and the
    caller-supplied continuation) appended to each arm that can fall through."""
    cont = cont or []
    out = []
    for i, st in enumerate(stmts):
        if isinstance(st, ast.Return):
            out.extend(_assign_result(st, result_target))
            return out
        if isinstance(st, ast.Raise):
            out.append(st)
            return out
        if isinstance(st, ast.If) and _has(st, ast.Return):
            after = _lower_returns(stmts[i + 1:], result_target, cont)
            body = _lower_returns(st.body, result_target, copy.deepcopy(after))
            orelse = _lower_returns(st.orelse, result_target, after) if st.orelse else after
            new = ast.If(test=st.test, body=body or [ast.Pass()], orelse=orelse)
            ast.copy_location(new, st)
            out.append(new)
            return out
        out.append(st)
    return out + cont


def _assign_result(ret: ast.Return, result_target):
    if result_target is None:
        if ret.value is None or isinstance(ret.value, ast.Constant):
            return [ast.copy_location(ast.Pass(), ret)]
        return [ast.copy_location(ast.Expr(value=ret.value), ret)]
    if result_target == 'return':
        return [ret]
    val = ret.value if ret.value is not None else ast.Constant(value=None)
    tg = copy.deepcopy(result_target)
    a = ast.Assign(targets=[tg], value=val, type_comment=None)
    return [ast.copy_location(a, ret)]


class _Renamer(ast.NodeTransformer):
    def __init__(self, mapping, rename):
        self.mapping = mapping      # param name -> expression
        self.rename = rename        # local name -> new local name

    def visit_Name(self, node):
        if node.id in self.mapping and isinstance(node.ctx, ast.Load):
            return ast.copy_location(copy.deepcopy(self.mapping[node.id]), node)
        if node.id in self.rename:
            return ast.copy_location(ast.Name(id=self.rename[node.id], ctx=node.ctx), node)
        return node

    def visit_Lambda(self, node):
        return node

    def visit_FunctionDef(self, node):
        return node


def _callee_ok(g: ast.FunctionDef) -> bool:
    if (_is_protected(g) and not getattr(g, '_malsa_record_method', False)) or \
            (g.name.startswith('__') and g.name.endswith('__')):
        return False
    for d in g.decorator_list:
        if not (isinstance(d, ast.Name) and d.id in ('staticmethod', 'classmethod')):
            return False
    a = g.args
    if a.kwarg or a.kwonlyargs:
        return False
    body = [s for s in g.body if not (isinstance(s, ast.Expr) and isinstance(s.value, ast.Constant))]
    if not body or len(list(ast.walk(g))) > 900 or len(body) > MAX_BODY:
        return False
    for x in ast.walk(g):
        if isinstance(x, (ast.Yield, ast.YieldFrom, ast.Await, ast.Global, ast.Nonlocal, ast.Try, ast.With)):
            return False
        if x is not g and isinstance(x, (ast.FunctionDef, ast.AsyncFunctionDef, ast.ClassDef, ast.Lambda)):
            return False
        if isinstance(x, ast.Call) and isinstance(x.func, ast.Name) and x.func.id == g.name:
            return False
        if isinstance(x, ast.Call) and isinstance(x.func, ast.Attribute) and x.func.attr == g.name:
            return False
        if isinstance(x, ast.Call) and isinstance(x.func, ast.Name) and x.func.id in ('locals', 'vars', 'super'):
            return False
    return _returns_only_at_guards(body)


def _bind(g: ast.FunctionDef, call: ast.Call, receiver, is_static):
    """-> (mapping param->expr, pre-statements) or None"""
    params = [p.arg for p in g.args.posonlyargs + g.args.args]
    defaults = list(g.args.defaults)
    dmap = dict(zip(params[len(params) - len(defaults):], defaults)) if defaults else {}
    args = list(call.args)
    if any(isinstance(a, ast.Starred) for a in args) or any(k.arg is None for k in call.keywords):
        return None
    bound = {}
    if receiver is not None and not is_static:
        if not params:
            return None
        bound[params[0]] = receiver
        params = params[1:]
    if len(args) > len(params):
        if g.args.vararg is None:
            return None
        extra = args[len(params):]
        args = args[:len(params)]
        tup = ast.Tuple(elts=list(extra), ctx=ast.Load())
        bound[g.args.vararg.arg] = tup
    elif g.args.vararg is not None:
        bound[g.args.vararg.arg] = ast.Tuple(elts=[], ctx=ast.Load())
    for p, a in zip(params, args):
        bound[p] = a
    for k in call.keywords:
        if k.arg not in params or k.arg in bound:
            return None
        bound[k.arg] = k.value
    for p in params:
        if p not in bound:
            # only immutable literal defaults can be copied to the call site: a mutable default is ONE object
            # shared by all calls, and substituting a fresh literal would hide exactly that
            if p in dmap and isinstance(dmap[p], ast.Constant):
                bound[p] = dmap[p]
            else:
                return None
    return bound


def _stores(g):
    return {x.id for x in ast.walk(g) if isinstance(x, ast.Name) and isinstance(x.ctx, (ast.Store, ast.Del))}


def _instantiate(g: ast.FunctionDef, bound, result_target, nested: bool):
    """the callee's body for one call site -> list of statements (or None)"""
    _counter[0] += 1
    tag = f'__i{_counter[0]}'
    pre = []
    mapping = {}
    stored = _stores(g)
    rename = {}
    for p, a in bound.items():
        if _simple_arg(a) and p not in stored:
            mapping[p] = a
        else:
            # evaluated once, before the body; a parameter the body re-assigns is a plain local from then on
            tmp = f'{p}{tag}'
            pre.append(ast.Assign(targets=[ast.Name(id=tmp, ctx=ast.Store())], value=a, type_comment=None))
            rename[p] = tmp
    for nm in stored:
        if nm not in rename:
            rename[nm] = f'{nm}{tag}'
    # comprehension variables are their own scope but renaming them is harmless
    body = [copy.deepcopy(s) for s in g.body
            if not (isinstance(s, ast.Expr) and isinstance(s.value, ast.Constant) and isinstance(s.value.value, str))]
    r = _Renamer(mapping, rename)
    body = [r.visit(s) for s in body]          # the callee's names first ...
    out = _lower_returns(body, result_target)  # ... then the caller's result target (never renamed)
    return pre + out


def _generator_ok(g: ast.FunctionDef) -> bool:
    if _is_protected(g) or g.name.startswith('__'):
        return False
    if any(not (isinstance(d, ast.Name) and d.id == 'staticmethod') for d in g.decorator_list):
        return False
    a = g.args
    if a.vararg or a.kwarg or a.kwonlyargs:
        return False
    yields = 0
    for x in ast.walk(g):
        if isinstance(x, (ast.YieldFrom, ast.Await, ast.Global, ast.Nonlocal, ast.Try, ast.With)):
            return False
        if x is not g and isinstance(x, (ast.FunctionDef, ast.AsyncFunctionDef, ast.ClassDef, ast.Lambda)):
            return False
        if isinstance(x, ast.Return) and x.value is not None:
            return False
        if isinstance(x, ast.Return):
            return False          # an early `return` ends the generator: not expressible after substitution
        if isinstance(x, ast.Call) and ((isinstance(x.func, ast.Name) and x.func.id == g.name) or
                                        (isinstance(x.func, ast.Attribute) and x.func.attr == g.name)):
            return False
        if isinstance(x, ast.Yield):
            yields += 1
    if not 1 <= yields <= 3:
        return False
    # every yield is a statement of its own
    stmt_yields = sum(1 for x in ast.walk(g) if isinstance(x, ast.Expr) and isinstance(x.value, ast.Yield))
    return stmt_yields == yields and len(list(ast.walk(g))) < 700


def _own_jumps(body) -> bool:
    """break / continue that belong to the loop whose body this is"""
    def walk(stmts):
        for s in stmts:
            if isinstance(s, (ast.Break, ast.Continue)):
                return True
            if isinstance(s, (ast.For, ast.While, ast.FunctionDef, ast.ClassDef)):
                if isinstance(s, (ast.For, ast.While)) and walk(s.orelse):
                    return True
                continue
            for fld in ('body', 'orelse', 'finalbody'):
                sub = getattr(s, fld, None)
                if isinstance(sub, list) and sub and isinstance(sub[0], ast.stmt) and walk(sub):
                    return True
            for h in getattr(s, 'handlers', []) or []:
                if walk(h.body):
                    return True
        return False
    return walk(body)


def _instantiate_generator(g, bound, target, body):
    _counter[0] += 1
    tag = f'__i{_counter[0]}'
    pre, mapping, rename = [], {}, {}
    stored = _stores(g)
    for p, a in bound.items():
        if _simple_arg(a) and p not in stored:
            mapping[p] = a
        else:
            tmp = f'{p}{tag}'
            pre.append(ast.Assign(targets=[ast.Name(id=tmp, ctx=ast.Store())], value=a, type_comment=None))
            rename[p] = tmp
    for nm in stored:
        rename.setdefault(nm, f'{nm}{tag}')
    # names the loop body binds must not collide with the generator's (they are renamed) - and the body's reads of
    # its own names stay as they are
    gbody = [copy.deepcopy(s) for s in g.body
             if not (isinstance(s, ast.Expr) and isinstance(s.value, ast.Constant) and isinstance(s.value.value, str))]
    r = _Renamer(mapping, rename)
    gbody = [r.visit(s) for s in gbody]

    class Y(ast.NodeTransformer):
        def visit_Expr(self, node):
            if isinstance(node.value, ast.Yield):
                val = node.value.value if node.value.value is not None else ast.Constant(value=None)
                asg = ast.Assign(targets=[copy.deepcopy(target)], value=val, type_comment=None)
                return [asg] + [copy.deepcopy(s) for s in body]
            return node
    out = []
    for s in gbody:
        res = Y().visit(s)
        out.extend(res if isinstance(res, list) else [res])
    return pre + out


def _expr_callee(g):
    body = [s for s in g.body if not (isinstance(s, ast.Expr) and isinstance(s.value, ast.Constant))]
    if len(body) == 1 and isinstance(body[0], ast.Return) and body[0].value is not None:
        return body[0].value
    return None


class _Inliner:
    def __init__(self, tree):
        self.tree = tree
        self.count = 0
        self.module_funcs = {n.name: n for n in tree.body if isinstance(n, ast.FunctionDef)}
        self.class_methods = {}
        self.tuple_records = {}      # NamedTuple / plain @dataclass classes without __init__: name -> field names in order
        for c in tree.body:
            if isinstance(c, ast.ClassDef):
                self.class_methods[c.name] = {n.name: n for n in c.body if isinstance(n, ast.FunctionDef)}
                is_nt = any((isinstance(b, ast.Name) and b.id == 'NamedTuple') or
                            (isinstance(b, ast.Attribute) and b.attr == 'NamedTuple') for b in c.bases)
                if is_nt and '__new__' not in self.class_methods[c.name] and '__init__' not in self.class_methods[c.name]:
                    flds = [st.target.id for st in c.body if isinstance(st, ast.AnnAssign) and isinstance(st.target, ast.Name)]
                    if flds and not any(isinstance(st, ast.AnnAssign) and st.value is not None for st in c.body):
                        self.tuple_records[c.name] = flds

    def run(self):
        for owner_cls, f in self._all_functions():
            for _ in range(3):
                before = self.count
                self._function(owner_cls, f)
                if self.count == before:
                    break
        return self.count

    def _all_functions(self):
        out = []
        for n in self.tree.body:
            if isinstance(n, ast.FunctionDef):
                out.append((None, n))
            if isinstance(n, ast.ClassDef):
                for m in n.body:
                    if isinstance(m, ast.FunctionDef):
                        m._malsa_owner = n.name
                        out.append((n.name, m))
        return out

    def _resolve(self, owner_cls, f, call, nested_defs):
        """-> (callee def, receiver expr or None, is_static) or None"""
        fn = call.func
        if isinstance(fn, ast.Name):
            g = nested_defs.get(fn.id) or self.module_funcs.get(fn.id)
            if g is not None and g is not f:
                return g, None, True
            return None
        if isinstance(fn, ast.Attribute) and owner_cls is not None:
            selfn = f.args.args[0].arg if f.args.args else None
            methods = self.class_methods.get(owner_cls, {})
            g = methods.get(fn.attr)
            if g is not None and g is not f:
                static = any(isinstance(d, ast.Name) and d.id == 'staticmethod' for d in g.decorator_list)
                clsm = any(isinstance(d, ast.Name) and d.id == 'classmethod' for d in g.decorator_list)
                if isinstance(fn.value, ast.Name) and fn.value.id == selfn and selfn and not clsm:
                    return g, fn.value, static
                if isinstance(fn.value, ast.Name) and fn.value.id in (owner_cls, 'cls') and static:
                    return g, None, True
        # K.m(...) on a class of this module, m a classmethod / staticmethod
        if isinstance(fn, ast.Attribute) and isinstance(fn.value, ast.Name) and fn.value.id in self.class_methods:
            g = self.class_methods[fn.value.id].get(fn.attr)
            if g is not None and g is not f:
                decs = {d.id for d in g.decorator_list if isinstance(d, ast.Name)}
                if 'classmethod' in decs:
                    return g, fn.value, False          # cls is bound to the class name
                if 'staticmethod' in decs:
                    return g, None, True
        # method call on a local known to hold a small record object of this module
        if isinstance(fn, ast.Attribute) and isinstance(fn.value, ast.Name) and fn.value.id in getattr(self, 'records', {}):
            K = self.records[fn.value.id][0]
            g = self.class_methods.get(K, {}).get(fn.attr)
            if g is not None and g is not f and not any(
                    isinstance(d, ast.Name) and d.id == 'staticmethod' for d in g.decorator_list):
                if K not in PROTECTED:
                    g._malsa_record_method = True      # a method of a small record class the rules know nothing of
                return g, fn.value, False
        # method of ANOTHER class of this module, receiver a plain name / attribute: resolved only when the method
        # name is unique among the module's classes and the module's functions
        if isinstance(fn, ast.Attribute) and _simple_arg(fn.value):
            owners = [(cn, ms[fn.attr]) for cn, ms in self.class_methods.items() if fn.attr in ms]
            if len(owners) == 1 and fn.attr not in self.module_funcs:
                g = owners[0][1]
                static = any(isinstance(d, ast.Name) and d.id == 'staticmethod' for d in g.decorator_list)
                if g is not f and not static and fn.attr not in _COMMON_METHODS:
                    return g, fn.value, False
        return None

    def _record_locals(self, f):
        """locals bound exactly once to `K(simple args)` where K is a class of this module whose __init__ only
        stores its parameters in fields: -> {local: (class name, {field: arg expr})}"""
        stores = {}
        for x in ast.walk(f):
            if isinstance(x, ast.Name) and isinstance(x.ctx, (ast.Store, ast.Del)):
                stores[x.id] = stores.get(x.id, 0) + 1
        out = {}
        for x in ast.walk(f):
            if isinstance(x, ast.Assign) and len(x.targets) == 1 and isinstance(x.targets[0], ast.Name) \
                    and isinstance(x.value, ast.Call) and isinstance(x.value.func, ast.Name) \
                    and x.value.func.id in self.class_methods and stores.get(x.targets[0].id) == 1:
                K = x.value.func.id
                if K in self.tuple_records:
                    # a NamedTuple record: field i is positional argument i (or the keyword of that name)
                    flds = self.tuple_records[K]
                    call = x.value
                    if any(isinstance(a, ast.Starred) for a in call.args) or any(k.arg is None for k in call.keywords) \
                            or len(call.args) > len(flds):
                        continue
                    vals = dict(zip(flds, call.args))
                    vals.update({k.arg: k.value for k in call.keywords if k.arg in flds})
                    if set(vals) != set(flds) or not all(_simple_arg(v) for v in vals.values()):
                        continue
                    argnames = {n.id for v in vals.values() for n in ast.walk(v) if isinstance(n, ast.Name)}
                    fparams = {a.arg for a in f.args.args}
                    if any(stores.get(nm, 0) > (0 if nm in fparams else 1) for nm in argnames):
                        continue
                    # only plain field reads of the record (no unpacking / indexing / passing it on)
                    nm_ = x.targets[0].id
                    # ... calls of the record's own methods (un-extracted below) and whatever is only handed to the
                    # logger do not count
                    in_log = {id(u) for c_ in ast.walk(f) if isinstance(c_, ast.Call) and isinstance(c_.func, ast.Attribute)
                              and isinstance(c_.func.value, ast.Name) and c_.func.value.id in ('logger', 'logging', 'log')
                              for a_ in list(c_.args) + [k.value for k in c_.keywords] for u in ast.walk(a_)}
                    meths = {m for m, d in self.class_methods.get(K, {}).items()
                             if not any(isinstance(dd, ast.Name) and dd.id in ('property', 'classmethod', 'staticmethod')
                                        for dd in d.decorator_list)}
                    other_use = any(isinstance(u, ast.Name) and u.id == nm_ and isinstance(u.ctx, ast.Load)
                                    and id(u) not in in_log
                                    and not any(isinstance(p_, ast.Attribute) and p_.value is u and
                                                (p_.attr in flds or p_.attr in meths)
                                                for p_ in ast.walk(f))
                                    for u in ast.walk(f))
                    if other_use:
                        continue
                    out[nm_] = (K, dict(vals))
                    continue
                init = self.class_methods[K].get('__init__')
                if init is None or init.args.vararg or init.args.kwarg:
                    continue
                params = [a.arg for a in init.args.args][1:]
                selfn = init.args.args[0].arg if init.args.args else 'self'
                fields = {}
                ok = True
                for st in init.body:
                    if isinstance(st, ast.Expr) and isinstance(st.value, ast.Constant):
                        continue
                    tg = st.targets[0] if isinstance(st, ast.Assign) and len(st.targets) == 1 else (
                        st.target if isinstance(st, ast.AnnAssign) else None)
                    val = getattr(st, 'value', None)
                    if isinstance(tg, ast.Attribute) and isinstance(tg.value, ast.Name) and tg.value.id == selfn \
                            and isinstance(val, ast.Name) and val.id in params:
                        fields[tg.attr] = val.id
                    else:
                        ok = False
                if not ok:
                    continue
                bound = _bind(init, x.value, ast.Name(id='__self__', ctx=ast.Load()), False)
                if bound is None or not all(_simple_arg(bound[p]) for p in params if p in bound):
                    continue
                # the argument expressions must keep their meaning: names in them are never re-assigned in f
                argnames = {n.id for p in params for n in ast.walk(bound[p]) if isinstance(n, ast.Name)}
                fparams = {a.arg for a in f.args.args}
                if any(stores.get(nm, 0) > (0 if nm in fparams else 1) for nm in argnames):
                    continue
                out[x.targets[0].id] = (K, {fld: bound[p] for fld, p in fields.items()})
        return out

    def _function(self, owner_cls, f):
        nested = {n.name: n for n in f.body if isinstance(n, ast.FunctionDef)}
        self.records = self._record_locals(f)
        self._block(owner_cls, f, f.body, nested)
        # expression-level: single-return callees
        self._expressions(owner_cls, f, nested)
        # fields of record locals are the constructor arguments (nothing stores into them in f)
        if self.records:
            stored_fields = {(x.value.id, x.attr) for x in ast.walk(f) if isinstance(x, ast.Attribute)
                             and isinstance(x.ctx, (ast.Store, ast.Del)) and isinstance(x.value, ast.Name)}
            recs = self.records
            outer = self

            class F(ast.NodeTransformer):
                def visit_Attribute(self, node):
                    self.generic_visit(node)
                    if isinstance(node.ctx, ast.Load) and isinstance(node.value, ast.Name) and node.value.id in recs \
                            and node.attr in recs[node.value.id][1] and (node.value.id, node.attr) not in stored_fields:
                        outer.count += 1
                        return ast.copy_location(copy.deepcopy(recs[node.value.id][1][node.attr]), node)
                    return node
            F().visit(f)
        # a nested function whose every call was replaced by its body is dead: drop the definition
        if nested:
            used = {x.id for x in ast.walk(f) if isinstance(x, ast.Name) and isinstance(x.ctx, ast.Load)}
            keep = []
            for st in f.body:
                if isinstance(st, ast.FunctionDef) and st.name in nested and st.name not in used \
                        and not any(isinstance(x, ast.Name) and x.id == st.name
                                    for other in f.body if other is not st for x in ast.walk(other)):
                    self.count += 1
                    continue
                keep.append(st)
            if keep:
                f.body[:] = keep

    def _block(self, owner_cls, f, stmts, nested):
        i = 0
        while i < len(stmts):
            st = stmts[i]
            call, target = None, None
            if isinstance(st, ast.Expr) and isinstance(st.value, ast.Call):
                call, target = st.value, None
            elif isinstance(st, ast.Assign) and len(st.targets) == 1 and isinstance(st.value, ast.Call):
                call, target = st.value, st.targets[0]
            elif isinstance(st, ast.AnnAssign) and st.value is not None and isinstance(st.value, ast.Call):
                call, target = st.value, st.target
            elif isinstance(st, ast.Return) and isinstance(st.value, ast.Call):
                call, target = st.value, 'return'
            # if g(a): / if not g(a):   ->   t = g(a) ; if t: / if not t:      (then t = g(a) is un-extracted)
            if isinstance(st, ast.If):
                tcall = st.test.operand if isinstance(st.test, ast.UnaryOp) and isinstance(st.test.op, ast.Not) else st.test
                if isinstance(tcall, ast.Call):
                    res = self._resolve(owner_cls, f, tcall, nested)
                    if res is not None and _callee_ok(res[0]) and _ends_with_value(res[0]) and _expr_callee(res[0]) is None:
                        _counter[0] += 1
                        tmp = f'__t__i{_counter[0]}'
                        a = ast.Assign(targets=[ast.Name(id=tmp, ctx=ast.Store())], value=tcall, type_comment=None)
                        ast.copy_location(a, st)
                        ref = ast.copy_location(ast.Name(id=tmp, ctx=ast.Load()), tcall)
                        if tcall is st.test:
                            st.test = ref
                        else:
                            st.test.operand = ref
                        stmts.insert(i, a)
                        ast.fix_missing_locations(a)
                        continue
            # C.extend(gen(args))  ->  for y in gen(args): C.append(y)       (so that the generator can be un-extracted)
            if isinstance(st, ast.Expr) and isinstance(st.value, ast.Call) and isinstance(st.value.func, ast.Attribute) \
                    and st.value.func.attr == 'extend' and len(st.value.args) == 1 and isinstance(st.value.args[0], ast.Call):
                res = self._resolve(owner_cls, f, st.value.args[0], nested)
                if res is not None and _generator_ok(res[0]):
                    _counter[0] += 1
                    y = f'__y__i{_counter[0]}'
                    app = ast.Expr(value=ast.Call(func=ast.Attribute(value=st.value.func.value, attr='append', ctx=ast.Load()),
                                                  args=[ast.Name(id=y, ctx=ast.Load())], keywords=[]))
                    loop = ast.For(target=ast.Name(id=y, ctx=ast.Store()), iter=st.value.args[0], body=[app], orelse=[],
                                   type_comment=None)
                    ast.copy_location(loop, st)
                    ast.fix_missing_locations(loop)
                    stmts[i] = loop
                    continue
            # for x in gen(args): BODY   with gen a small generator: gen's body with `yield e` -> `x = e; BODY`
            if isinstance(st, ast.For) and isinstance(st.iter, ast.Call) and not st.orelse:
                res = self._resolve(owner_cls, f, st.iter, nested)
                if res is not None and _generator_ok(res[0]) and not _own_jumps(st.body):
                    g, recv, static = res
                    bound = _bind(g, st.iter, recv, static)
                    if bound is not None:
                        new = _instantiate_generator(g, bound, st.target, st.body)
                        if new is not None:
                            g._malsa_inlined = True
                            for s_ in new:
                                for x in ast.walk(s_):
                                    _counter[1] += 1
                                    x.lineno = getattr(st, 'lineno', 1)
                                    x.col_offset = 1000 + _counter[1]
                                    x.end_lineno = x.lineno
                                    x.end_col_offset = x.col_offset + 1
                            stmts[i:i + 1] = new
                            self.count += 1
                            continue
            if isinstance(st, ast.For) and isinstance(st.iter, ast.Call):
                res = self._resolve(owner_cls, f, st.iter, nested)
                if res is not None and _callee_ok(res[0]) and _ends_with_value(res[0]):
                    _counter[0] += 1
                    tmp = f'__iter__i{_counter[0]}'
                    a = ast.Assign(targets=[ast.Name(id=tmp, ctx=ast.Store())], value=st.iter, type_comment=None)
                    ast.copy_location(a, st)
                    st.iter = ast.copy_location(ast.Name(id=tmp, ctx=ast.Load()), st.iter)
                    stmts.insert(i, a)
                    ast.fix_missing_locations(a)
                    continue
            done = False
            if call is not None:
                res = self._resolve(owner_cls, f, call, nested)
                if res is not None:
                    g, recv, static = res
                    if _callee_ok(g) and (target is None or _ends_with_value(g)):
                        bound = _bind(g, call, recv, static)
                        if bound is not None:
                            new = _instantiate(g, bound, target, g.name in nested)
                            if new is not None:
                                g._malsa_inlined = True
                                for s in new:
                                    ast.copy_location(s, st)
                                    for x in ast.walk(s):
                                        # the call site's line (ordering inside the caller stays meaningful), a
                                        # unique column (allocation sites / node identities stay distinct)
                                        _counter[1] += 1
                                        x.lineno = getattr(st, 'lineno', 1)
                                        x.col_offset = 1000 + _counter[1]
                                        x.end_lineno = x.lineno
                                        x.end_col_offset = x.col_offset + 1
                                stmts[i:i + 1] = new
                                self.count += 1
                                done = True
            if done:
                continue
            if not isinstance(st, (ast.FunctionDef, ast.ClassDef, ast.AsyncFunctionDef)):
                for fld in ('body', 'orelse', 'finalbody'):
                    sub = getattr(st, fld, None)
                    if isinstance(sub, list) and sub and isinstance(sub[0], ast.stmt):
                        self._block(owner_cls, f, sub, nested)
                for h in getattr(st, 'handlers', []) or []:
                    self._block(owner_cls, f, h.body, nested)
                for c in getattr(st, 'cases', []) or []:
                    self._block(owner_cls, f, c.body, nested)
            i += 1

    def _expressions(self, owner_cls, f, nested):
        outer = self

        class T(ast.NodeTransformer):
            def visit_FunctionDef(self, node):
                return node if node is not f else self.generic_visit(node)

            def visit_Lambda(self, node):
                return node

            def visit_Call(self, node):
                self.generic_visit(node)
                res = outer._resolve(owner_cls, f, node, nested)
                if res is None:
                    return node
                g, recv, static = res
                e = _expr_callee(g)
                if e is None or not _callee_ok(g):
                    return node
                bound = _bind(g, node, recv, static)
                if bound is None or not all(_simple_arg(a) for a in bound.values()):
                    return node
                # every parameter used at most ... (arguments are simple: duplication is harmless)
                if _stores(g):
                    return node     # comprehension variables etc.: keep it simple
                new = _Renamer(bound, {}).visit(copy.deepcopy(e))
                g._malsa_inlined = True
                for x in ast.walk(new):
                    _counter[1] += 1
                    x.lineno = getattr(node, 'lineno', 1)
                    x.col_offset = 1000 + _counter[1]
                    x.end_lineno = x.lineno
                    x.end_col_offset = x.col_offset + 1
                outer.count += 1
                return new
        T().visit(f)


_COMMON_METHODS = {'get', 'items', 'keys', 'values', 'append', 'extend', 'add', 'remove', 'pop', 'update', 'copy',
                   'format', 'join', 'split', 'strip', 'index', 'count', 'insert', 'clear', 'sort', 'visit'}


def _ends_with_value(g) -> bool:
    body = [s for s in g.body if not (isinstance(s, ast.Expr) and isinstance(s.value, ast.Constant))]
    return _ends_with_return(body)


def _drop_dead_private(tree) -> int:
    """a private helper (leading underscore) none of whose uses is left after un-extraction is dead code: analysing
    it on its own, without the call site that gave it meaning, would only produce reports about code that never
    runs that way."""
    dropped = 0
    for _ in range(3):
        refs = set()
        for x in ast.walk(tree):
            if isinstance(x, ast.Name) and isinstance(x.ctx, ast.Load):
                refs.add(x.id)
            elif isinstance(x, ast.Attribute):
                refs.add(x.attr)
            elif isinstance(x, ast.Constant) and isinstance(x.value, str):
                refs.add(x.value)
        changed = False
        for owner in [tree] + [c for c in tree.body if isinstance(c, ast.ClassDef)]:
            keep = []
            for st in owner.body:
                if isinstance(st, ast.FunctionDef) and st.name.startswith('_') and not st.name.startswith('__') \
                        and st.name not in refs and not _is_protected(st) and getattr(st, '_malsa_inlined', False):
                    dropped += 1
                    changed = True
                    continue
                keep.append(st)
            if len(keep) != len(owner.body):
                owner.body[:] = keep or [ast.Pass()]
        if not changed:
            break
    return dropped


def inline_helpers(tree: ast.Module) -> int:
    global PROTECTED
    if PROTECTED is None:
        PROTECTED = _protected_names()
    n = _Inliner(tree).run()
    n += _drop_dead_private(tree)
    ast.fix_missing_locations(tree)
    return n
