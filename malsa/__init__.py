"""malsa - repository-specific static analysis of mal-toolbox (see /verif/DESIGN.md).

Pure standard library.  Nothing in this package imports, runs or symbolically
executes maltoolbox: every verdict is computed from the syntax trees of the
current working tree of the analysed repository.
"""
