"""E7: recognisers for the closed idiom list (DESIGN appendix C)."""
from __future__ import annotations

import ast
from typing import Optional


def same(a, b) -> bool:
    return a is not None and b is not None and ast.dump(a) == ast.dump(b)


def is_name(e, name=None) -> bool:
    return isinstance(e, ast.Name) and (name is None or e.id == name)


def strip_not(e):
    """-> (negated?, inner)"""
    neg = False
    while isinstance(e, ast.UnaryOp) and isinstance(e.op, ast.Not):
        neg = not neg
        e = e.operand
    return neg, e


def _eq_on_same_attr(cmp, a_name, b_name):
    """cmp is `a.attr OP b.attr` (either order) or `a OP b`; -> ('eq'|'ne'|'is'|'isnot', attr) or None"""
    if not (isinstance(cmp, ast.Compare) and len(cmp.ops) == 1):
        return None
    l, r = cmp.left, cmp.comparators[0]
    op = cmp.ops[0]
    kind = {ast.Eq: 'eq', ast.NotEq: 'ne', ast.Is: 'eq', ast.IsNot: 'ne'}.get(type(op))
    if kind is None:
        return None

    def base(e):
        if isinstance(e, ast.Attribute) and isinstance(e.value, ast.Name):
            return e.value.id, e.attr
        if isinstance(e, ast.Name):
            return e.id, None
        return None, None
    ln, la = base(l)
    rn, ra = base(r)
    if ln is None or rn is None or la != ra:
        return None
    if {ln, rn} != {a_name, b_name}:
        return None
    return kind, la


def membership(test, elem_name: str):
    """Classify a boolean expression as a membership test of the loop element `elem_name`.
    -> (polarity, collection expr, kind) with polarity True = "elem IS a member", kind in
       'member' | 'exists-other';  None if not recognised.
    Recognised (appendix C): x in XS / x not in XS; next((y for y in XS if y.k == x.k), None)
    [truthy / is None / is not None]; any(y.k == x.k for y in XS); all(y.k != x.k for y in XS);
    x.k in [y.k for y in XS] (list/set/generator)."""
    neg, e = strip_not(test)
    pol = not neg
    # x in XS / x.k in [y.k for y in XS]
    if isinstance(e, ast.Compare) and len(e.ops) == 1 and isinstance(e.ops[0], (ast.In, ast.NotIn)):
        if isinstance(e.ops[0], ast.NotIn):
            pol = not pol
        l, coll = e.left, e.comparators[0]
        if is_name(l, elem_name):
            return pol, coll, 'member'
        if isinstance(l, ast.Attribute) and is_name(l.value, elem_name) \
                and isinstance(coll, (ast.ListComp, ast.SetComp, ast.GeneratorExp)) and len(coll.generators) == 1:
            g = coll.generators[0]
            if isinstance(coll.elt, ast.Attribute) and isinstance(g.target, ast.Name) \
                    and is_name(coll.elt.value, g.target.id) and coll.elt.attr == l.attr and not g.ifs:
                return pol, g.iter, 'member'
        # x.k in KEYS  (a set / list of keys kept alongside: visited ids)
        if isinstance(l, ast.Attribute) and is_name(l.value, elem_name) and isinstance(coll, (ast.Name, ast.Attribute)):
            return pol, coll, 'member'
        return None
    # next(gen, None) compared with None
    if isinstance(e, ast.Compare) and len(e.ops) == 1 and isinstance(e.ops[0], (ast.Is, ast.IsNot, ast.Eq, ast.NotEq)) \
            and isinstance(e.comparators[0], ast.Constant) and e.comparators[0].value is None:
        inner = membership(e.left, elem_name)
        if inner is None:
            return None
        ipol, coll, kind = inner
        if isinstance(e.ops[0], (ast.Is, ast.Eq)):
            ipol = not ipol
        return (ipol if pol else not ipol), coll, kind
    if isinstance(e, ast.Call) and isinstance(e.func, ast.Name) and e.func.id in ('next', 'any', 'all') and e.args:
        g = e.args[0]
        if not isinstance(g, (ast.GeneratorExp, ast.ListComp)) or len(g.generators) != 1:
            return None
        gen = g.generators[0]
        if not isinstance(gen.target, ast.Name):
            return None
        y = gen.target.id
        if e.func.id == 'next':
            if len(gen.ifs) != 1 or not is_name(g.elt, y):
                return None
            cond = gen.ifs[0]
        else:
            if gen.ifs:
                return None
            cond = g.elt
        c = _eq_on_same_attr(cond, y, elem_name)
        if c is None:
            return None
        kind, attr = c
        if e.func.id in ('next', 'any'):
            if kind == 'eq':
                return pol, gen.iter, 'member'
            return pol, gen.iter, 'exists-other'
        # all(y.k != x.k) == not member ; all(y.k == x.k) is something else
        if kind == 'ne':
            return (not pol), gen.iter, 'member'
        return None
    return None


def append_loops(body_stmts, result_names=None):
    """Find loops of the shape
         for v in SRC: [if COND:] DST.append(v)       (DST a local name)
       -> list of dicts(loop, var, src, cond, dst, op) ; cond None = unconditional;
       op 'append' | 'remove'."""
    out = []
    for st in body_stmts:
        for n in ast.walk(st):
            if not isinstance(n, ast.For) or not isinstance(n.target, ast.Name):
                continue
            v = n.target.id
            body = n.body
            cond = None
            if len(body) == 1 and isinstance(body[0], ast.If) and not body[0].orelse:
                cond = body[0].test
                body = body[0].body
            if len(body) == 1 and isinstance(body[0], ast.Expr) and isinstance(body[0].value, ast.Call):
                c = body[0].value
                if isinstance(c.func, ast.Attribute) and c.func.attr in ('append', 'remove', 'add') \
                        and isinstance(c.func.value, ast.Name) and len(c.args) == 1 and is_name(c.args[0], v):
                    out.append(dict(loop=n, var=v, src=n.iter, cond=cond, dst=c.func.value.id,
                                    op=c.func.attr, call=c))
    return out


def comprehension_filter(e):
    """[v for v in SRC if COND] -> dict(var, src, cond) (cond may be None); else None"""
    if isinstance(e, (ast.ListComp,)) and len(e.generators) == 1:
        g = e.generators[0]
        if isinstance(g.target, ast.Name) and is_name(e.elt, g.target.id) and len(g.ifs) <= 1:
            return dict(var=g.target.id, src=g.iter, cond=g.ifs[0] if g.ifs else None)
    return None


def snapshot_of(e) -> Optional[ast.AST]:
    """list(x) / x[:] / x.copy() / copy.copy(x) / sorted(x) / [*x] -> x ; else None"""
    if isinstance(e, ast.Call):
        if isinstance(e.func, ast.Name) and e.func.id in ('list', 'sorted', 'tuple') and len(e.args) == 1:
            return e.args[0]
        if isinstance(e.func, ast.Attribute) and e.func.attr == 'copy' and not e.args:
            if isinstance(e.func.value, ast.Name) and e.func.value.id == 'copy':
                return None
            return e.func.value
        if isinstance(e.func, ast.Attribute) and isinstance(e.func.value, ast.Name) and e.func.value.id == 'copy' \
                and e.func.attr in ('copy', 'deepcopy') and e.args:
            return e.args[0]
    if isinstance(e, ast.Subscript) and isinstance(e.slice, ast.Slice) and e.slice.lower is None \
            and e.slice.upper is None:
        return e.value
    if isinstance(e, ast.List) and len(e.elts) == 1 and isinstance(e.elts[0], ast.Starred):
        return e.elts[0].value
    return None


def is_empty_list(e) -> bool:
    return (isinstance(e, ast.List) and not e.elts) or (
        isinstance(e, ast.Call) and isinstance(e.func, ast.Name) and e.func.id == 'list' and not e.args)
