"""E6: whole-package, flow-insensitive, context-insensitive points-to analysis over allocation sites.

Abstract objects
  ('SPEC',)                 everything reachable from the loaded language specification
                            (closed under reads: reading any key of SPEC gives SPEC)
  ('DF', func, line, col)   result of copy.deepcopy / a parser: deep-fresh - a read gives the same
                            object back, plus whatever was explicitly stored under that key later
  ('A', func, line, col)    an allocation site (literal, comprehension, list()/dict() copy,
                            constructor call): reads follow the recorded heap edges
Heap edges  obj --key--> set(obj), key = constant string / '.attr' / '*' (any element).
Weak updates only.  Variables are (function qname, name).
"""
from __future__ import annotations

import ast
from typing import Optional

from .core import Program, Func, own_nodes, const_str
from .cfg import cfg_of

SPEC = ('SPEC',)
MUT_ADD = {'append', 'add', 'insert', 'appendleft'}
MUT_EXT = {'extend', 'update'}
MUT_DEL = {'remove', 'pop', 'clear', 'discard', 'popitem', 'sort', 'reverse'}
SCALAR_FUNCS = {'str', 'int', 'float', 'bool', 'len', 'repr', 'isinstance', 'hasattr', 'id', 'hash',
                'any', 'all', 'max', 'min', 'sum', 'abs', 'print', 'range', 'type', 'open', 'round'}


class Sink:
    __slots__ = ('func', 'node', 'recv', 'op', 'text')

    def __init__(self, func, node, recv, op):
        self.func = func
        self.node = node
        self.recv = recv      # expression whose objects are mutated
        self.op = op


class PointsTo:
    def __init__(self, prog: Program):
        self.prog = prog
        self.pts: dict[tuple, set] = {}
        self.heap: dict[tuple, dict[str, set]] = {}
        self.ret: dict[str, set] = {}
        self.sinks: list[Sink] = []
        self._bound_cache: dict[str, set] = {}
        self._resolvers: dict = {}
        self._node = None
        self._sink_seen: set = set()
        self.changed = True
        self.globals: dict = {}          # (module relpath, name) -> objects of a module-level container literal
        for m in prog.modules.values():
            if getattr(m, 'generated', False):
                continue
            for st in m.tree.body:
                tg = None
                if isinstance(st, ast.Assign) and len(st.targets) == 1 and isinstance(st.targets[0], ast.Name):
                    tg = st.targets[0].id
                elif isinstance(st, ast.AnnAssign) and isinstance(st.target, ast.Name) and st.value is not None:
                    tg = st.target.id
                if tg and isinstance(st.value, (ast.Dict, ast.List, ast.Set)):
                    self.globals[(m.relpath, tg)] = {self._global_obj(m, st.value)}
        self.funcs = [f for f in prog.all_funcs()]
        self._collect_sinks = False
        self.rounds = 0
        for rnd in range(40):
            self.changed = False
            self.rounds = rnd + 1
            for f in self.funcs:
                self._func(f)
            if not self.changed:
                break
        self._collect_sinks = True
        for f in self.funcs:
            self._func(f)

    def _global_obj(self, m, node):
        """('G', module, line, col): a container literal evaluated once at import time, shared by the whole process"""
        o = ('G', m.relpath, node.lineno, node.col_offset)
        h = self.heap.setdefault(o, {})
        if isinstance(node, ast.Dict):
            for k, v in zip(node.keys, node.values):
                key = k.value if isinstance(k, ast.Constant) and isinstance(k.value, str) else '*'
                if isinstance(v, (ast.Dict, ast.List, ast.Set)):
                    h.setdefault(key, set()).add(self._global_obj(m, v))
        else:
            for v in node.elts:
                if isinstance(v, (ast.Dict, ast.List, ast.Set)):
                    h.setdefault('*', set()).add(self._global_obj(m, v))
        return o

    # ------------------------------------------------------------------ lattice helpers
    def _add(self, s: set, items) -> None:
        n = len(s)
        s.update(items)
        if len(s) != n:
            self.changed = True

    def _bound(self, f: Func) -> set:
        b = self._bound_cache.get(f.qname)
        if b is None:
            b = set(f.params) | set(f.kwonly)
            for n in own_nodes(f.node):
                if isinstance(n, ast.Name) and isinstance(n.ctx, (ast.Store, ast.Del)):
                    b.add(n.id)
            self._bound_cache[f.qname] = b
        return b

    def var(self, f: Func, name: str, idx: Optional[int] = None) -> set:
        """the points-to set of the version of `name` defined at CFG node idx (default: current)."""
        if idx is None:
            idx = self._node.idx if self._node is not None else 0
        return self.pts.setdefault((f.qname, name, idx), set())

    def lookup(self, f: Func, name: str) -> set:
        """value of a Name *use* at the current CFG node: union over reaching definitions."""
        if name in self._bound(f):
            out = set()
            if self._node is not None:
                for d in cfg_of(f).reaching(self._node, name):
                    out |= self.pts.get((f.qname, name, d.idx), set())
            return out
        # closure variable: any version in an enclosing function
        g = f.parent
        while g is not None:
            if name in self._bound(g):
                out = set()
                for (q, n, i), v in self.pts.items():
                    if q == g.qname and n == name:
                        out |= v
                return out
            g = g.parent
        gl = self.globals.get((f.module.relpath, name))
        if gl:
            return set(gl)
        return set()

    def read(self, objs, key: str) -> set:
        out = set()
        for o in objs:
            if o == SPEC:
                out.add(SPEC)
                continue
            h = self.heap.get(o)
            if o[0] == 'DF':
                # deep-fresh: the sub-object under `key` is a distinct fresh object (path-structured,
                # k-limited), plus whatever was explicitly stored there later
                path = o[4]
                if len(path) < 4:
                    out.add(o[:4] + (path + (key,),))
                else:
                    out.add(o[:4] + (path[:3] + ('...',),))
            if h:
                if key == '*':
                    for k, v in h.items():
                        if not k.startswith('.'):
                            out |= v
                else:
                    out |= h.get(key, set())
                    if not key.startswith('.'):
                        out |= h.get('*', set())
        return out

    def store(self, objs, key: str, vals) -> None:
        if not vals:
            return
        for o in objs:
            if o == SPEC:
                continue
            h = self.heap.setdefault(o, {})
            self._add(h.setdefault(key, set()), vals)

    def site(self, f: Func, e, kind='A') -> tuple:
        if kind == 'DF':
            return (kind, f.short, getattr(e, 'lineno', 0), getattr(e, 'col_offset', 0), ())
        return (kind, f.short, getattr(e, 'lineno', 0), getattr(e, 'col_offset', 0))

    # ------------------------------------------------------------------ expressions
    def key_of(self, k) -> str:
        if isinstance(k, ast.Constant) and isinstance(k.value, (str, int)):
            return str(k.value) if isinstance(k.value, str) else '*'
        return '*'

    def ev(self, f: Func, e) -> set:
        if e is None:
            return set()
        if isinstance(e, ast.Name):
            cb = self._resolver(f).comp_of_name.get(id(e))
            if cb is not None:
                if cb[0] == 'lambda':
                    return set()
                return self.iter_elems(f, cb[1], cb[2])
            return self.lookup(f, e.id)
        if isinstance(e, ast.Attribute):
            if e.attr == '_lang_spec':
                return {SPEC}
            return self.read(self.ev(f, e.value), '.' + e.attr)
        if isinstance(e, ast.Subscript):
            if isinstance(e.slice, ast.Slice):
                src = self.ev(f, e.value)
                a = self.site(f, e)
                self.store({a}, '*', self.read(src, '*'))
                return {a}
            return self.read(self.ev(f, e.value), self.key_of(e.slice))
        if isinstance(e, ast.Call):
            return self.call(f, e)
        if isinstance(e, ast.IfExp):
            return self.ev(f, e.body) | self.ev(f, e.orelse)
        if isinstance(e, ast.BoolOp):
            out = set()
            for v in e.values:
                out |= self.ev(f, v)
            return out
        if isinstance(e, ast.NamedExpr):
            v = self.ev(f, e.value)
            self._add(self.var(f, e.target.id), v)
            return v
        if isinstance(e, ast.Dict):
            a = self.site(f, e)
            for k, v in zip(e.keys, e.values):
                if k is None:
                    src = self.ev(f, v)
                    self.store({a}, '*', self.read(src, '*'))
                else:
                    self.store({a}, self.key_of(k), self.ev(f, v))
            self.heap.setdefault(a, {})
            return {a}
        if isinstance(e, (ast.List, ast.Tuple, ast.Set)):
            a = self.site(f, e)
            self.heap.setdefault(a, {})
            for i, x in enumerate(e.elts):
                if isinstance(x, ast.Starred):
                    self.store({a}, '*', self.read(self.ev(f, x.value), '*'))
                elif isinstance(e, ast.Tuple):
                    self.store({a}, f'#{i}', self.ev(f, x))
                else:
                    self.store({a}, '*', self.ev(f, x))
            return {a}
        if isinstance(e, (ast.ListComp, ast.SetComp, ast.GeneratorExp)):
            self.bind_gens(f, e.generators)
            a = self.site(f, e)
            self.heap.setdefault(a, {})
            self.store({a}, '*', self.ev(f, e.elt))
            return {a}
        if isinstance(e, ast.DictComp):
            self.bind_gens(f, e.generators)
            a = self.site(f, e)
            self.heap.setdefault(a, {})
            self.store({a}, '*', self.ev(f, e.value))
            return {a}
        if isinstance(e, ast.Starred):
            return self.ev(f, e.value)
        if isinstance(e, (ast.Yield, ast.YieldFrom)):
            # a generator function returns ONE abstract iterable whose elements are everything it yields
            a = ('gen', f.qname)
            self.heap.setdefault(a, {})
            if e.value is not None:
                v = self.ev(f, e.value)
                self.store({a}, '*', self.read(v, '*') if isinstance(e, ast.YieldFrom) else v)
            self._add(self.ret.setdefault(f.qname, set()), {a})
            return set()
        if isinstance(e, ast.Await):
            return self.ev(f, e.value)
        return set()

    def bind_gens(self, f, gens):
        for g in gens:
            self.ev(f, g.iter)
            for c in g.ifs:
                self.ev(f, c)

    def iter_elems(self, f, it, idx=()) -> set:
        """objects denoted by a variable bound (at tuple position idx) while iterating `it`."""
        if isinstance(it, ast.Call) and isinstance(it.func, ast.Attribute) and not it.args \
                and it.func.attr in ('items', 'values', 'keys'):
            base = self.ev(f, it.func.value)
            if it.func.attr == 'keys' or (it.func.attr == 'items' and idx[:1] == (0,)):
                return set()
            vals = self.read(base, '*')
            rest = idx[1:] if it.func.attr == 'items' else idx
            for i in rest:
                vals = self.read(vals, f'#{i}')
            return vals
        if isinstance(it, ast.Call) and isinstance(it.func, ast.Name) and it.func.id == 'enumerate' and it.args:
            if idx[:1] == (0,):
                return set()
            return self.iter_elems(f, it.args[0], idx[1:])
        if isinstance(it, ast.Call) and isinstance(it.func, ast.Name) and it.func.id in (
                'list', 'tuple', 'sorted', 'reversed', 'iter', 'set') and len(it.args) == 1:
            return self.iter_elems(f, it.args[0], idx)
        if isinstance(it, ast.Call) and isinstance(it.func, ast.Name) and it.func.id == 'filter' \
                and len(it.args) == 2:
            return self.iter_elems(f, it.args[1], idx)
        vals = self.read(self.ev(f, it), '*')
        for i in idx:
            vals = self.read(vals, f'#{i}')
        return vals

    def _resolver(self, f):
        r = self._resolvers.get(f.qname)
        if r is None:
            from .effects import PathResolver

            class _Stub:
                pass
            stub = _Stub()
            stub.prog = self.prog
            stub.facts = {}
            r = PathResolver(stub, f)
            self._resolvers[f.qname] = r
        return r

    def bind_iter(self, f, target, it):
        # dict.items(): (key, value)
        if isinstance(it, ast.Call) and isinstance(it.func, ast.Attribute) and not it.args \
                and it.func.attr in ('items', 'values', 'keys'):
            base = self.ev(f, it.func.value)
            vals = self.read(base, '*')
            if it.func.attr == 'items' and isinstance(target, (ast.Tuple, ast.List)) and len(target.elts) == 2:
                self.bind(f, target.elts[1], vals)
                return
            if it.func.attr == 'values':
                self.bind(f, target, vals)
            return
        if isinstance(it, ast.Call) and isinstance(it.func, ast.Name) and it.func.id == 'enumerate' and it.args:
            if isinstance(target, (ast.Tuple, ast.List)) and len(target.elts) == 2:
                self.bind_iter(f, target.elts[1], it.args[0])
            return
        if isinstance(it, ast.Call) and isinstance(it.func, ast.Name) and it.func.id in (
                'list', 'tuple', 'sorted', 'reversed', 'iter', 'set') and len(it.args) == 1:
            self.bind_iter(f, target, it.args[0])
            return
        if isinstance(it, ast.Call) and isinstance(it.func, ast.Name) and it.func.id == 'filter' \
                and len(it.args) == 2:
            self.bind_iter(f, target, it.args[1])
            return
        elems = self.read(self.ev(f, it), '*')
        self.bind(f, target, elems)

    def bind(self, f, target, vals):
        if isinstance(target, ast.Name):
            self._add(self.var(f, target.id), vals)
        elif isinstance(target, (ast.Tuple, ast.List)):
            for i, el in enumerate(target.elts):
                self.bind(f, el, self.read(vals, f'#{i}'))
        elif isinstance(target, ast.Starred):
            self.bind(f, target.value, vals)
        elif isinstance(target, ast.Attribute):
            recv = self.ev(f, target.value)
            self.sink(f, target, target.value, 'attr-set')
            self.store(recv, '.' + target.attr, vals)
        elif isinstance(target, ast.Subscript):
            recv = self.ev(f, target.value)
            self.sink(f, target, target.value, 'item-set')
            self.store(recv, self.key_of(target.slice), vals)

    def sink(self, f, node, recv_expr, op):
        if self._collect_sinks and id(node) not in self._sink_seen:
            self._sink_seen.add(id(node))
            self.sinks.append(Sink(f, node, recv_expr, op))

    # ------------------------------------------------------------------ calls
    def call(self, f: Func, e: ast.Call) -> set:
        fn = e.func
        env = self.prog.env(f)
        # evaluate arguments for their side effects on the lattice (walrus etc.)
        if isinstance(fn, ast.Name):
            n = fn.id
            if n in SCALAR_FUNCS:
                for a in e.args:
                    self.ev(f, a)
                return set()
            if n in ('list', 'tuple', 'sorted', 'set', 'frozenset', 'reversed'):
                a = self.site(f, e)
                self.heap.setdefault(a, {})
                if e.args:
                    self.store({a}, '*', self.read(self.ev(f, e.args[0]), '*'))
                return {a}
            if n == 'dict':
                a = self.site(f, e)
                self.heap.setdefault(a, {})
                if e.args:
                    for o in self.ev(f, e.args[0]):
                        if o == SPEC or o[0] == 'DF':
                            self.store({a}, '*', {o})
                        for k, v in self.heap.get(o, {}).items():
                            self.store({a}, k, v)
                for kw in e.keywords:
                    if kw.arg:
                        self.store({a}, kw.arg, self.ev(f, kw.value))
                return {a}
            if n == 'next' and e.args:
                g = e.args[0]
                out = set()
                if isinstance(g, (ast.GeneratorExp, ast.ListComp)):
                    self.bind_gens(f, g.generators)
                    out = self.ev(f, g.elt)
                else:
                    out = self.read(self.ev(f, g), '*')
                if len(e.args) > 1:
                    out = out | self.ev(f, e.args[1])
                return out
            if n == 'getattr' and e.args:
                base = self.ev(f, e.args[0])
                k = const_str(e.args[1]) if len(e.args) > 1 else None
                out = self.read(base, '.' + k) if k else self.read_any_attr(base)
                if len(e.args) > 2:
                    out = out | self.ev(f, e.args[2])
                return out
            if n == 'setattr' and len(e.args) == 3:
                base = self.ev(f, e.args[0])
                k = const_str(e.args[1])
                self.sink(f, e, e.args[0], 'setattr')
                self.store(base, '.' + k if k else '.*', self.ev(f, e.args[2]))
                return set()
            if n in ('iter', 'filter', 'enumerate', 'zip', 'map'):
                out = set()
                for a in e.args:
                    out |= self.ev(f, a)
                return out
        if isinstance(fn, ast.Attribute):
            if isinstance(fn.value, ast.Name) and fn.value.id == 'copy' and fn.attr in ('deepcopy', 'copy') \
                    and fn.value.id in f.module.imports:
                if fn.attr == 'deepcopy':
                    for a in e.args:
                        self.ev(f, a)
                    # hand-written __deepcopy__ of repo classes return a fresh object as well
                    d = self.site(f, e, 'DF')
                    return {d}
                a = self.site(f, e)
                self.heap.setdefault(a, {})
                if e.args:
                    src = self.ev(f, e.args[0])
                    for o in src:
                        if o == SPEC or o[0] == 'DF':
                            self.store({a}, '*', {o})
                        for k, v in self.heap.get(o, {}).items():
                            self.store({a}, k, v)
                return {a}
            if isinstance(fn.value, ast.Name) and fn.value.id in ('json', 'yaml') \
                    and fn.value.id in f.module.imports:
                for a in e.args:
                    self.ev(f, a)
                return {self.site(f, e, 'DF')} if fn.attr in ('loads', 'load', 'safe_load') else set()
        res = env.resolve_call(e)
        if res[0] == 'method':
            _, recv, name, rtype = res
            robjs = self.ev(f, recv)
            args = [self.ev(f, a) for a in e.args]
            if name in MUT_ADD:
                self.sink(f, e, recv, name)
                if args:
                    self.store(robjs, '*', args[-1])
                return set()
            if name in MUT_EXT:
                self.sink(f, e, recv, name)
                if args:
                    src = args[0]
                    self.store(robjs, '*', self.read(src, '*'))
                    for o in src:       # dict.update keeps keys
                        for k, v in self.heap.get(o, {}).items():
                            if not k.startswith('.'):
                                self.store(robjs, k, v)
                return set()
            if name in MUT_DEL:
                self.sink(f, e, recv, name)
                return self.read(robjs, '*') if name in ('pop', 'popitem') else set()
            if name == 'setdefault':
                self.sink(f, e, recv, name)
                k = self.key_of(e.args[0]) if e.args else '*'
                if len(args) > 1:
                    self.store(robjs, k, args[1])
                return self.read(robjs, k)
            if name == 'get':
                k = self.key_of(e.args[0]) if e.args else '*'
                out = self.read(robjs, k)
                if len(args) > 1:
                    out = out | args[1]
                return out
            if name in ('copy',):
                a = self.site(f, e)
                self.heap.setdefault(a, {})
                for o in robjs:
                    if o == SPEC or o[0] == 'DF':
                        self.store({a}, '*', {o})
                    for k, v in self.heap.get(o, {}).items():
                        self.store({a}, k, v)
                return {a}
            if name in ('values', 'items', 'keys'):
                a = self.site(f, e)
                self.heap.setdefault(a, {})
                if name != 'keys':
                    self.store({a}, '*', self.read(robjs, '*'))
                return {a}
            if name in ('intersection', 'union', 'difference'):
                a = self.site(f, e)
                self.heap.setdefault(a, {})
                return {a}
            return set()
        if res[0] == 'ctor':
            c = res[1]
            a = self.site(f, e)
            self.heap.setdefault(a, {})
            init = res[2]
            if init is not None:
                self.bind_call(f, e, init, {a})
            elif c.is_dataclass:
                order = [fi.name for fi in c.fields.values() if fi.origin == 'dataclass']
                for i, x in enumerate(e.args):
                    if i < len(order):
                        self.store({a}, '.' + order[i], self.ev(f, x))
                for kw in e.keywords:
                    if kw.arg:
                        self.store({a}, '.' + kw.arg, self.ev(f, kw.value))
            return {a}
        if res[0] == 'func':
            callee = res[1]
            recv = None
            if isinstance(fn, ast.Attribute) and callee.is_method and not callee.is_classmethod:
                if env.type_of(fn.value)[0] != 'clsobj':
                    recv = self.ev(f, fn.value)
            self.bind_call(f, e, callee, recv)
            return set(self.ret.get(callee.qname, set()))
        if res[0] == 'builtin' and res[1] == 'pjs_ctor':
            a = self.site(f, e)
            self.heap.setdefault(a, {})
            for kw in e.keywords:
                if kw.arg:
                    self.store({a}, '.' + kw.arg, self.ev(f, kw.value))
            return {a}
        for a in e.args:
            self.ev(f, a)
        for kw in e.keywords:
            self.ev(f, kw.value)
        return set()

    def read_any_attr(self, objs):
        out = set()
        for o in objs:
            if o == SPEC:
                out.add(SPEC)
            if o[0] == 'DF':
                out.add(o)
            for k, v in self.heap.get(o, {}).items():
                if k.startswith('.'):
                    out |= v
        return out

    def bind_call(self, f, e: ast.Call, callee: Func, recv_objs):
        params = list(callee.params)
        if callee.is_method:
            selfp = params.pop(0)
            if recv_objs is not None and not callee.is_classmethod:
                self._add(self.var(callee, selfp, 0), recv_objs)
        for p, a in zip(params, e.args):
            if isinstance(a, ast.Starred):
                break
            self._add(self.var(callee, p, 0), self.ev(f, a))
        for kw in e.keywords:
            if kw.arg in callee.params or kw.arg in callee.kwonly:
                self._add(self.var(callee, kw.arg, 0), self.ev(f, kw.value))

    # ------------------------------------------------------------------ statements
    def _func(self, f: Func):
        cfg = cfg_of(f)
        self._node = cfg.entry
        if f.short == 'LanguageGraph.__init__' and 'lang' in f.params:
            self._add(self.var(f, 'lang', 0), {SPEC})
        ret = self.ret.setdefault(f.qname, set())
        for node in cfg.nodes:
            self._node = node
            n = node.ast
            k = node.kind
            if k in ('entry', 'exit', 'raise', 'try'):
                continue
            if k in ('if', 'while'):
                self.ev(f, n.test)
            elif k == 'for':
                self.bind_iter(f, n.target, n.iter)
            elif k == 'match':
                self.ev(f, n.subject)
            elif k == 'case':
                if n.guard is not None:
                    self.ev(f, n.guard)
            elif k == 'with':
                for it in n.items:
                    v = self.ev(f, it.context_expr)
                    if it.optional_vars is not None:
                        self.bind(f, it.optional_vars, v)
            elif k == 'handler':
                pass
            elif isinstance(n, ast.Assign):
                v = self.ev(f, n.value)
                for t in n.targets:
                    self.bind(f, t, v)
            elif isinstance(n, ast.AnnAssign):
                if n.value is not None:
                    self.bind(f, n.target, self.ev(f, n.value))
            elif isinstance(n, ast.AugAssign):
                v = self.ev(f, n.value)
                if isinstance(n.target, ast.Name):
                    objs = self.lookup(f, n.target.id)
                    self.sink(f, n, n.target, 'aug')
                    self.store(objs, '*', self.read(v, '*'))
                    self._add(self.var(f, n.target.id), objs)
                else:
                    # x[k] += ys / o.f += ys : in-place on the container already stored there (the object stays,
                    # its elements grow); only when nothing is known about the place fall back to a rebinding
                    cur = self.ev(f, n.target)
                    if cur:
                        self.sink(f, n, n.target, 'aug')
                        self.store(cur, '*', self.read(v, '*'))
                    else:
                        self.bind(f, n.target, v)
            elif isinstance(n, ast.Delete):
                for t in n.targets:
                    if isinstance(t, ast.Subscript):
                        self.ev(f, t.value)
                        self.sink(f, n, t.value, 'del')
                    elif isinstance(t, ast.Attribute):
                        self.sink(f, n, t.value, 'delattr')
            elif isinstance(n, ast.Return):
                if n.value is not None:
                    self._add(ret, self.ev(f, n.value))
            elif isinstance(n, ast.Expr):
                self.ev(f, n.value)
        self._node = None
